// tlx::parallel_mergesort / stable_parallel_mergesort construct their temporary copies in storage obtained from plain
// ::operator new(size), which is only aligned for fundamental alignments (16 on x86-64): for an over-aligned element
// type every temporary is an object at a misaligned address (undefined behaviour).
//   clang++ -std=gnu++17 -O1 -I/repo NEW-overaligned-temporaries.repro.cpp /repo/tlx/algorithm/parallel_multiway_merge.cpp -pthread
//     -> "... 1000 of them at misaligned addresses", rc 1   (rc 0 with the patch)
//   g++ -std=gnu++17 -O2 -mavx ... (same files)
//     -> Segmentation fault in std::uninitialized_copy (vmovaps to a 16-byte aligned address), g++ 12 and clang++; rc 0 with the patch
// (C++17 or later, so that std::vector itself allocates suitably aligned storage. The unstable entry point is used on purpose:
// libstdc++ 12's std::stable_sort gets its own buffer from plain operator new as well, see the .txt note.)
#include <tlx/sort/parallel_mergesort.hpp>

#include <atomic>
#include <cstdint>
#include <cstdio>
#include <vector>

static std::atomic<long> misaligned(0), constructed(0);
// opaque to the optimiser, which may otherwise assume that `this` is suitably aligned and fold the test away
__attribute__((noinline)) static void note_address(const volatile void* p, uintptr_t align) {
    uintptr_t a = reinterpret_cast<uintptr_t>(p);
    asm volatile("" : "+r"(a));
    ++constructed;
    if (a % align != 0) ++misaligned;
}
struct alignas(64) Wide {
    int key, tag;
    Wide(int k = 0, int t = 0) : key(k), tag(t) { note_address(this, 64); }
    Wide(const Wide& o) : key(o.key), tag(o.tag) { note_address(this, 64); }
    Wide& operator=(const Wide&) = default;
};
struct alignas(32) V {
    double d[4];
};

int main() {
    {
        std::vector<Wide> v;
        for (int i = 0; i < 1000; ++i) v.emplace_back((i * 7919) % 1000, i);
        constructed = 0, misaligned = 0;
        tlx::parallel_mergesort(v.begin(), v.end(), [](const Wide& a, const Wide& b) { return a.key < b.key; }, 4);
        std::printf("alignof(Wide)=%zu: the sort constructed %ld objects, %ld of them at misaligned addresses\n", alignof(Wide), constructed.load(),
                    misaligned.load());
    }
#ifdef __AVX__
    {
        std::vector<V> v(1001);
        for (int i = 0; i < 1001; ++i) v[i].d[0] = (i * 7919) % 1000, v[i].d[1] = v[i].d[2] = v[i].d[3] = i;
        tlx::parallel_mergesort(v.begin(), v.end(), [](const V& a, const V& b) { return a.d[0] < b.d[0]; }, 3);
        std::printf("sorted %zu elements of a 32-byte aligned type\n", v.size());
    }
#endif
    return misaligned.load() != 0;
}
