// splay_check() ("check the tree order") returns true for a tree that is not a search tree, and never reports the
// minimum / maximum nodes through its out parameters.   g++ -std=c++17 -I/repo splay_check_never_fails.cpp && ./a.out
#include <tlx/container/splay_tree.hpp>
#include <cstdio>
#include <functional>
struct Node { Node *left = nullptr, *right = nullptr; int key; explicit Node(int k) : key(k) {} };
int main() {
    // root 5 with LEFT child 7 and RIGHT child 3: in-order 7,5,3 is not ascending
    Node root(5), l(7), r(3);
    root.left = &l, root.right = &r;
    const Node* t = &root;
    bool ok2 = tlx::splay_check(t, std::less<int>());
    const Node *tmin = nullptr, *tmax = nullptr;
    bool ok4 = tlx::splay_check(t, tmin, tmax, std::less<int>());
    std::printf("invalid tree: splay_check(t,cmp) = %d, splay_check(t,tmin,tmax,cmp) = %d (both should be 0)\n", ok2, ok4);
    // a valid tree: 3 <- 5 -> 7
    l.key = 3, r.key = 7;
    tmin = tmax = nullptr;
    bool okv = tlx::splay_check(t, tmin, tmax, std::less<int>());
    std::printf("valid tree: result %d, tmin %s, tmax %s (should be 1, node 3, node 7)\n", okv, tmin ? "set" : "nullptr", tmax ? "set" : "nullptr");
    return (ok2 || ok4 || !okv || !tmin || !tmax || tmin->key != 3 || tmax->key != 7) ? 1 : 0;
}
