// less_icase_desc is documented as "Descending case-insensitive less order relation functional class for std::map, etc."
// but returns !less_icase(a, b), i.e. a >= b: not irreflexive, so not a strict weak ordering.
#include <tlx/string/less_icase.hpp>
#include <cstdio>
#include <map>
#include <set>
#include <string>
int main() {
    tlx::less_icase_desc d;
    int bad = 0;
    if (d("a", "a")) printf("less_icase_desc(\"a\", \"a\") = true (a strict order must be irreflexive)\n"), ++bad;
    if (d("a", "A") && d("A", "a")) printf("less_icase_desc(\"a\",\"A\") and (\"A\",\"a\") both true (asymmetry violated)\n"), ++bad;
    std::set<std::string, tlx::less_icase_desc> s;
    s.insert("b"), s.insert("a"), s.insert("B"), s.insert("a");
    printf("set{b,a,B,a} with less_icase_desc has %zu elements (expected 2):", s.size());
    for (auto& x : s) printf(" %s", x.c_str());
    printf("\nfind(\"a\") %s\n", s.find("a") == s.end() ? "NOT FOUND" : "found");
    if (s.size() != 2 || s.find("a") == s.end()) ++bad;
    return bad ? 1 : 0;
}
