// levenshtein_algorithm<Param> ignores Param::cost_insert_delete in the first row / first column of the DP table
// (thisrow[i] = i, thisrow[0] = j) although it uses it everywhere else (and in the empty-string shortcuts).
#include <tlx/string/levenshtein.hpp>
#include <cstdio>
struct Cost23 {
    static const unsigned int cost_insert_delete = 2;
    static const unsigned int cost_replace = 3;
    static bool char_equal(const char& a, const char& b) { return a == b; }
};
int main() {
    // "aaa" -> "a": two deletions = 4; "aaa" -> "": three deletions = 6
    size_t d1 = tlx::levenshtein_algorithm<Cost23>("aaa", 3, "a", 1);
    size_t d0 = tlx::levenshtein_algorithm<Cost23>("aaa", 3, "", 0);
    size_t d2 = tlx::levenshtein_algorithm<Cost23>("ab", 2, "b", 1); // one deletion = 2
    printf("cost(2,3): d(aaa,a) = %zu (expected 4), d(aaa,\"\") = %zu (expected 6), d(ab,b) = %zu (expected 2)\n", d1, d0, d2);
    return d1 == 4 && d0 == 6 && d2 == 2 ? 0 : 1;
}
