// Reproducer (compile-time): merging READ-ONLY inputs does not compile.
//   clang++ -std=gnu++17 -I/repo -c F40-const-input-iterators.repro.cpp
// Every multiway merge entry point only READS its input sequences, but input iterators to const elements
// (const T*, std::vector<T>::const_iterator, iterators obtained from a `const std::vector<T>&`) are rejected:
//   multiway_merge.hpp:104/193  guarded_iterator / unguarded_iterator ::operator* return `value_type&`
//                               ("binding reference of type 'int' to value of type 'const int' drops 'const'")
//   multisequence_partition.hpp:322/335  `value_type *maxleft, *minright` are assigned addresses of input elements
// std::merge, std::partial_sort_copy etc. accept such inputs. With the three-line patch this file compiles.
#include <tlx/algorithm/multiway_merge.hpp>
#include <tlx/algorithm/parallel_multiway_merge.hpp>

#include <utility>
#include <vector>

int main() {
    const std::vector<int> a = {1, 3, 5}, b = {2, 4, 6};
    std::vector<std::pair<const int*, const int*>> p = {{a.data(), a.data() + 3}, {b.data(), b.data() + 3}};
    std::vector<int> out(6);
    tlx::multiway_merge(p.begin(), p.end(), out.begin(), 6);                // sequential: error (multiway_merge.hpp)
    std::vector<std::pair<std::vector<int>::const_iterator, std::vector<int>::const_iterator>> q = {{a.begin(), a.end()}, {b.begin(), b.end()}};
    tlx::stable_parallel_multiway_merge(q.begin(), q.end(), out.begin(), 6); // parallel: error (+ multisequence_partition.hpp)
    return out[0] == 1 ? 0 : 1;
}
