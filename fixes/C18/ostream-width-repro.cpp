#include <tlx/container/string_view.hpp>
#include <string_view>
#include <sstream>
#include <iomanip>
#include <iostream>
int main() {
    const char* d = "abc";
    tlx::StringView t(d, 3);
    std::string_view s(d, 3);
    std::ostringstream a, b;
    a << std::setw(6) << std::setfill('*') << t << '|' << 7;
    b << std::setw(6) << std::setfill('*') << s << '|' << 7;
    std::cout << "tlx: [" << a.str() << "]\nstd: [" << b.str() << "]\n";
    std::cout << "max_size tlx " << t.max_size() << " std " << s.max_size() << "\n";
    return a.str() != b.str();
}
