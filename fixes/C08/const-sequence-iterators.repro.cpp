#include <tlx/algorithm/multisequence_partition.hpp>
#include <tlx/algorithm/multisequence_selection.hpp>
#include <vector>
int main() {
    int a[3] = {1, 2, 3}, b[2] = {2, 4};
    typedef const int* It;
    std::vector<std::pair<It, It>> s = {{a, a + 3}, {b, b + 2}};
    std::vector<It> o(2);
#ifdef PART
    tlx::multisequence_partition(s.begin(), s.end(), 2, o.begin());
#else
    int off;
    return tlx::multisequence_selection<int>(s.begin(), s.end(), 2, off);
#endif
}
