// copy of an unallocated RingBuffer owns a zero-length allocation; allocate() on it leaks it
#include <tlx/container/ring_buffer.hpp>
#include <cstdio>
#include <cstdlib>
static long live = 0;
template <class T> struct CA {
    typedef T value_type; typedef size_t size_type; typedef ptrdiff_t difference_type;
    CA() {} template <class U> CA(const CA<U>&) {}
    T* allocate(size_t n) { ++live; printf("  allocate(%zu)\n", n); return (T*)::operator new(n * sizeof(T)); }
    void deallocate(T* p, size_t n) { if (!p) return; --live; printf("  deallocate(%zu)\n", n); ::operator delete(p); }
    bool operator==(const CA&) const { return true; } bool operator!=(const CA&) const { return false; }
};
int main() {
    typedef tlx::RingBuffer<int, CA<int>> RB;
    {
        RB a;            // unallocated
        RB b(a);         // copy of an unallocated buffer
        printf("b.capacity()=%zu size=%zu live blocks=%ld\n", b.capacity(), (size_t)b.size(), live);
        b.allocate(4);   // give it storage
        printf("after b.allocate(4): live blocks=%ld\n", live);
    }
    printf("at end: live blocks=%ld (expected 0)\n", live);
    return live != 0;
}
