// SimpleVector<std::string, NoInitButDestroy>::resize() move-ASSIGNS the kept elements into raw (never
// constructed) storage: undefined behaviour for every element type with a non-trivial assignment.
#include <tlx/container/simple_vector.hpp>
#include <cstdio>
#include <cstring>
#include <new>
#include <string>
int main() {
    typedef tlx::SimpleVector<std::string, tlx::SimpleVectorMode::NoInitButDestroy> SV;
    SV v(2);                                   // mode: storage is NOT initialised ...
    for (size_t i = 0; i < v.size(); ++i)      // ... "all objects must be constructed from outside"
        new (&v[i]) std::string("a string that is too long for the small-string buffer");
    v.resize(3);                               // keeps 2 elements: std::move(tmp, tmp + 2, array_) assigns to raw memory
    new (&v[2]) std::string("third");          // the new slot is constructed from outside again
    printf("%s | %s | %s\n", v[0].c_str(), v[1].c_str(), v[2].c_str());
    return 0;                                  // ~SimpleVector destroys the three strings
}
