// reproducer (observation outside the C03 statement): CharStringSet + detail sorters on bytes >= 0x80 (see Fxx-charstringset-signed-compare.txt)
#include <tlx/sort/strings/radix_sort.hpp>
#include <tlx/sort/strings/multikey_quicksort.hpp>
#include <tlx/sort/strings/insertion_sort.hpp>
#include <cstdio>
#include <cstring>
#include <vector>
#include <random>
namespace ssd = tlx::sort_strings_detail;
template <class C> int cmp(const char* a, const char* b) { while (*a && *a == *b) ++a, ++b; if (!*a) return *b ? -1 : 0; if (!*b) return 1; return (int)(C)*a - (int)(C)*b; }
int main() {
    std::mt19937 g(1);
    const char al[] = {'a', (char)0xff, (char)0x80, 'b'};
    std::vector<std::string> in;
    for (int i = 0; i < 300; ++i) { std::string s; int l = g() % 6; for (int j = 0; j < l; ++j) s += al[g() % 4]; in.push_back(s); }
    for (int algo = 0; algo < 7; ++algo) {
        std::vector<char*> v; for (auto& s : in) v.push_back(strdup(s.c_str()));
        std::vector<uint32_t> lcp(v.size(), 777);
        ssd::CharStringSet ss(v.data(), v.data()+v.size());
        ssd::StringLcpPtr<ssd::CharStringSet, uint32_t> sp(ss, lcp.data());
        switch (algo) {
        case 0: ssd::insertion_sort(sp, 0, 0); break;
        case 1: ssd::multikey_quicksort(sp, 0, 0); break;
        case 2: ssd::radixsort_CE0(sp, 0, 0); break;
        case 3: ssd::radixsort_CE2(sp, 0, 0); break;
        case 4: ssd::radixsort_CE3(sp, 0, 0); break;
        case 5: ssd::radixsort_CI2(sp, 0, 0); break;
        case 6: ssd::radixsort_CI3(sp, 0, 0); break;
        }
        int bad_s = 0, bad_u = 0, bad_lcp = 0;
        for (size_t i = 1; i < v.size(); ++i) {
            if (cmp<signed char>(v[i-1], v[i]) > 0) bad_s++;
            if (cmp<unsigned char>(v[i-1], v[i]) > 0) bad_u++;
            size_t h = 0; while (v[i-1][h] && v[i-1][h] == v[i][h]) ++h;
            if (lcp[i] != h) bad_lcp++;
        }
        printf("algo %d: signed-order violations %d, unsigned-order violations %d, lcp wrong %d\n", algo, bad_s, bad_u, bad_lcp);
    }
}
