// Reproducer: tlx::BTree<...>::const_iterator has a public constructor from const_reverse_iterator (btree.hpp:632) that reads
// it.curr_leaf / it.curr_slot, private members of const_reverse_iterator, which befriends only reverse_iterator: using the
// constructor does not compile ("'curr_leaf' is a private member of ...::const_reverse_iterator").
// The three sibling conversions (const_iterator(reverse_iterator), const_reverse_iterator(const_iterator), iterator(reverse_iterator))
// compile, because those classes befriend each other.
#include <tlx/container/btree_set.hpp>
#include <cstdio>
int main() {
    tlx::btree_set<int> s;
    for (int i = 0; i < 5; ++i) s.insert(i);
    const tlx::btree_set<int>& cs = s;
    tlx::btree_set<int>::const_reverse_iterator cr = cs.rbegin(); // refers to 4
    ++cr;                                                        // refers to 3
    tlx::btree_set<int>::const_iterator ci(cr);                  // like cr.base(): refers to 4   <-- does not compile
    printf("%d\n", *ci);
    return *ci == 4 ? 0 : 1;
}
