// Reproducer: BTree::value_compare::operator() reads x.first / y.first, but value_type of btree_set / btree_multiset is the key.
//  (1) btree_set<int>::value_comp()(1, 2) does not compile            (build with -DSHOW_COMPILE_ERROR)
//  (2) btree_set<std::pair<int,int>, std::less<>>::value_comp() compiles and silently compares only .first of the KEY:
//      (with a transparent comparator such as std::less<>; with std::less<Key> it does not compile either)
//      value_comp()({1,2},{1,3}) == false although {1,2} < {1,3} in the set's own order (std::set: true)
#include <tlx/container/btree_set.hpp>
#include <tlx/container/btree_map.hpp>
#include <set>
#include <map>
#include <cstdio>
int main() {
    typedef std::pair<int, int> P;
    std::set<P, std::less<> > s;
    tlx::btree_set<P, std::less<> > t;
    P a(1, 2), b(1, 3);
    t.insert(a), t.insert(b);
    bool rs = s.value_comp()(a, b), rt = t.value_comp()(a, b);
    printf("set<pair>: key_comp(a,b)=%d  std value_comp(a,b)=%d  tlx value_comp(a,b)=%d  (tlx set holds %zu distinct keys)\n",
           (int)t.key_comp()(a, b), (int)rs, (int)rt, t.size());
#ifdef SHOW_COMPILE_ERROR
    tlx::btree_set<int> u;
    printf("%d\n", (int)u.value_comp()(1, 2));
#endif
    tlx::btree_map<int, int> m;
    std::map<int, int> sm;
    bool mm = m.value_comp()(P(1, 9), P(2, 0)) == sm.value_comp()(std::pair<const int, int>(1, 9), std::pair<const int, int>(2, 0));
    printf("map value_comp agrees: %d\n", (int)mm);
    return rs == rt ? 0 : 1;
}
