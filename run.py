#!/usr/bin/env python3
"""run.py — orchestrator of the /verif property checks (stdlib only).

  run.py check <ID> [--tier quick|thorough]   build from $VERIF_REPO (default /repo), search, write evidence
  run.py replay <ID> <case-file>               re-execute one saved case verbosely
  run.py build <ID>                            only build the binaries of a check
  run.py selftest                              validate MANIFEST.json / evidence against the schemas

Exit status of `check`: 0 = property held on everything explored, 1 = violation
(a line `VIOLATION property=<ID> replay=<path>` is printed), 2 = machinery error.
Configuration of each check lives in checks/<ID>.json.
"""
import concurrent.futures as cf
import glob
import hashlib
import json
import os
import re
import shutil
import subprocess
import sys
import time

VERIF = os.path.dirname(os.path.abspath(__file__))
REPO = os.environ.get("VERIF_REPO", "/repo")
BUILD = os.path.join(VERIF, "build")
NCPU = int(os.environ.get("VERIF_WORKERS", "0") or 0) or os.cpu_count() or 4
REPOTAG = "r" if os.path.realpath(REPO) == "/repo" else "x" + hashlib.sha1(os.path.realpath(REPO).encode()).hexdigest()[:6]

FLAVOURS = {
    # verdict flavour: semantics of the shipped library (NDEBUG), memory errors and UB visible
    "R": ["-O1", "-gline-tables-only", "-DNDEBUG", "-fsanitize=address,undefined", "-fno-sanitize=alignment",
          "-fno-sanitize-recover=undefined", "-fno-omit-frame-pointer"],
    # search aid: tlx asserts enabled
    "A": ["-O1", "-gline-tables-only", "-fsanitize=address,undefined", "-fno-sanitize=alignment",
          "-fno-sanitize-recover=undefined", "-fno-omit-frame-pointer"],
    "T": ["-O1", "-gline-tables-only", "-DNDEBUG", "-fsanitize=thread"],
    "F": ["-O1", "-gline-tables-only", "-DNDEBUG", "-fsanitize=fuzzer,address,undefined", "-fno-sanitize=alignment",
          "-fno-sanitize-recover=undefined", "-DPBT_FUZZER"],
    # plain optimised (exhaustive numeric sweeps)
    "O": ["-O2", "-DNDEBUG"],
}
SAN_ENV = {
    "ASAN_OPTIONS": "detect_leaks=0:exitcode=86:allocator_may_return_null=1:detect_stack_use_after_return=0",
    "UBSAN_OPTIONS": "print_stacktrace=0",
    "TSAN_OPTIONS": "halt_on_error=1:exitcode=66:report_signal_unsafe=0:second_deadlock_stack=1",
}


def log(*a):
    print(*a, flush=True)


def sha_file(h, path):
    with open(path, "rb") as f:
        h.update(path.encode())
        h.update(f.read())


def tree_hash():
    """hash of everything under $REPO/tlx that can influence a build"""
    h = hashlib.sha256()
    files = []
    for root, _dirs, names in os.walk(os.path.join(REPO, "tlx")):
        for n in names:
            if n.endswith((".hpp", ".cpp", ".h")):
                files.append(os.path.join(root, n))
    for f in sorted(files):
        sha_file(h, f)
    return h.hexdigest()


def load_cfg(pid):
    with open(os.path.join(VERIF, "checks", pid + ".json")) as f:
        return json.load(f)


def build_binary(pid, b, thash):
    """compile one harness binary; returns path. Cached by content hash."""
    flavour = b.get("flavour", "R")
    cxx = b.get("cxx", "clang++")
    std = b.get("std", "gnu++17")
    flags = ["-std=" + std] + FLAVOURS[flavour] + ["-I" + REPO, "-I" + VERIF, "-pthread"] + b.get("flags", [])
    shim = b.get("shim")
    srcs = [os.path.join(VERIF, s) for s in b["sources"]] + [os.path.join(VERIF, "engine/driver.cpp")]
    tlx_srcs = [os.path.join(REPO, s) for s in b.get("tlx_sources", [])]
    tlx_plain = [os.path.join(REPO, s) for s in b.get("tlx_sources_noshim", [])]
    h = hashlib.sha256()
    h.update(thash.encode())
    h.update(" ".join([cxx] + flags + [str(shim)]).encode())
    for f in sorted(glob.glob(os.path.join(VERIF, "engine", "**", "*.[ch]pp"), recursive=True)) + srcs + \
            [os.path.join(VERIF, d) for d in b.get("deps", [])]:
        sha_file(h, f)
    key = h.hexdigest()[:16]
    prefix = "%s-%s-%s-" % (pid, b["name"], REPOTAG)
    bdir = os.path.join(BUILD, prefix + key)
    exe = os.path.join(bdir, b["name"])
    if os.path.exists(exe):
        return exe
    os.makedirs(BUILD, exist_ok=True)
    # prune stale builds of this binary (not the recent ones: a concurrent run may still be using them)
    for old in glob.glob(os.path.join(BUILD, prefix + "*")):
        try:
            if time.time() - os.path.getmtime(old) > (3600 if ".tmp" not in old else 7200):
                shutil.rmtree(old, ignore_errors=True)
        except OSError:
            pass
    final_bdir, final_exe = bdir, exe
    bdir = "%s.tmp%d" % (final_bdir, os.getpid())  # build privately, publish with one rename
    exe = os.path.join(bdir, b["name"])
    shutil.rmtree(bdir, ignore_errors=True)
    os.makedirs(bdir)
    jobs = []
    shimflags = ["-include", os.path.join(VERIF, shim)] if shim else []
    for s in srcs:
        jobs.append((s, flags + (shimflags if shim and s.startswith(os.path.join(VERIF, "harness")) else [])))
    for s in tlx_srcs:
        jobs.append((s, flags + shimflags))
    for s in tlx_plain:
        jobs.append((s, flags))
    objs = []

    def comp(job):
        s, fl = job
        o = os.path.join(bdir, re.sub(r"[^A-Za-z0-9]", "_", os.path.relpath(s, "/")) + ".o")
        r = subprocess.run([cxx] + fl + ["-c", s, "-o", o], capture_output=True, text=True, timeout=1800)
        return o, r

    t0 = time.time()
    with cf.ThreadPoolExecutor(max_workers=NCPU) as ex:
        for o, r in ex.map(comp, jobs):
            if r.returncode != 0:
                sys.stderr.write(r.stderr[-6000:])
                raise SystemExit("BUILD-ERROR %s (%s)" % (b["name"], o))
            objs.append(o)
    r = subprocess.run([cxx] + flags + objs + ["-o", exe + ".tmp"] + b.get("libs", []), capture_output=True, text=True,
                       timeout=1800)
    if r.returncode != 0:
        sys.stderr.write(r.stderr[-6000:])
        raise SystemExit("LINK-ERROR %s" % b["name"])
    os.rename(exe + ".tmp", exe)
    for o in objs:
        os.unlink(o)
    try:
        os.rename(bdir, final_bdir)
    except OSError:  # somebody else published the same build meanwhile
        shutil.rmtree(bdir, ignore_errors=True)
    log("  built %s [%s] in %.1fs" % (b["name"], flavour, time.time() - t0))
    return final_exe


def build_all(pid, cfg, names=None):
    thash = tree_hash()
    todo = [b for b in cfg["binaries"] if names is None or b["name"] in names]
    with cf.ThreadPoolExecutor(max_workers=4) as ex:
        exes = list(ex.map(lambda b: build_binary(pid, b, thash), todo))
    return {b["name"]: e for b, e in zip(todo, exes)}


def run_env(extra=None):
    env = dict(os.environ)
    env.update(SAN_ENV)
    if extra:
        env.update(extra)
    return env


def known_findings(pid):
    path = os.path.join(VERIF, "known_findings.json")
    if not os.path.exists(path):
        return []
    with open(path) as f:
        return [e for e in json.load(f).get("findings", []) if e.get("property") == pid]


def match_known(entries, label):
    for e in entries:
        if e.get("status") != "known":
            continue
        for k in e.get("labels", []):
            if label == k or (k.endswith("*") and label.startswith(k[:-1])):
                return e
    return None


def save_failure(pid, binary, target, casefile):
    data = open(casefile, "rb").read()
    d = os.path.join(VERIF, "failures", pid)
    os.makedirs(d, exist_ok=True)
    out = os.path.join(d, "%s.%s.%s.case" % (binary, target, hashlib.sha1(data).hexdigest()[:12]))
    with open(out, "wb") as f:
        f.write(data)
    return out


def parse_case_name(path):
    base = os.path.basename(path)
    parts = base.split(".")
    if len(parts) < 4:
        raise SystemExit("case file name must be <binary>.<target>.<name>.case: " + base)
    return parts[0], parts[1]


def replay_case(exe, target, path, quiet=True, timeout=120):
    cmd = [exe, "replay", "--target", target, path] + (["--quiet"] if quiet else [])
    try:
        r = subprocess.run(cmd, capture_output=True, text=True, env=run_env(), timeout=timeout, errors="replace")
    except subprocess.TimeoutExpired:
        return 2, "", "timeout"
    label = ""
    m = re.search(r"RESULT FAIL label=(\S+)", r.stdout)
    if m:
        label = m.group(1)
    return r.returncode, label, r.stdout + r.stderr


def cmd_check(pid, tier):
    t0 = time.time()
    seed = int(os.environ.get("VERIF_SEED", "1") or "1")
    cfg = load_cfg(pid)
    known = known_findings(pid)
    exclude = sorted({x for e in known if e.get("status") == "known" for x in e.get("exclude", [])})
    # one scratch directory per invocation, so that concurrent runs of the same check do not collide
    work = os.path.join(VERIF, "work", "%s-%s-%d" % (pid, tier, os.getpid()))
    shutil.rmtree(work, ignore_errors=True)
    os.makedirs(work)
    latest = os.path.join(VERIF, "work", "%s-%s" % (pid, tier))
    log("[%s] tier=%s seed=%d repo=%s" % (pid, tier, seed, REPO))
    steps = [s for s in cfg["steps"] if tier in s.get("tiers", ["quick", "thorough"])]
    exes = build_all(pid, cfg, {s["binary"] for s in steps if "binary" in s} | set(cfg.get("replay_binaries", [])))

    violations = []      # (label, path, msg)
    known_hits = []      # (entry, label)
    unreproducible = []
    cov = {"evaluations": 0, "distinct_nontrivial": 0, "nontrivial": 0, "inconclusive": 0, "hangs": 0, "labels": {},
           "samples": [], "steps": [], "exhaustive_steps": [], "timed_out_steps": []}

    def note_failure(binary, target, label, casefile, msg, desc=""):
        e = match_known(known, label)
        if e is not None:
            known_hits.append((e, label))
            return
        path = save_failure(pid, binary, target, casefile)
        violations.append((label, path, msg, desc))

    # 1. regression corpus (committed witnesses, former failures)
    corpus = sorted(glob.glob(os.path.join(VERIF, "corpus", pid, "*.case")))
    replayed = 0
    for c in corpus:
        b, t = parse_case_name(c)
        if b not in exes:
            continue
        rc, label, out = replay_case(exes[b], t, c)
        replayed += 1
        if rc == 1:
            note_failure(b, t, label, c, out[-1500:])
    cov["corpus_replayed"] = replayed

    # 2. search steps
    for s in steps:
        if violations:
            break
        kind = s.get("kind", "pbt")
        p = s.get(tier, {})
        if kind == "pbt":
            outdir = os.path.join(work, "%s.%s" % (s["binary"], s["target"]))
            cases = int(p.get("cases", 1000))
            limit = float(p.get("time_limit", 900))
            cmd = [exes[s["binary"]], "run", "--target", s["target"], "--seed", str(seed), "--cases", str(cases),
                   "--workers", str(p.get("workers", NCPU)), "--maxlen", str(p.get("maxlen", 256)), "--case-timeout",
                   str(p.get("case_timeout", 20)), "--time-limit", str(limit), "--outdir", outdir]
            if s.get("enumerate"):
                cmd.append("--enumerate")
            if s.get("pin"):
                cmd.append("--pin")
            env = run_env({"PBT_EXCLUDE": ",".join(exclude)})
            env.update(s.get("env", {}))
            try:
                r = subprocess.run(cmd, env=env, capture_output=True, text=True, timeout=limit + 600, errors="replace")
            except subprocess.TimeoutExpired:
                log("  step %s: driver exceeded hard limit (inconclusive)" % s["target"])
                cov["timed_out_steps"].append(s["target"])
                continue
            log("  " + r.stdout.strip().replace("\n", "\n  "))
            rj = os.path.join(outdir, "result.json")
            if not os.path.exists(rj):
                sys.stderr.write(r.stderr[-3000:])
                raise SystemExit("driver produced no result for %s (rc=%d)" % (s["target"], r.returncode))
            res = json.load(open(rj))
            inner = int(res.get("inner_evaluations", 0))
            cov["evaluations"] += max(res["evaluations"], inner)
            cov["distinct_nontrivial"] += res["distinct_nontrivial"]
            cov["nontrivial"] += res["nontrivial"]
            cov["inconclusive"] += res["inconclusive"]
            cov["hangs"] += res["hangs"]
            for k, v in res["labels"].items():
                cov["labels"][s["target"] + ":" + k] = cov["labels"].get(s["target"] + ":" + k, 0) + v
            for smp in res["samples"][: int(s.get("samples", 2))]:
                cov["samples"].append({"target": s["target"], "case": smp[:3000]})
            cov["steps"].append({"target": s["target"], "binary": s["binary"], "cases": res["evaluations"],
                                 "inner_evaluations": inner,
                                 "distinct_nontrivial": res["distinct_nontrivial"], "wall_s": res["wall_s"],
                                 "enumerate": bool(s.get("enumerate"))})
            if res["timed_out"]:
                cov["timed_out_steps"].append(s["target"])
            elif s.get("enumerate") and not res["failure"] and res["evaluations"] == cases and res["inconclusive"] == 0:
                cov["exhaustive_steps"].append(s["target"])
            f = res["failure"]
            if f:
                if f["reproducible"]:
                    note_failure(s["binary"], s["target"], f["label"], f["file"], f["msg"], f.get("desc", ""))
                else:
                    unreproducible.append({"target": s["target"], "label": f["label"], "replay_ok": f["replay_ok"]})
        elif kind == "fuzz":
            run_fuzz(pid, s, p, exes, seed, work, cov, note_failure, exclude)
        elif kind == "cmd":
            run_cmd_step(pid, s, p, seed, tier, work, cov, note_failure)
        else:
            raise SystemExit("unknown step kind " + kind)

    # 3. known findings: replay witnesses, print KNOWN-FINDING lines
    for e in known:
        if e.get("status") != "known":
            continue
        w = os.path.join(VERIF, e["witness"])
        b, t = parse_case_name(w)
        if b not in exes:
            exes.update(build_all(pid, cfg, {b}))
        rc, label, _ = replay_case(exes[b], t, w)
        if rc == 1 and match_known([e], label):
            log("KNOWN-FINDING: property=%s %s" % (pid, e["what"]))

    wall = time.time() - t0
    ev = {
        "property_id": pid, "tier": tier, "seed": seed, "level": "exploration",
        "coverage": {
            "evaluations": cov["evaluations"], "distinct_nontrivial": cov["distinct_nontrivial"],
            "rule": cfg["rule"], "samples": cov["samples"][:8], "nontrivial_total": cov["nontrivial"],
            "labels": cov["labels"], "inconclusive": cov["inconclusive"], "hangs": cov["hangs"],
            "unreproducible": unreproducible, "steps": cov["steps"], "corpus_replayed": cov["corpus_replayed"],
            "exhaustive_steps": cov["exhaustive_steps"], "timed_out_steps": cov["timed_out_steps"],
            "known_findings_excluded": exclude,
            "exhaustive": bool(cfg.get("exhaustive_if_all") and
                               set(cfg["exhaustive_if_all"]) <= set(cov["exhaustive_steps"])),
            "repo": REPO,
        },
        "assumptions": cfg.get("assumptions", []),
        "wall_s": round(wall, 2),
        "violations": len(violations),
    }
    for k in ("fuzz", "extra"):
        if k in cov:
            ev["coverage"][k] = cov[k]
    os.makedirs(os.path.join(VERIF, "evidence"), exist_ok=True)
    evfile = os.environ.get("VERIF_EVIDENCE", os.path.join(VERIF, "evidence", pid + ".json"))
    with open(evfile, "w") as f:
        json.dump(ev, f, indent=1)
        f.write("\n")
    log("[%s] evaluations=%d distinct_nontrivial=%d inconclusive=%d wall=%.1fs" %
        (pid, cov["evaluations"], cov["distinct_nontrivial"], cov["inconclusive"], wall))
    # keep the scratch directory of the latest run of this check/tier under a stable name
    try:
        shutil.rmtree(latest, ignore_errors=True)
        os.rename(work, latest)
    except OSError:
        pass
    if violations:
        for label, path, msg, desc in violations:
            log("--- failure %s\n%s\n%s" % (label, (desc or "")[-2500:], msg[:2500]))
            log("VIOLATION property=%s replay=%s" % (pid, path))
        return 1
    log("[%s] OK" % pid)
    return 0


def run_fuzz(pid, s, p, exes, seed, work, cov, note_failure, exclude):
    """libFuzzer campaign on the F-flavour binary; crashes are shrunk and judged by the R binary."""
    secs = int(p.get("secs", 60))
    jobs = int(p.get("jobs", NCPU))
    fexe = exes[s["binary"]]
    rbin = s["judge_binary"]
    rexe = exes[rbin]
    target = s["target"]
    base = os.path.join(work, "fuzz.%s" % target)
    procs = []
    for j in range(jobs):
        d = os.path.join(base, "j%d" % j)
        os.makedirs(os.path.join(d, "corpus"))
        os.makedirs(os.path.join(d, "art"))
        open(os.path.join(d, "corpus", "empty"), "wb").close()
        for c in glob.glob(os.path.join(VERIF, "corpus", pid, "%s.%s.*.case" % (rbin, target))):
            shutil.copy(c, os.path.join(d, "corpus"))
        cmd = [fexe, "-seed=%d" % (seed * 1000 + j + 1), "-max_total_time=%d" % secs, "-max_len=%d" % p.get("maxlen", 512),
               "-artifact_prefix=" + os.path.join(d, "art") + "/", "-print_final_stats=1", "-timeout=60",
               "-rss_limit_mb=4096", os.path.join(d, "corpus")]
        env = run_env({"PBT_TARGET": target, "PBT_EXCLUDE": ",".join(exclude)})
        procs.append((d, subprocess.Popen(cmd, env=env, stdout=subprocess.DEVNULL, stderr=open(os.path.join(d, "log"), "w"))))
    execs = 0
    best_cov = 0
    crashes = []
    for d, pr in procs:
        try:
            pr.wait(timeout=secs + 300)
        except subprocess.TimeoutExpired:
            pr.kill()
        lg = open(os.path.join(d, "log"), errors="replace").read()
        m = re.search(r"stat::number_of_executed_units:\s*(\d+)", lg)
        if m:
            execs += int(m.group(1))
        else:
            m2 = re.findall(r"^#(\d+)\s", lg, re.M)
            if m2:
                execs += int(m2[-1])
        for c in re.findall(r"cov: (\d+)", lg):
            best_cov = max(best_cov, int(c))
        crashes += [a for a in glob.glob(os.path.join(d, "art", "*")) if os.path.basename(a).startswith(("crash-", "leak-"))]
    cov["evaluations"] += execs
    cov.setdefault("fuzz", []).append({"target": target, "execs": execs, "jobs": jobs, "secs": secs, "cov": best_cov,
                                       "crash_artifacts": len(crashes)})
    log("  fuzz %s: execs=%d cov=%d crashes=%d" % (target, execs, best_cov, len(crashes)))
    for a in crashes[:3]:
        out = a + ".shrunk"
        r = subprocess.run([rexe, "shrink", "--target", target, a, out], env=run_env({"PBT_EXCLUDE": ",".join(exclude)}),
                           capture_output=True, text=True, timeout=1800, errors="replace")
        m = re.search(r"RESULT FAIL label=(\S+) .*replay_ok=(\d)", r.stdout)
        if m and m.group(2) == "3":
            note_failure(rbin, target, m.group(1), out, r.stdout[-1500:])
            break


def run_cmd_step(pid, s, p, seed, tier, work, cov, note_failure):
    """external step (e.g. Hypothesis). Protocol: the command writes JSON to $STEP_OUT:
    {evaluations, distinct_nontrivial, samples:[...], labels:{}, failure: null | {label,msg,file}}"""
    out = os.path.join(work, "step-%s.json" % s["name"])
    env = run_env({"STEP_OUT": out, "VERIF_SEED": str(seed), "VERIF_TIER": tier, "VERIF_REPO": REPO, "VERIF_WORK": work})
    for k, v in p.get("env", {}).items():
        env[k] = str(v)
    limit = float(p.get("time_limit", 1800))
    try:
        r = subprocess.run(s["cmd"], shell=True, cwd=VERIF, env=env, capture_output=True, text=True, timeout=limit,
                           errors="replace")
    except subprocess.TimeoutExpired:
        cov["timed_out_steps"].append(s["name"])
        return
    if not os.path.exists(out):
        sys.stderr.write(r.stdout[-3000:] + r.stderr[-3000:])
        raise SystemExit("step %s produced no result (rc=%d)" % (s["name"], r.returncode))
    res = json.load(open(out))
    cov["evaluations"] += res.get("evaluations", 0)
    cov["distinct_nontrivial"] += res.get("distinct_nontrivial", 0)
    cov["nontrivial"] += res.get("distinct_nontrivial", 0)
    for k, v in res.get("labels", {}).items():
        cov["labels"][s["name"] + ":" + k] = v
    for smp in res.get("samples", [])[:3]:
        cov["samples"].append({"target": s["name"], "case": smp})
    cov["steps"].append({"target": s["name"], "cases": res.get("evaluations", 0),
                         "distinct_nontrivial": res.get("distinct_nontrivial", 0), "wall_s": res.get("wall_s", 0)})
    if res.get("exhaustive"):
        cov["exhaustive_steps"].append(s["name"])
    log("  step %s: evaluations=%d distinct_nontrivial=%d" % (s["name"], res.get("evaluations", 0),
                                                             res.get("distinct_nontrivial", 0)))
    f = res.get("failure")
    if f:
        note_failure(s.get("binary", "ext"), s["name"], f["label"], f["file"], f.get("msg", ""))


def cmd_replay(pid, path):
    cfg = load_cfg(pid)
    b, t = parse_case_name(path)
    ext = [s for s in cfg["steps"] if s.get("kind") == "cmd" and s["name"] == t]
    if ext:
        env = run_env({"VERIF_REPO": REPO, "REPLAY_FILE": os.path.abspath(path)})
        return subprocess.run(ext[0]["replay_cmd"], shell=True, cwd=VERIF, env=env).returncode
    exes = build_all(pid, cfg, {b})
    rc, label, out = replay_case(exes[b], t, path, quiet=False)
    print(out)
    return rc


def cmd_selftest():
    import importlib.util
    ok = True
    try:
        sys.path.insert(0, "/opt/veriftools/pyvenv/lib/python3.11/site-packages")
        import jsonschema  # noqa
    except Exception as e:  # pragma: no cover
        print("jsonschema not importable:", e)
        return 0
    man = json.load(open(os.path.join(VERIF, "MANIFEST.json")))
    jsonschema.validate(man, json.load(open("/root/.vp/MANIFEST.schema.json")))
    evs = json.load(open("/root/.vp/EVIDENCE.schema.json"))
    for c in man["checks"]:
        p = c["evidence_file"]
        if os.path.exists(p):
            try:
                jsonschema.validate(json.load(open(p)), evs)
            except Exception as e:
                ok = False
                print("INVALID", p, str(e)[:300])
    print("selftest", "ok" if ok else "FAILED")
    return 0 if ok else 2


def main():
    a = sys.argv[1:]
    if not a:
        print(__doc__)
        return 2
    if a[0] == "check":
        tier = os.environ.get("VERIF_TIER", "quick")
        if "--tier" in a:
            tier = a[a.index("--tier") + 1]
        return cmd_check(a[1], tier)
    if a[0] == "replay":
        return cmd_replay(a[1], a[2])
    if a[0] == "build":
        build_all(a[1], load_cfg(a[1]))
        return 0
    if a[0] == "selftest":
        return cmd_selftest()
    if a[0] == "build-all":  # MANIFEST.setup_cmd: warm the build cache of every registered check
        rc = 0
        for f in sorted(glob.glob(os.path.join(VERIF, "checks", "C*.json"))):
            pid = os.path.basename(f)[:-5]
            try:
                cfg = load_cfg(pid)
                quick = {s["binary"] for s in cfg["steps"] if "binary" in s and "quick" in s.get("tiers", ["quick"])}
                build_all(pid, cfg, quick | set(cfg.get("replay_binaries", [])))
            except SystemExit as e:
                print("build failed for", pid, e)
                rc = 2
        return rc
    print(__doc__)
    return 2


if __name__ == "__main__":
    try:
        sys.exit(main())
    except SystemExit:
        raise
    except Exception as e:  # machinery error: never looks like a violation
        import traceback
        traceback.print_exc()
        sys.exit(2)
