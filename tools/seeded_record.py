#!/usr/bin/env python3
"""seeded_record.py <ID> <json-string>  — copy /tmp/seed/out/<ID> deliverables into /verif/seeded/<ID>/ and write meta.json"""
import json, os, shutil, sys
ID, meta = sys.argv[1], json.loads(sys.argv[2])
rnd = os.environ.get("ROUND", "")
src, dst = "/tmp/seed/out" + rnd + "/" + ID, "/verif/seeded/" + ID + ("-r" + rnd if rnd else "")
os.makedirs(dst, exist_ok=True)
for f in os.listdir(src):
    p = os.path.join(src, f)
    if os.path.isfile(p) and os.path.getsize(p) < 400000 and not f.endswith((".o", ".out")) and "demo_" not in f:
        shutil.copy(p, dst)
meta.setdefault("property", ID)
json.dump(meta, open(os.path.join(dst, "meta.json"), "w"), indent=1)
print("recorded", dst, os.listdir(dst))
