#!/bin/bash
# seeded_check.sh <ID> [check ids...]  — run the listed checks (default: <ID>, quick tier) against the seeded
# change /verif/seeded/<ID>/patch.diff (or /tmp/seed/out/<ID>). Default mode applies the patch to a scratch
# worktree of /repo HEAD and points the checks at it with VERIF_REPO (safe while other runs use /repo);
# INPLACE=1 applies it to /repo itself (git -C /repo apply ...; checks; git -C /repo checkout -- .).
ID=$1; shift
CHECKS=${@:-$ID}
# ROUND=2 selects the second seeding round (/verif/seeded/<ID>-r2, /tmp/seed/out2/<ID>)
SUF=${ROUND:+-r$ROUND}
P=/verif/seeded/$ID$SUF/patch.diff
[ -f "$P" ] || P=/tmp/seed/out${ROUND:-}/$ID/patch.diff
if [ -n "$INPLACE" ]; then
  git -C /repo apply "$P" || { echo "patch does not apply"; exit 2; }
  trap 'git -C /repo checkout -- . ' EXIT
  R=/repo
else
  R=/tmp/sk-$ID-$$
  git -C /repo worktree add -q --detach $R HEAD || exit 2
  git -C $R apply "$P" || { echo "patch does not apply"; git -C /repo worktree remove --force $R; exit 2; }
  trap 'git -C /repo worktree remove --force '$R'; rm -rf /verif/build/*-x$(python3 -c "import hashlib,os;print(hashlib.sha1(os.path.realpath(\"'$R'\").encode()).hexdigest()[:6])")-*' EXIT
fi
for c in $CHECKS; do
  out=$(VERIF_REPO=$R VERIF_EVIDENCE=/tmp/seeded-ev-$$.json timeout 3000 python3 /verif/run.py check $c --tier ${TIER:-quick} 2>&1)
  if echo "$out" | grep -q "^VIOLATION"; then echo "DETECTED by $c: $(echo "$out" | grep -m1 '^--- failure')"; else echo "MISSED by $c: $(echo "$out" | tail -2 | head -1)"; fi
done
rm -f /tmp/seeded-ev-$$.json
