#!/bin/bash
# seeded_check.sh <ID> [check ids...]  — apply /verif/seeded/<ID>/patch.diff (or /tmp/seed/out/<ID>) to /repo,
# run the listed checks (default: <ID>) in the quick tier, undo the patch. Prints DETECTED/MISSED per check.
ID=$1; shift
CHECKS=${@:-$ID}
P=/verif/seeded/$ID/patch.diff
[ -f "$P" ] || P=/tmp/seed/out/$ID/patch.diff
git -C /repo apply "$P" || { echo "patch does not apply"; exit 2; }
trap 'git -C /repo checkout -- . ' EXIT
for c in $CHECKS; do
  out=$(VERIF_EVIDENCE=/tmp/seeded-ev-$$.json timeout 3000 python3 /verif/run.py check $c --tier ${TIER:-quick} 2>&1)
  if echo "$out" | grep -q "^VIOLATION"; then echo "DETECTED by $c: $(echo "$out" | grep -m1 '^--- failure')"; else echo "MISSED by $c: $(echo "$out" | tail -2 | head -1)"; fi
done
rm -f /tmp/seeded-ev-$$.json
