#!/usr/bin/env python3
"""targets_table.py — regenerate the per-property target table of DESIGN.md 10.1 (between the TARGETS-TABLE markers)
from checks/*.json, so that the document cannot drift from what the checks run."""
import glob, json, os, re
root = os.path.dirname(os.path.dirname(os.path.abspath(__file__)))
def n(x):
    if x >= 10**6 and x % 10**5 == 0: return "%gM" % (x / 1e6)
    if x >= 1000 and x % 100 == 0: return "%gk" % (x / 1e3)
    return str(x)
rows = []
for f in sorted(glob.glob(root + "/checks/C*.json")):
    c = json.load(open(f))
    fl = {b["name"]: b["flavour"] + ("+sched" if b.get("shim", "").endswith("shim.hpp") else "") for b in c["binaries"]}
    cells = []
    for s in c["steps"]:
        tiers = s.get("tiers") or [t for t in ("quick", "thorough") if t in s]
        if s["kind"] == "cmd":
            cells.append("`%s` (external oracle; %s)" % (s["name"], "/".join(tiers)))
            continue
        q, t = s.get("quick", {}), s.get("thorough", {})
        def amount(d):
            if not d: return "-"
            if s.get("enumerate") or d.get("enumerate"): return "exhaustive"
            if s["kind"] == "fuzz": return "%d jobs x %ss" % (d.get("jobs", 1), d.get("secs", "?"))
            return n(d.get("cases", 0))
        cells.append("`%s`%s [%s] %s / %s" % (s["target"], " (libFuzzer)" if s["kind"] == "fuzz" else "", fl.get(s["binary"], "?"),
                                               amount(q) if "quick" in tiers else "-", amount(t) if "thorough" in tiers else "-"))
    rows.append("| %s | %s |" % (c["id"], "<br>".join(cells)))
table = ("One line per step: `target` [build flavour: R = ASan+UBSan -DNDEBUG, A = R with asserts, T = TSan, F = R+libFuzzer, O = plain -O2; "
         "+sched = deterministic scheduler shim] generated cases quick / thorough (case budgets; thorough steps also carry a time limit, "
         "a budget hit is reported as inconclusive, never as a violation).\n\n| property | steps |\n|---|---|\n" + "\n".join(rows) + "\n")
p = root + "/DESIGN.md"
s = open(p).read()
b, e = "<!-- TARGETS-TABLE-BEGIN -->\n", "<!-- TARGETS-TABLE-END -->"
if b not in s:
    raise SystemExit("markers missing")
s = s[:s.index(b) + len(b)] + table + s[s.index(e):]
open(p, "w").write(s)
print(len(rows), "rows")
