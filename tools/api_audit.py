#!/usr/bin/env python3
"""api_audit.py — crude completeness audit: function names declared in the files a property is anchored in (and the
headers of anchored .cpp files) that are never mentioned in that property's harness sources. A name listed here is
only a hint (private helpers, names used through another overload, ...), read by hand; it found the missing
equal_icase / less_icase coverage (F38)."""
import glob, json, os, re
root = os.path.dirname(os.path.dirname(os.path.abspath(__file__)))
repo = os.environ.get("VERIF_REPO", "/repo")
props = [json.loads(l) for l in open(root + "/properties.jsonl")]
kw = set("if for while switch return sizeof static_cast reinterpret_cast const_cast assert defined decltype noexcept alignof catch operator template typename using namespace do else new delete throw main".split())
share = {"C02": ["C01"], "C09": ["C05"], "C07": ["C05", "C08"], "C08": ["C07"]}
for p in props:
    pid = p["id"]
    hs = ""
    for q in [pid] + share.get(pid, []):
        for f in glob.glob(root + "/harness/%s*" % q):
            if os.path.isfile(f):
                hs += open(f, errors="replace").read()
    files = list(p["anchors"]["files"])
    files += [f[:-4] + ".hpp" for f in files if f.endswith(".cpp")]
    names = set()
    for f in files:
        path = os.path.join(repo, f)
        if not os.path.exists(path):
            continue
        src = open(path, errors="replace").read()
        src = re.sub(r"//.*", "", src)
        src = re.sub(r"/\*.*?\*/", "", src, flags=re.S)
        for m in re.finditer(r"[\s\*&>](\w+)\s*\([^;{}()]*(?:\([^()]*\)[^;{}()]*)*\)\s*(?:const)?\s*(?:noexcept)?\s*(?:override)?\s*[{;]", src):
            n = m.group(1)
            if n in kw or n.startswith("_") or n.isupper() or n.endswith("_"):
                continue
            names.add(n)
    missing = sorted(n for n in names if not re.search(r"\b" + re.escape(n) + r"\b", hs))
    print(pid, "%d names, not mentioned:" % len(names), " ".join(missing))
