#!/usr/bin/env python3
"""Regenerate MANIFEST.json from checks/*.json (claimed = has a "manifest" section) and properties.jsonl."""
import glob, json, os
V = os.path.dirname(os.path.dirname(os.path.abspath(__file__)))
props = [json.loads(l) for l in open(os.path.join(V, "properties.jsonl")) if l.strip()]
na_file = os.path.join(V, "checks", "not_applicable.json")
na_reasons = json.load(open(na_file)) if os.path.exists(na_file) else {}
checks, na, engines = [], [], {}
registered = set(json.load(open(os.path.join(V, "checks", "registered.json"))))
for p in props:
    pid = p["id"]
    f = os.path.join(V, "checks", pid + ".json")
    cfg = json.load(open(f)) if os.path.exists(f) else None
    if not cfg or "manifest" not in cfg or pid not in registered:
        na.append({"property_id": pid, "reason": na_reasons.get(pid, "check not built yet (work in progress); not claimed")})
        continue
    m = cfg["manifest"]
    c = {"property_id": pid,
         "quick_cmd": "python3 run.py check %s --tier quick" % pid,
         "thorough_cmd": "python3 run.py check %s --tier thorough" % pid,
         "evidence_file": "/verif/evidence/%s.json" % pid,
         "replay_cmd_template": "python3 run.py replay %s {path}" % pid,
         "engine": m.get("engine", "pbt"),
         "level_claimed": {"category": m.get("category", "exploration"), "text": m["text"], "design_ref": m.get("design_ref", "DESIGN.md §4 " + pid)},
         "level_note": m["note"], "technique": m["technique"]}
    checks.append(c)
man = {
 "version": 1,
 "setup_cmd": "python3 run.py build-all",
 "hooks": {"guard": "TLX_VERIF_HOOKS", "enable": "no source hooks are needed: harnesses compile tlx sources from /repo themselves; scheduling control comes from a force-included shim header (engine/sched/shim.hpp), structure inspection from the documented TLX_BTREE_FRIENDS macro, lifetime/allocation observation from template arguments",
           "baseline_off_cmd": "cmake --build /repo/_build && ctest --test-dir /repo/_build -j8 --timeout 900",
           "source_commits": [], "add_only": True},
 "engines": [
  {"name": "pbt", "path": "engine/pbt.hpp, engine/driver.cpp, run.py", "serves_properties": [c["property_id"] for c in checks],
   "kind_free_text": "in-house choice-sequence property-based testing engine (bytes -> case): seeded random search in forked crash-safe workers, byte-level shrinking, replay files, same property function compiled as libFuzzer target; deterministic thread scheduler (engine/sched) for schedule-quantified properties; ASan/UBSan/TSan as memory/race oracles"}],
 "checks": checks,
 "not_applicable": na,
 "notes": "All checks: `python3 run.py check <ID> --tier quick|thorough`; honour VERIF_SEED, VERIF_TIER, VERIF_REPO (default /repo). Findings protocol: known_findings.json. See DESIGN.md."
}
json.dump(man, open(os.path.join(V, "MANIFEST.json"), "w"), indent=1)
print("claimed:", [c["property_id"] for c in checks], "not claimed:", len(na))
