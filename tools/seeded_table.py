#!/usr/bin/env python3
"""Regenerate section 10.7 of DESIGN.md (between the SEEDED-TABLE markers) from seeded/*/meta.json."""
import glob, json, os, re
V = os.path.dirname(os.path.dirname(os.path.abspath(__file__)))
rows = []
for d in sorted(x for x in glob.glob(os.path.join(V, "seeded", "*")) if os.path.isdir(x)):
    m = json.load(open(os.path.join(d, "meta.json")))
    name = os.path.basename(d)
    res = "; ".join("%s: %s" % (k, v) for k, v in m.get("result", {}).items())
    change = m["change"]
    if len(change) > 230: change = change[:227] + "..."
    rows.append("| %s | %s | %s |" % (name, change.replace("|", "\\|"), res.replace("|", "\\|")))
missed = [os.path.basename(d) for d in sorted(glob.glob(os.path.join(V, "seeded", "*"))) if "MISSED at first" in json.dumps(json.load(open(os.path.join(d, "meta.json"))).get("result", {}))]
txt = """<!-- SEEDED-TABLE-BEGIN -->
%d independently seeded changes (sub-agents that saw only the property text and a scratch worktree; round 1 =
free choice, round 2 = a different function and mechanism, round 3 = scale/threshold theme, round 4 = element/key/iterator TYPE and argument-aliasing theme, round 5 = history-dependent / value-corner / less-travelled entry point / narrow interleaving window themes, round 6 = adversarial conjunctions, round 7 = a second adversarial round for fifteen properties after the API audit). Each was confirmed
here in a fresh scratch worktree (compiles; the demonstration passes on the clean tree and fails with the patch;
the existing test programs that exercise the touched code pass with the patch) before it was kept, then the
checks were run against it (`tools/seeded_check.sh`). Initially missed: %s — each miss was a *generator domain*
narrower than the property's quantifier, and was repaired by widening the domain (see the rows), never by
special-casing the seeded change.

| seeded/ | change | caught by |
|---|---|---|
%s
<!-- SEEDED-TABLE-END -->""" % (len(rows), ", ".join(missed) or "none", "\n".join(rows))
p = os.path.join(V, "DESIGN.md")
s = open(p).read()
if "<!-- SEEDED-TABLE-BEGIN -->" in s:
    s = re.sub(r"<!-- SEEDED-TABLE-BEGIN -->.*<!-- SEEDED-TABLE-END -->", lambda _: txt, s, flags=re.S)
else:
    s = s.replace("### 10.6 Limits that remain", "### 10.7 Independently seeded changes\n\n" + txt + "\n\n### 10.6 Limits that remain")
open(p, "w").write(s)
print(len(rows), "rows; missed at first:", missed)
