#!/bin/bash
# seeded_regress.sh [jobs] — run the quick check of every recorded seeded change's own property against it
# (scratch worktrees) and print one line per seed; used after harness changes to see that nothing that was
# detected is lost. Seeds superseded by a later fix (meta.json "superseded_by_fix") are expected to be MISSED.
J=${1:-3}
cd /verif/seeded
ls -d C* | xargs -P $J -I{} bash -c '
  d={}; id=${d%%-*}; r=${d#*-r}; [ "$r" = "$d" ] && r=""
  res=$(ROUND=$r VERIF_WORKERS=${SW:-6} timeout 3000 /verif/tools/seeded_check.sh $id $id 2>&1 | grep -E "DETECTED|MISSED|apply" | head -1 | cut -c1-120)
  sup=$(python3 -c "import json;print(json.load(open(\"/verif/seeded/$d/meta.json\")).get(\"superseded_by_fix\",\"\"))")
  echo "$d ${sup:+[superseded by fix $sup] }$res"'
