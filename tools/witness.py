#!/usr/bin/env python3
"""witness.py <PID> <name> (--revert <commit> | --patch <file>) [--tier quick]

Sensitivity / witness tool: builds a scratch worktree of /repo HEAD, reverts one
fix commit (or applies a patch), runs the check against it and, if the check
reports a violation, copies the shrunk case into corpus/<PID>/ as a regression
witness. The worktree and its build output are removed afterwards.
exit 0 = violation detected (witness stored), 1 = NOT detected."""
import glob, hashlib, os, re, shutil, subprocess, sys
V = os.path.dirname(os.path.dirname(os.path.abspath(__file__)))
a = sys.argv[1:]
pid, name = a[0], a[1]
tier = a[a.index("--tier") + 1] if "--tier" in a else "quick"
store = "--no-store" not in a
wt = "/tmp/vw-%s-%s-%d" % (pid, name, os.getpid())
subprocess.check_call(["git", "-C", "/repo", "worktree", "add", "-q", "--detach", wt, "HEAD"])
try:
    if "--revert" in a:
        for c in a[a.index("--revert") + 1].split(","):
            subprocess.check_call(["git", "-C", wt, "revert", "-n", c])
    if "--patch" in a:
        subprocess.check_call(["git", "-C", wt, "apply", os.path.abspath(a[a.index("--patch") + 1])])
    env = dict(os.environ, VERIF_REPO=wt, VERIF_EVIDENCE="/tmp/vw-ev-%d.json" % os.getpid())
    r = subprocess.run([sys.executable, os.path.join(V, "run.py"), "check", pid, "--tier", tier], env=env,
                       capture_output=True, text=True)
    out = r.stdout + r.stderr
    m = re.search(r"VIOLATION property=\S+ replay=(\S+)", out)
    lab = re.search(r"--- failure (\S+)", out)
    if m:
        src = m.group(1)
        b, t = os.path.basename(src).split(".")[:2]
        print("DETECTED %s label=%s (%s)" % (name, lab.group(1) if lab else "?", src))
        if store:
            d = os.path.join(V, "corpus", pid)
            os.makedirs(d, exist_ok=True)
            shutil.copy(src, os.path.join(d, "%s.%s.%s.case" % (b, t, name)))
        rc = 0
    else:
        print("NOT DETECTED %s rc=%d\n%s" % (name, r.returncode, out[-1500:]))
        rc = 1
finally:
    subprocess.call(["git", "-C", "/repo", "worktree", "remove", "--force", wt])
    tag = "x" + hashlib.sha1(os.path.realpath(wt).encode()).hexdigest()[:6]
    for d in glob.glob(os.path.join(V, "build", "*-%s-*" % tag)):
        shutil.rmtree(d, ignore_errors=True)
    try: os.unlink("/tmp/vw-ev-%d.json" % os.getpid())
    except OSError: pass
sys.exit(rc)
