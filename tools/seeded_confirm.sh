#!/bin/bash
# seeded_confirm.sh <ID> "<extra sources/flags for the demo>" "<ctest test targets>" [demo args]
# Independent confirmation of a seeded change in a fresh scratch worktree of /repo HEAD:
#  demo passes on the clean tree, fails with the patch; named existing test programs build and pass with the patch.
ID=$1; EXTRA=$2; TESTS=$3; DARGS=$4
SUF=${ROUND:+-r$ROUND}
SRC=/tmp/seed/out${ROUND:-}/$ID; [ -f /verif/seeded/$ID$SUF/patch.diff ] && SRC=/verif/seeded/$ID$SUF
W=/tmp/sc/$ID$SUF; rm -rf $W; mkdir -p /tmp/sc
git -C /repo worktree add -q --detach $W HEAD || exit 2
cd $W
g++ -std=c++17 -O1 -g -I. $SRC/demo.cpp $EXTRA -pthread -o demo_clean 2>&1 | grep -E "error" | head -3
timeout 900 ./demo_clean $DARGS > demo_clean.out 2>&1; echo "demo on clean tree: rc=$?"
git apply $SRC/patch.diff || echo "PATCH DOES NOT APPLY"
g++ -std=c++17 -O1 -g -I. $SRC/demo.cpp $EXTRA -pthread -o demo_patched 2>&1 | grep -E "error" | head -3
timeout 900 ./demo_patched $DARGS > demo_patched.out 2>&1; echo "demo with patch: rc=$?"; tail -3 demo_patched.out | cut -c1-200
if [ -n "$TESTS" ]; then
  timeout 1200 cmake -G Ninja -S . -B build -DCMAKE_BUILD_TYPE=RelWithDebInfo -DTLX_BUILD_TESTS=ON -DTLX_MORE_TESTS=ON > /dev/null
  for t in $TESTS; do
    timeout 2400 cmake --build build --target $t -j 8 > build_$t.log 2>&1 || { echo "BUILD FAILED $t"; tail -5 build_$t.log; continue; }
    timeout 3000 build/tests/$t > test_$t.log 2>&1; echo "existing test $t with patch: rc=$?"
  done
fi
cd /; git -C /repo worktree remove --force $W
