// C13 (api, part 2) — target addressable_api, configurations 4..6 (uint8_t / unsigned long long keys, function-pointer
// and closure comparators, arity 64)
#include "C13_api_addr_impl.hpp"

void c13_addr_api_hi(pbt::Source& src, unsigned cfg, size_t U, std::vector<int>& prio, const char* name) {
    g_prio = &prio; // read by the function-pointer comparator (this translation unit's copy)
    const std::vector<int>* pp = &prio;
    switch (cfg) {
    case 4: {
        typedef tlx::DAryAddressableIntHeap<uint8_t, 13, bool (*)(uint8_t, uint8_t)> H;
        history<H>(src, ORD_TABLE, U, prio, [] { return H(&fn_prio_less<uint8_t>); }, 13, name);
        break;
    }
    case 5: {
        auto closure = [pp](unsigned long long a, unsigned long long b) { return (*pp)[(size_t)a] < (*pp)[(size_t)b]; };
        typedef tlx::d_ary_addressable_int_heap<unsigned long long, 9, decltype(closure)> H; // copy/move construction only
        history<H>(src, ORD_TABLE, U, prio, [closure] { return H(closure); }, 9, name);
        break;
    }
    default: {
        typedef tlx::DAryAddressableIntHeap<uint8_t, 64> H;
        history<H>(src, ORD_LESS, U, prio, [] { return H(); }, 64, name);
        break;
    }
    }
}
