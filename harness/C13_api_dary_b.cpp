// C13 (api, part 1) — target dary_api, configurations 4..7 (arity 64, std::string elements, closure comparator)
#include "C13_api_dary_impl.hpp"

namespace {
auto len_less = [](const std::string& a, const std::string& b) { return a.size() < b.size(); };
typedef decltype(len_less) LenLess;
} // namespace

void c13_dary_api_hi(pbt::Source& src, unsigned cfg, const char* name) {
    auto int_less = [](int a, int b) { return a < b; };
    auto str_less = [](int a, int b) { return a < b; }; // first character = 'a' + key
    auto str_greater = [](int a, int b) { return a > b; };
    auto str_len = [](int a, int b) { return StrC::len(a) < StrC::len(b); };
    switch (cfg) {
    case 4: {
        typedef tlx::DAryHeap<int, 64> H;
        history<H, IntC>(src, int_less, [] { return H(); }, 64, name);
        break;
    }
    case 5: {
        typedef tlx::DAryHeap<std::string, 16> H;
        history<H, StrC>(src, str_less, [] { return H(); }, 16, name);
        break;
    }
    case 6: {
        typedef tlx::d_ary_heap<std::string, 2, LenLess> H; // closure type: copy/move construction only
        history<H, StrC>(src, str_len, [] { return H(len_less); }, 2, name);
        break;
    }
    default: {
        typedef tlx::DAryHeap<std::string, 64, std::greater<std::string>> H;
        history<H, StrC>(src, str_greater, [] { return H(); }, 64, name);
        break;
    }
    }
}
