// C07 — instantiation: element type Rec, Stable = true
#include "C07_common.hpp"

namespace c07 {
void run_rec_s(pbt::Source& src, const Cfg& cfg) { run_case<Rec, true>(src, cfg); }
} // namespace c07
