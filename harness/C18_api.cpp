// C18 — StringView vs std::string_view: the rest of the public API, and the per-byte sweep.
#include "C18_common.hpp"

#include <algorithm>
#include <functional>
#include <iomanip>
#include <iterator>
#include <type_traits>
#include <utility>

// ---------------------------------------------------------------------------------------------------------------------
// string_view_api
namespace {

static_assert(std::is_same<tlx::string_view, tlx::StringView>::value, "alias type");
static_assert(SV::npos == STD::npos, "npos");
static_assert(std::is_same<SV::size_type, STD::size_type>::value, "size_type");
static_assert(std::is_same<SV::value_type, STD::value_type>::value, "value_type");
static_assert(std::is_same<SV::difference_type, STD::difference_type>::value, "difference_type");
static_assert(std::is_same<SV::const_reference, STD::const_reference>::value, "const_reference");
static_assert(std::is_same<SV::const_pointer, STD::const_pointer>::value, "const_pointer");
static_assert(std::is_same<SV::iterator, SV::const_iterator>::value, "iterator == const_iterator (as in std)");
static_assert(std::is_same<SV::reverse_iterator, SV::const_reverse_iterator>::value, "reverse_iterator");

//! opt-in (C18_EXTRAS=1): two deviations from std::string_view that lie outside the list of queries in the property
//! statement (see fixes/C18/ostream-width.txt, fixes/C18/max-size.txt): operator<< with a field width, max_size()
bool extras() {
    static const bool on = getenv("C18_EXTRAS") && *getenv("C18_EXTRAS") && *getenv("C18_EXTRAS") != '0';
    return on;
}

//! position of a view relative to the two buffers of a case (slicing histories move views between them)
template <class V>
std::string where(const V& v, const Buf& hb, const Buf& nb) {
    std::string os;
    const char* d = v.data();
    if (d >= hb.data() && d <= hb.data() + hb.n) os = "h+" + std::to_string(d - hb.data());
    else if (d >= nb.data() && d <= nb.data() + nb.n) os = "n+" + std::to_string(d - nb.data());
    else os = d == nullptr ? "null" : "?";
    os += ':';
    os += std::to_string(v.size());
    os += ';';
    return os;
}

//! positions 0 .. len+2 (all of them for short strings, the ends and the middle for long ones)
std::vector<size_t> positions(size_t len) {
    std::vector<size_t> p;
    if (len <= 12) {
        for (size_t x = 0; x <= len + 2; ++x) p.push_back(x);
    } else {
        for (size_t x : {(size_t)0, (size_t)1, (size_t)2, len / 2, len - 2, len - 1, len, len + 1, len + 2}) p.push_back(x);
    }
    return p;
}

template <class V>
void iterate_all(const V& v, Res& r) {
    typedef typename V::const_iterator CI;
    typedef typename V::iterator I;
    typedef typename V::const_reverse_iterator CRI;
    typedef typename V::reverse_iterator RI;
    typedef typename V::size_type SZ;
    typedef typename V::difference_type DF;
    for (I it = v.begin(); it != v.end(); ++it) r.s += *it;
    r.s += '|';
    for (CI it = v.cbegin(); it != v.cend(); ++it) r.s += *it;
    r.s += '|';
    for (RI it = v.rbegin(); it != v.rend(); ++it) r.s += *it;
    r.s += '|';
    for (CRI it = v.crbegin(); it != v.crend(); ++it) r.s += *it;
    r.s += '|';
    for (char ch : v) r.s += ch;
    r.s += '|';
    for (SZ x = 0; x < v.length(); ++x) r.s += v.cbegin()[(DF)x];
    r.s += '|';
    for (SZ x = 0; x < v.size(); ++x) r.s += v.crbegin()[(DF)x];
    r.s += '|';
    r.s.append(std::make_reverse_iterator(v.cend()), std::make_reverse_iterator(v.cbegin()));
    const DF sz = (DF)v.size();
    r.v = (v.cbegin() == v.begin()) + 2 * (v.cend() == v.end()) + 4 * (v.rbegin().base() == v.end()) +
          8 * (v.crbegin() == v.rbegin()) + 16 * (v.crend() == v.rend()) + 32 * (v.end() - v.begin() == sz) +
          64 * (std::distance(v.crbegin(), v.crend()) == sz) + 128 * (v.cend() - v.cbegin() == sz) +
          256 * (v.rend() - v.rbegin() == sz) + 512 * (v.crend().base() == v.cbegin()) +
          1024 * (&*v.begin() == v.data() || v.empty()) + 2048 * (v.begin() == v.data());
}

} // namespace

PBT_PROPERTY(string_view_api) {
    int q = (int)src.range(0, 29);
    const bool longcase = src.weighted({15, 1}) == 1;
    std::string hs = gen_str(src, longcase ? 300 : 10, false);
    std::string ns = gen_str(src, longcase ? 40 : 6, false);
    if (src.range(0, 3) == 1) ns = hs; // equal contents in two different buffers
    if (longcase) pbt::label("long_strings");
    Buf hb(hs), nb(ns), hz(hs, true);
    const SV th(hb.data(), hb.n), tn(nb.data(), nb.n);
    const STD sh(hb.data(), hb.n), sn(nb.data(), nb.n);
    const char c = ns.empty() ? (char)ALPHA[src.range(0, sizeof(ALPHA) - 1)] : ns[0];
    bool special = false;
    for (unsigned char ch : hs + ns) special = special || ch == 0 || ch >= 0x80;
    if (special || hs.empty()) pbt::nontrivial();

    const char* qname = "";
    Res rt, rs;
    switch (q) {
    case 0: QUERY("iterators(all8)+range-for", iterate_all(th, r), iterate_all(sh, r)); break;
    case 1:
        query(qname, rt, rs, "size/length/empty/max_size", [&](Res& r) {
                  r.v = (long long)th.size() * 8 + (th.length() == th.size()) * 4 + th.empty() * 2 + (th.max_size() >= th.size());
                  r.s = std::to_string(th.length());
              }, [&](Res& r) {
                  r.v = (long long)sh.size() * 8 + (sh.length() == sh.size()) * 4 + sh.empty() * 2 + (sh.max_size() >= sh.size());
                  r.s = std::to_string(sh.length());
              });
        if (extras()) {
            // max_size() is "the largest possible number of char-like objects that can be referred to": another view of
            // the same type refers to tn.size() characters, so no view may report less
            PBT_CHECK(th.max_size() >= tn.size(), "C18/api/max_size",
                      "a view of " << th.size() << " bytes reports max_size() " << th.max_size() << " while another view holds "
                                   << tn.size() << " bytes");
        }
        break;
    case 2:
        QUERY("data()", r.v = (long long)(th.data() - hb.data()) + 1000 * (long long)(tn.data() - nb.data()),
              r.v = (long long)(sh.data() - hb.data()) + 1000 * (long long)(sn.data() - nb.data()));
        break;
    case 3:
        query(qname, rt, rs, "ctor()", [&](Res& r) {
                  SV d;
                  r.v = (long long)d.size() * 4 + d.empty() * 2 + (d.data() == nullptr);
                  r.s = d.to_string();
                  r.v = r.v * 2 + (d == SV()) + 100 * (d == th) + 1000 * sgn(d.compare(th)) + 10000 * (long long)d.find(th) % 7;
              }, [&](Res& r) {
                  STD d;
                  r.v = (long long)d.size() * 4 + d.empty() * 2 + (d.data() == nullptr);
                  r.s = std::string(d);
                  r.v = r.v * 2 + (d == STD()) + 100 * (d == sh) + 1000 * sgn(d.compare(sh)) + 10000 * (long long)d.find(sh) % 7;
              });
        break;
    case 4:
        query(qname, rt, rs, "ctor(copy)/operator=", [&](Res& r) {
                  SV a(th);
                  SV b;
                  b = a;
                  SV d = b = tn; // chained
                  b = th;
                  r.s = where(a, hb, nb) + where(b, hb, nb) + where(d, hb, nb);
              }, [&](Res& r) {
                  STD a(sh);
                  STD b;
                  b = a;
                  STD d = b = sn;
                  b = sh;
                  r.s = where(a, hb, nb) + where(b, hb, nb) + where(d, hb, nb);
              });
        break;
    case 5: { // const lvalue, non-const lvalue and rvalue std::string
        const std::string cs = hs;
        std::string ms = hs, rv = hs;
        query(qname, rt, rs, "ctor(string:const&,&,&&)", [&](Res& r) {
                  SV a(cs), b(ms), d(std::move(rv));
                  SV e = cs; // implicit
                  r.v = (a.data() == cs.data()) + 2 * (b.data() == ms.data()) + 4 * (d.data() == rv.data()) + 8 * (rv == hs) +
                        16 * (e.data() == cs.data());
                  r.s = a.to_string() + "|" + b.to_string() + "|" + d.to_string() + "|" + e.to_string() + "|" + SV(std::string(hs)).to_string();
              }, [&](Res& r) {
                  STD a(cs), b(ms), d(std::move(rv));
                  STD e = cs;
                  r.v = (a.data() == cs.data()) + 2 * (b.data() == ms.data()) + 4 * (d.data() == rv.data()) + 8 * (rv == hs) +
                        16 * (e.data() == cs.data());
                  r.s = std::string(a) + "|" + std::string(b) + "|" + std::string(d) + "|" + std::string(e) + "|" + std::string(STD(std::string(hs)));
              });
        break;
    }
    case 6:
        query(qname, rt, rs, "ctor(cstr)", [&](Res& r) {
                  SV a(hz.data());
                  SV b = hz.data(); // implicit
                  r.v = (long long)a.size() * 1000 + (long long)b.size() + 1000000 * (a.data() == hz.data());
                  r.s = a.to_string();
              }, [&](Res& r) {
                  STD a(hz.data());
                  STD b = hz.data();
                  r.v = (long long)a.size() * 1000 + (long long)b.size() + 1000000 * (a.data() == hz.data());
                  r.s = std::string(a);
              });
        break;
    case 7: { // (const char*, const char*), (const char*, n)
        size_t b = (size_t)src.range(0, (int64_t)hs.size()), e = b + (size_t)src.range(0, (int64_t)(hs.size() - b));
        query(qname, rt, rs, "ctor(ptr,ptr)/(ptr,n)", [&](Res& r) {
                  SV a(hb.data() + b, hb.data() + e), d(hb.data() + b, e - b);
                  SV::const_iterator ib = th.begin() + (SV::difference_type)b, ie = th.begin() + (SV::difference_type)e;
                  SV f(ib, ie);
                  r.s = where(a, hb, nb) + where(d, hb, nb) + where(f, hb, nb) + a.to_string();
              }, [&](Res& r) {
                  STD a(hb.data() + b, hb.data() + e), d(hb.data() + b, e - b);
                  STD::const_iterator ib = sh.begin() + (STD::difference_type)b, ie = sh.begin() + (STD::difference_type)e;
                  STD f(ib, ie);
                  r.s = where(a, hb, nb) + where(d, hb, nb) + where(f, hb, nb) + std::string(a);
              });
        break;
    }
    case 8: { // std::string iterators: (const_iterator, n), (const_iterator, const_iterator), (iterator, iterator)
        std::string str = hs;
        const std::string& cstr = str;
        size_t b = (size_t)src.range(0, (int64_t)hs.size()), e = b + (size_t)src.range(0, (int64_t)(hs.size() - b));
        typedef std::string::difference_type D;
        query(qname, rt, rs, "ctor(string::const_iterator-forms)", [&](Res& r) {
                  SV a(cstr.begin() + (D)b, e - b), d(cstr.begin() + (D)b, cstr.begin() + (D)e), f(str.begin() + (D)b, str.begin() + (D)e);
                  SV g(cstr.cbegin(), cstr.cend());
                  r.v = (long long)(a.data() - str.data()) + 1000 * (long long)(d.data() - str.data()) + 1000000 * (long long)(f.data() - str.data());
                  r.s = a.to_string() + "|" + d.to_string() + "|" + f.to_string() + "|" + g.to_string();
              }, [&](Res& r) {
                  STD a(cstr.data() + b, e - b), d(cstr.begin() + (D)b, cstr.begin() + (D)e), f(str.begin() + (D)b, str.begin() + (D)e);
                  STD g(cstr.cbegin(), cstr.cend());
                  r.v = (long long)(a.data() - str.data()) + 1000 * (long long)(d.data() - str.data()) + 1000000 * (long long)(f.data() - str.data());
                  r.s = std::string(a) + "|" + std::string(d) + "|" + std::string(f) + "|" + std::string(g);
              });
        break;
    }
    case 9: { // std::string_view -> StringView (implicit) -> std::string_view (implicit)
        SV a = sh;
        STD back = a;
        STD viaarg = [](STD x) { return x; }(th);
        SV viaarg2 = [](SV x) { return x; }(sh);
        qname = "std::string_view<->StringView";
        pbt::label(qname);
        PBT_CHECK(a.data() == sh.data() && a.size() == sh.size() && back.data() == sh.data() && back.size() == sh.size() &&
                      viaarg.data() == th.data() && viaarg.size() == th.size() && viaarg2.data() == sh.data() && viaarg2.size() == sh.size() &&
                      STD(SV()).size() == 0 && SV(STD()).size() == 0,
                  "C18/api/std::string_view<->StringView", "hay=" << pbt::show_bytes(hs) << ": round trip changed data()/size(): " << a.size() << " " << back.size());
        return;
    }
    case 10:
        query(qname, rt, rs, "to_string/explicit-std::string", [&](Res& r) {
                  std::string a = th.to_string(), b(th), d = static_cast<std::string>(th), e = std::string(th.begin(), th.end());
                  std::string f{th};
                  r.s = a + "|" + b + "|" + d + "|" + e + "|" + f;
                  r.v = (long long)a.size();
              }, [&](Res& r) {
                  std::string a(sh), b(sh), d = static_cast<std::string>(sh), e = std::string(sh.begin(), sh.end());
                  std::string f{sh};
                  r.s = a + "|" + b + "|" + d + "|" + e + "|" + f;
                  r.v = (long long)a.size();
              });
        break;
    case 11: { // operator<<; with a field width only under C18_EXTRAS (see fixes/C18/ostream-width.txt)
        int w = 0, adj = 0;
        char fill = ' ';
        if (extras()) w = (int)src.range(0, (int64_t)hs.size() + 3), adj = (int)src.range(0, 2), fill = src.boolean() ? '*' : ' ';
        auto run = [&](auto hv, auto nv, Res& r) {
            std::ostringstream os;
            if (adj == 1) os << std::left;
            if (adj == 2) os << std::right;
            os << std::setfill(fill) << std::setw(w) << hv << '|' << nv << '|' << 7 << hv;
            r.s = os.str();
            r.v = (long long)os.width() * 2 + os.good();
        };
        QUERY("operator<<", run(th, tn, r), run(sh, sn, r));
        if (w > (int)hs.size()) pbt::label("operator<<padded");
        break;
    }
    case 12: { // std::hash: equal contents (in different buffers) => equal hash; usable as unordered key
        Buf h2(hs);
        const SV t2(h2.data(), h2.n);
        std::hash<SV> H;
        qname = "std::hash";
        pbt::label(qname);
        PBT_CHECK(H(th) == H(t2), "C18/api/hash-equal-contents", "hay=" << pbt::show_bytes(hs) << ": two views of equal bytes hash to " << H(th) << " and " << H(t2));
        if (hs == ns) PBT_CHECK(H(th) == H(tn), "C18/api/hash-equal-contents", "hay=" << pbt::show_bytes(hs) << ": equal views hash differently");
        PBT_CHECK(H(th) == H(th), "C18/api/hash-equal-contents", "hash not a function");
        return;
    }
    case 13: { // histories of slicing operations on two views
        qname = "slicing-history";
        SV a = th, b = tn;
        STD x = sh, y = sn;
        std::string log;
        int steps = 0;
        while (src.more() && steps < 12) {
            ++steps;
            int op = (int)src.range(0, 6);
            bool tt = false, st = false;
            switch (op) {
            case 0: { size_t k = (size_t)src.range(0, (int64_t)x.size()); a.remove_prefix(k), x.remove_prefix(k); log += "rp "; break; }
            case 1: { size_t k = (size_t)src.range(0, (int64_t)x.size()); a.remove_suffix(k), x.remove_suffix(k); log += "rs "; break; }
            case 2: {
                size_t p = gen_pos(src, x.size()), k = gen_pos(src, x.size());
                try { a = a.substr(p, k); } catch (const std::out_of_range&) { tt = true; }
                try { x = x.substr(p, k); } catch (const std::out_of_range&) { st = true; }
                log += "substr ";
                break;
            }
            case 3: {
                size_t p = gen_pos(src, x.size());
                try { a = a.substr(p); } catch (const std::out_of_range&) { tt = true; }
                try { x = x.substr(p); } catch (const std::out_of_range&) { st = true; }
                log += "substr1 ";
                break;
            }
            case 4: a.swap(b), x.swap(y); log += "swap "; break;
            case 5: { using std::swap; swap(a, b), swap(x, y); log += "adl-swap "; break; }
            default: b = a, y = x; log += "assign "; break;
            }
            PBT_LOG(log << "\n");
            PBT_CHECK(tt == st && where(a, hb, nb) == where(x, hb, nb) && where(b, hb, nb) == where(y, hb, nb) &&
                          a.to_string() == std::string(x) && a.length() == x.length() && a.empty() == x.empty(),
                      "C18/api/slicing-history",
                      "hay=" << pbt::show_bytes(hs) << " needle=" << pbt::show_bytes(ns) << " after [" << log << "]: tlx " << (tt ? "throws " : "")
                             << where(a, hb, nb) << where(b, hb, nb) << " but std " << (st ? "throws " : "") << where(x, hb, nb) << where(y, hb, nb));
        }
        pbt::label(qname);
        if (steps >= 4) pbt::label("slicing-history>=4steps");
        return;
    }
    case 14:
        query(qname, rt, rs, "at/[]/front/back/data[]-every-index", [&](Res& r) {
                  for (size_t x = 0; x < th.size(); ++x) r.s += th[x], r.s += th.at(x), r.s += th.data()[x];
                  if (!th.empty()) r.s += th.front(), r.s += th.back();
                  for (size_t bad : {th.size(), th.size() + 1, npos, npos - 1, (size_t)1 << 63})
                      try { r.s += th.at(bad); r.s += "?"; } catch (const std::out_of_range&) { r.s += "!"; }
              }, [&](Res& r) {
                  for (size_t x = 0; x < sh.size(); ++x) r.s += sh[x], r.s += sh.at(x), r.s += sh.data()[x];
                  if (!sh.empty()) r.s += sh.front(), r.s += sh.back();
                  for (size_t bad : {sh.size(), sh.size() + 1, npos, npos - 1, (size_t)1 << 63})
                      try { r.s += sh.at(bad); r.s += "?"; } catch (const std::out_of_range&) { r.s += "!"; }
              });
        break;
    case 15: { // copy over every (pos, n): exact-size destinations
        auto run = [&](auto v, Res& r) {
            for (size_t p : positions(hs.size()))
                for (size_t k : {(size_t)0, (size_t)1, hs.size() / 2, hs.size(), hs.size() + 1, npos}) {
                    size_t room = p <= hs.size() ? std::min(k, hs.size() - p) : 0;
                    std::unique_ptr<char[]> d(new char[room + 1]);
                    memset(d.get(), '#', room + 1);
                    try { r.s += std::to_string(v.copy(d.get(), k, p)); } catch (const std::out_of_range&) { r.s += "!"; }
                    r.s.append(d.get(), room + 1);
                }
        };
        QUERY("copy-every(pos,n)", run(th, r), run(sh, r));
        break;
    }
    case 16: { // substr over every (pos, n)
        auto run = [&](auto v, Res& r) {
            for (size_t p : positions(hs.size()))
                for (size_t k : positions(hs.size())) {
                    size_t kk = k == hs.size() + 2 ? npos : k;
                    try { auto x = v.substr(p, kk); r.s += where(x, hb, nb); } catch (const std::out_of_range&) { r.s += "!"; }
                }
        };
        QUERY("substr-every(pos,n)", run(th, r), run(sh, r));
        break;
    }
    case 17: { // the three swaps between views of different buffers
        query(qname, rt, rs, "swap-member/std/ADL", [&](Res& r) {
                  SV a = th, b = tn;
                  a.swap(b);
                  r.s = where(a, hb, nb) + where(b, hb, nb);
                  std::swap(a, b);
                  r.s += where(a, hb, nb) + where(b, hb, nb);
                  using std::swap;
                  swap(a, b);
                  r.s += where(a, hb, nb) + where(b, hb, nb);
                  SV e;
                  e.swap(a);
                  r.s += where(a, hb, nb) + where(e, hb, nb);
              }, [&](Res& r) {
                  STD a = sh, b = sn;
                  a.swap(b);
                  r.s = where(a, hb, nb) + where(b, hb, nb);
                  std::swap(a, b);
                  r.s += where(a, hb, nb) + where(b, hb, nb);
                  using std::swap;
                  swap(a, b);
                  r.s += where(a, hb, nb) + where(b, hb, nb);
                  STD e;
                  e.swap(a);
                  r.s += where(a, hb, nb) + where(e, hb, nb);
              });
        break;
    }
        // default position of the (char) and (C-string) forms
#define DFIND(BASE, FN)                                                                                            \
    case BASE: QUERY(#FN "(char)", r.v = (long long)th.FN(c), r.v = (long long)sh.FN(c)); break;                   \
    case BASE + 1: {                                                                                               \
        Buf nz(ns, true);                                                                                          \
        QUERY(#FN "(cstr)", r.v = (long long)th.FN(nz.data()), r.v = (long long)sh.FN(nz.data()));                 \
        break;                                                                                                     \
    }
        DFIND(18, find)
        DFIND(20, rfind)
        DFIND(22, find_first_of)
        DFIND(24, find_last_of)
        DFIND(26, find_first_not_of)
        DFIND(28, find_last_not_of)
    default: break;
    }
    pbt::label(qname);
    PBT_LOG("hay=" << pbt::show_bytes(hs) << " needle=" << pbt::show_bytes(ns) << " query=" << qname << " -> tlx: " << rt << " | std: " << rs << "\n");
    PBT_CHECK(rt == rs, std::string("C18/api/") + qname,
              "hay=" << pbt::show_bytes(hs) << " needle=" << pbt::show_bytes(ns) << " c=" << (int)(unsigned char)c << ": tlx " << rt
                     << " but std::string_view " << rs);
}

// ---------------------------------------------------------------------------------------------------------------------
// string_view_byte_sweep: chunk = 16 values of the view byte x all 256 argument bytes
PBT_PROPERTY(string_view_byte_sweep) {
    const uint64_t chunk = src.bits(8), nchunks = src.bits(8);
    uint64_t evals = 0;
    for (unsigned a = 0; a < 256; ++a) {
        if (nchunks && a % nchunks != chunk) continue;
        for (unsigned b = 0; b < 256; ++b) {
            // views: "a", "ab", "ba", "" ; argument byte b (as char, as one-byte view, as one-byte C string when b != 0)
            const char ca = (char)a, cb = (char)b;
            const std::string s1(1, ca), s2 = s1 + cb, s3 = std::string(1, cb) + ca, s4 = s1 + s1 + cb;
            Buf b1(s1), b2(s2), b3(s3), b4(s4), bb(std::string(1, cb)), bz(std::string(1, cb), true);
            const Buf* H[4] = {&b1, &b2, &b3, &b4};
            for (int h = 0; h < 4; ++h) {
                const SV t(H[h]->data(), H[h]->n), tb(bb.data(), 1);
                const STD s(H[h]->data(), H[h]->n), sb(bb.data(), 1);
                long long vt[40], vs[40];
                int k = 0;
#define BOTH(TE, SE) vt[k] = (long long)(TE), vs[k] = (long long)(SE), ++k
                BOTH(t.starts_with(cb), s.starts_with(cb));
                BOTH(t.ends_with(cb), s.ends_with(cb));
                BOTH(t.find(cb), s.find(cb));
                BOTH(t.rfind(cb), s.rfind(cb));
                BOTH(t.find_first_of(cb), s.find_first_of(cb));
                BOTH(t.find_last_of(cb), s.find_last_of(cb));
                BOTH(t.find_first_not_of(cb), s.find_first_not_of(cb));
                BOTH(t.find_last_not_of(cb), s.find_last_not_of(cb));
                BOTH(t.find(cb, 1), s.find(cb, 1));
                BOTH(t.rfind(cb, 0), s.rfind(cb, 0));
                BOTH(t.find_first_not_of(cb, 1), s.find_first_not_of(cb, 1));
                BOTH(t.find_last_not_of(cb, 0), s.find_last_not_of(cb, 0));
                BOTH(t.starts_with(tb), s.starts_with(sb));
                BOTH(t.ends_with(tb), s.ends_with(sb));
                BOTH(t.find(tb), s.find(sb));
                BOTH(t.rfind(tb), s.rfind(sb));
                BOTH(t.find_first_of(tb), s.find_first_of(sb));
                BOTH(t.find_last_of(tb), s.find_last_of(sb));
                BOTH(t.find_first_not_of(tb), s.find_first_not_of(sb));
                BOTH(t.find_last_not_of(tb), s.find_last_not_of(sb));
                BOTH(sgn(t.compare(tb)), sgn(s.compare(sb)));
                BOTH(sgn(tb.compare(t)), sgn(sb.compare(s)));
                BOTH(t == tb, s == sb);
                BOTH(t != tb, s != sb);
                BOTH(t < tb, s < sb);
                BOTH(t <= tb, s <= sb);
                BOTH(t > tb, s > sb);
                BOTH(t >= tb, s >= sb);
                BOTH(sgn(t.compare(bz.data())), sgn(s.compare(bz.data())));
                BOTH(t == bz.data(), s == bz.data());
                BOTH(t < bz.data(), s < bz.data());
                BOTH(bz.data() < t, bz.data() < s);
                BOTH(t.find(bz.data()), s.find(bz.data()));
                BOTH(t.find_first_of(bz.data()), s.find_first_of(bz.data()));
                BOTH(t.find_last_not_of(bz.data()), s.find_last_not_of(bz.data()));
                BOTH((unsigned char)t.front() * 256 + (unsigned char)t.back(), (unsigned char)s.front() * 256 + (unsigned char)s.back());
                BOTH((unsigned char)t.at(0) * 256 + (unsigned char)t[t.size() - 1], (unsigned char)s.at(0) * 256 + (unsigned char)s[s.size() - 1]);
                BOTH(std::hash<SV>()(t) == std::hash<SV>()(SV(H[h]->data(), H[h]->n)), 1);
#undef BOTH
                evals += (uint64_t)k;
                for (int x = 0; x < k; ++x)
                    if (vt[x] != vs[x]) {
                        pbt::count(evals);
                        PBT_CHECK(false, "C18/byte-sweep",
                                  "view=" << pbt::show_bytes(std::string(H[h]->data(), H[h]->n)) << " argument byte=" << b << " query #" << x
                                          << ": tlx " << vt[x] << " but std::string_view " << vs[x]);
                    }
            }
        }
    }
    pbt::count(evals);
    pbt::nontrivial();
    pbt::label("byte_sweep_chunk");
}
