// C17 (part 2) — type-erased wrapper around tlx::SplayTree<Key, Compare, Duplicates, CountingAllocator<Key>> so that the
// history in C17_splay.cpp is compiled once.  Besides forwarding, the wrapper offers an *independent* structural
// walk from the private root_ (read through the explicit-instantiation access idiom — no tlx source change).
#pragma once
#include "../engine/pbt.hpp"
#include "../engine/tracked.hpp"

#include <functional>
#include <set>
#include <string>
#include <vector>

#include <tlx/container/splay_tree.hpp>

namespace c17 {

inline int kval(int x) { return x; }
inline int kval(const verif::Tracked& t) { return t.value(); }

// ---- access to SplayTree::root_ (explicit instantiations may name private members)
template <class Tree>
struct RootTag {
    typedef typename Tree::Node* Tree::*type;
#if defined(__GNUC__) && !defined(__clang__)
#pragma GCC diagnostic push
#pragma GCC diagnostic ignored "-Wnon-template-friend"
#endif
    friend type get_root_ptr(RootTag);
#if defined(__GNUC__) && !defined(__clang__)
#pragma GCC diagnostic pop
#endif
};
template <class Tag, typename Tag::type M>
struct Rob {
    friend typename Tag::type get_root_ptr(Tag) { return M; }
};

struct Walk {
    std::vector<int> inorder;
    std::set<const void*> nodes;
    size_t max_depth = 0;      // longest root-to-node path seen (number of nodes on it)
    size_t max_left_depth = 0; // largest number of pending (left-descended) ancestors = explicit stack height
    std::string err; // empty = structure is a finite binary tree of distinct, allocated nodes
};

struct ISplay {
    virtual ~ISplay() {}
    virtual bool insert(int k) = 0;
    virtual bool erase(int k) = 0;
    //! find(k); 0 = nullptr returned, 1 = a node (key and address out)
    virtual int find(int k, int* key, const void** node) = 0;
    //! n = find(k); if (n) erase(n): -1 = find returned nullptr, else the bool result; *key = key of the node passed
    virtual int erase_node(int k, int* key) = 0;
    virtual bool exists(int k) = 0;
    virtual size_t size() = 0;
    virtual bool empty() = 0;
    virtual void clear() = 0;
    virtual bool check() = 0;
    virtual void traverse(std::vector<int>& out) = 0;
    virtual void walk(Walk& w, size_t limit) = 0;
};

template <class Key, class Cmp, bool Dup>
struct SplayImpl : ISplay {
    typedef tlx::SplayTree<Key, Cmp, Dup, verif::CountingAllocator<Key>> Tree;
    typedef typename Tree::Node Node;
    Tree t;
    bool insert(int k) override { return t.insert(Key(k)); }
    bool erase(int k) override { return t.erase(Key(k)); }
    int find(int k, int* key, const void** node) override {
        Node* n = t.find(Key(k));
        *node = n;
        if (!n) return 0;
        *key = kval(n->key);
        return 1;
    }
    int erase_node(int k, int* key) override {
        const Node* n = t.find(Key(k));
        if (!n) return -1;
        *key = kval(n->key);
        return t.erase(n) ? 1 : 0;
    }
    bool exists(int k) override { return t.exists(Key(k)); }
    size_t size() override { return static_cast<const Tree&>(t).size(); }
    bool empty() override { return static_cast<const Tree&>(t).empty(); }
    void clear() override { t.clear(); }
    bool check() override { return static_cast<const Tree&>(t).check(); }
    void traverse(std::vector<int>& out) override {
        static_cast<const Tree&>(t).traverse_preorder([&out](const Key& k) { out.push_back(kval(k)); });
    }
    void walk(Walk& w, size_t limit) override {
        const Node* root = t.*get_root_ptr(RootTag<Tree>());
        // iterative in-order walk with an explicit stack; stops at `limit` nodes (cycle / sharing guard)
        std::vector<const Node*> stack;
        std::vector<size_t> depth; // depth of the nodes on the stack
        size_t cur_depth = 1;      // depth of `cur`
        const Node* cur = root;
        while (cur || !stack.empty()) {
            while (cur) {
                if (!w.nodes.insert(cur).second) {
                    w.err = "a node is reachable twice (shared subtree or cycle)";
                    return;
                }
                if (w.nodes.size() > limit) {
                    w.err = "more nodes reachable than size()";
                    return;
                }
                {
                    verif::AllocLedger& l = verif::AllocLedger::get();
                    std::lock_guard<std::mutex> g(l.m);
                    if (!l.live.count(cur)) {
                        w.err = "a reachable node is not a live allocation (dangling pointer)";
                        return;
                    }
                }
                stack.push_back(cur);
                depth.push_back(cur_depth);
                if (cur_depth > w.max_depth) w.max_depth = cur_depth;
                if (stack.size() > w.max_left_depth) w.max_left_depth = stack.size();
                cur = cur->left;
                ++cur_depth;
            }
            cur = stack.back();
            stack.pop_back();
            cur_depth = depth.back() + 1;
            depth.pop_back();
            w.inorder.push_back(kval(cur->key));
            cur = cur->right;
        }
    }
};

#define C17_ROB(KEY, CMP, DUP) \
    template struct Rob<RootTag<tlx::SplayTree<KEY, CMP<KEY>, DUP, verif::CountingAllocator<KEY>>>, &tlx::SplayTree<KEY, CMP<KEY>, DUP, verif::CountingAllocator<KEY>>::root_>;

//! kind bits: 1 = duplicates, 2 = std::greater, 4 = Tracked keys
ISplay* make_splay_int(unsigned kind);
ISplay* make_splay_tracked(unsigned kind);

} // namespace c17
