// C19 / helpers — replace_first/all, trim family, starts/ends-with (+icase), contains, to_lower/upper, compare_icase,
// erase_all, pad, levenshtein(_icase): every overload against a direct implementation of the documented definition.
#include "C19_common.hpp"

#include <algorithm>

#include <tlx/string/compare_icase.hpp>
#include <tlx/string/contains.hpp>
#include <tlx/string/ends_with.hpp>
#include <tlx/string/erase_all.hpp>
#include <tlx/string/levenshtein.hpp>
#include <tlx/string/pad.hpp>
#include <tlx/string/replace.hpp>
#include <tlx/string/starts_with.hpp>
#include <tlx/string/to_lower.hpp>
#include <tlx/string/to_upper.hpp>
#include <tlx/string/trim.hpp>

using namespace c19;

namespace {
const size_t npos = std::string::npos;
typedef tlx::string_view SV;
} // namespace

// shared with C19_icase.cpp (declared in C19_common.hpp)
namespace c19 {

// letters of both cases, the ASCII neighbours of the letter ranges, whitespace, NUL, bytes >= 0x80 (0xC1 / 0xE1 are
// 'A' / 'a' + 0x80: a locale-dependent or sign-confused case conversion would touch them)
extern const std::string ALPHA;
const std::string ALPHA = std::string("aAbBzZ@[`{ \t\n\r") + '\0' + (char)0x80 + (char)0xC1 + (char)0xE1 + (char)0xFF;

// ---- reference definitions ---------------------------------------------------------------------------------
unsigned char ref_lower(unsigned char c) { return c >= 'A' && c <= 'Z' ? (unsigned char)(c - 'A' + 'a') : c; }
unsigned char ref_upper(unsigned char c) { return c >= 'a' && c <= 'z' ? (unsigned char)(c - 'a' + 'A') : c; }
std::string ref_lower(std::string s) {
    for (char& c : s) c = (char)ref_lower((unsigned char)c);
    return s;
}
std::string ref_upper(std::string s) {
    for (char& c : s) c = (char)ref_upper((unsigned char)c);
    return s;
}
//! strcmp on lower-cased copies: bytes compare as unsigned char, a proper prefix is smaller
int ref_compare_icase(const std::string& a, const std::string& b) {
    size_t n = std::min(a.size(), b.size());
    for (size_t i = 0; i < n; ++i) {
        unsigned char x = ref_lower((unsigned char)a[i]), y = ref_lower((unsigned char)b[i]);
        if (x != y) return x < y ? -1 : +1;
    }
    return a.size() == b.size() ? 0 : a.size() < b.size() ? -1 : +1;
}
int sgn(int x) { return x < 0 ? -1 : x > 0 ? 1 : 0; }
std::string ref_replace(const std::string& str, const std::string& needle, const std::string& instead, bool all) {
    std::string out;
    size_t pos = 0;
    bool done = false;
    while (pos < str.size()) {
        if (!done && contains_at(str, pos, needle)) {
            out += instead;
            pos += needle.size();
            if (!all) done = true;
        } else out += str[pos++];
    }
    return out;
}
std::string ref_trim(const std::string& s, const std::string& drop, bool left, bool right) {
    size_t b = 0, e = s.size();
    if (left)
        while (b < e && drop.find(s[b]) != npos) ++b;
    if (right)
        while (e > b && drop.find(s[e - 1]) != npos) --e;
    return s.substr(b, e - b);
}
//! Wagner-Fischer over the full (|a|+1) x (|b|+1) matrix
size_t ref_levenshtein(const std::string& a, const std::string& b, bool icase) {
    const size_t w = b.size() + 1;
    std::vector<uint32_t> d((a.size() + 1) * w, 0);
    for (size_t i = 0; i <= a.size(); ++i) d[i * w] = (uint32_t)i;
    for (size_t j = 0; j <= b.size(); ++j) d[j] = (uint32_t)j;
    for (size_t i = 1; i <= a.size(); ++i)
        for (size_t j = 1; j <= b.size(); ++j) {
            bool eq = icase ? ref_lower((unsigned char)a[i - 1]) == ref_lower((unsigned char)b[j - 1]) : a[i - 1] == b[j - 1];
            d[i * w + j] = std::min(std::min(d[(i - 1) * w + j] + 1, d[i * w + j - 1] + 1), d[(i - 1) * w + j - 1] + (eq ? 0 : 1));
        }
    return d[a.size() * w + b.size()];
}

std::string flip_case(std::string s, pbt::Source& src) {
    if (long_mode()) { // flip every letter / one letter in 2..256 (positions from a drawn seed)
        size_t rate = (size_t)1 << src.range(0, 8);
        Rng rng(src.bits(4));
        for (char& c : s)
            if (rng.one_in(rate)) {
                unsigned char u = (unsigned char)c;
                c = (char)(ref_lower(u) != u ? ref_lower(u) : ref_upper(u));
            }
        return s;
    }
    for (char& c : s)
        if (src.boolean()) {
            unsigned char u = (unsigned char)c;
            c = (char)(ref_lower(u) != u ? ref_lower(u) : ref_upper(u));
        }
    return s;
}

//! *_long targets: the same relations at scale (long substrings / prefixes / suffixes, a handful of edits at positions
//! expanded from a seed, an unrelated short or long string). `cap` bounds the length of unrelated strings.
std::string gen_related_long(pbt::Source& src, const std::string& hay, const std::string& alphabet, size_t maxlen, size_t cap) {
    switch (src.range(0, 9)) {
    case 1: { // substring of any length
        size_t b = src.index(hay.size() + 1);
        size_t n = src.boolean() ? (size_t)src.range(0, 4) : src.index(hay.size() - b + 1);
        return hay.substr(b, n);
    }
    case 2: return hay;
    case 3: { // one byte changed
        std::string s = hay;
        if (!s.empty()) s[src.index(s.size())] = alphabet[src.index(alphabet.size())];
        return s;
    }
    case 4: return flip_case(hay, src);
    case 5: { // suffix, possibly with flipped case
        size_t b = src.boolean() ? src.index(hay.size() + 1) : std::min(hay.size(), (size_t)src.range(0, 3));
        return flip_case(hay.substr(b), src);
    }
    case 6: { // prefix / extension
        if (src.boolean()) return hay.substr(0, src.boolean() ? src.index(hay.size() + 1) : hay.size() - std::min(hay.size(), (size_t)src.range(0, 3)));
        return hay + gen_over(src, alphabet, 2);
    }
    case 7: { // 1..8 edits (insert / delete / replace) at arbitrary positions, sometimes with flipped case as well
        std::string s = hay;
        size_t edits = 1 + (size_t)src.range(0, 7);
        bool flip = src.chance(64);
        Rng rng(src.bits(4));
        for (size_t e = 0; e < edits; ++e) {
            size_t p = rng.below(s.size() + 1);
            char c = alphabet[rng.below(alphabet.size())];
            switch (rng.below(3)) {
            case 0: s.insert(p, 1, c); break;
            case 1: if (p < s.size()) s.erase(p, 1); break;
            default: if (p < s.size()) s[p] = c; break;
            }
        }
        return flip ? flip_case(s, src) : s;
    }
    case 8: return gen_long(src, alphabet, cap); // unrelated long string
    case 9: { // both ends changed
        std::string s = hay;
        if (!s.empty()) s[0] = alphabet[src.index(alphabet.size())], s[s.size() - 1] = alphabet[src.index(alphabet.size())];
        return s;
    }
    default: return gen_over(src, alphabet, maxlen);
    }
}

//! a second string related to the first (so that matches, prefixes, near-misses are common)
std::string gen_related(pbt::Source& src, const std::string& hay, const std::string& alphabet, size_t maxlen, size_t cap) {
    if (long_mode()) return gen_related_long(src, hay, alphabet, maxlen, cap);
    switch (src.range(0, 6)) {
    case 1: // substring
        if (!hay.empty()) {
            size_t b = src.index(hay.size() + 1);
            return hay.substr(b, (size_t)src.range(0, 4));
        }
        return std::string();
    case 2: return hay;
    case 3: { // one byte changed
        std::string s = hay;
        if (!s.empty()) s[src.index(s.size())] = alphabet[src.index(alphabet.size())];
        return s;
    }
    case 4: return flip_case(hay, src);
    case 5: { // suffix, possibly with flipped case
        size_t b = src.index(hay.size() + 1);
        return flip_case(hay.substr(b), src);
    }
    case 6: { // prefix / extension
        if (src.boolean()) return hay.substr(0, src.index(hay.size() + 1));
        return hay + gen_over(src, alphabet, 2);
    }
    default: return gen_over(src, alphabet, maxlen);
    }
}

} // namespace c19

namespace {

#define HCHECK(cond, lab, msg) PBT_CHECK(cond, lab, msg)

//! overload labels that the *_long targets leave out (the histogram holds at most ~90 labels per target; the overloads are
//! selected by the same draw as in the original target)
void detail_label(const char* l) {
    if (!long_mode()) pbt::label(l);
}

} // namespace

void c19_helpers(pbt::Source& src) {
    int fn = (int)src.range(0, 13);
    int ov = (int)src.range(0, 8); // overload selector (meaning depends on fn)
    switch (fn) {
    case 0:
    case 1: { // ---- replace_first / replace_all ----
        bool all = fn == 1;
        const std::string A = src.boolean() ? std::string("aab") : std::string("abc") + '\0' + (char)0x80;
        std::string str = gen_main(src, A, 12, 5000, (ov & 1) ? HUGE_OK : HUGE_NO);
        bool chars = (ov & 1) != 0, inplace = (ov & 2) != 0;
        bool long_needle = long_mode() && src.chance(64); // *_long: needles of any length (else cut to 3 as before)
        std::string needle, instead;
        if (chars) needle = std::string(1, A[src.index(A.size())]), instead = std::string(1, (std::string("xab") + '\0')[src.index(4)]);
        else {
            static const char* const SELF_OVERLAPPING[] = {"aa", "aba", "aaa", "abab"};
            needle = src.chance(64) ? std::string(SELF_OVERLAPPING[src.range(0, 3)]) : gen_related(src, str, "ab", 3);
            if (needle.size() > 4 && !long_needle) needle.resize(3);
            if (needle.empty()) needle = "a"; // documented for a needle that can be searched for; empty needle excluded
            instead = gen_aux(src, "abx", 4);
            if (src.chance(64)) instead = needle + instead; // replacement that contains the needle again
        }
        size_t occ = 0, overlapping = 0, prev = npos;
        for (size_t p = 0; p + needle.size() <= str.size(); ++p)
            if (contains_at(str, p, needle)) {
                ++occ;
                if (prev != npos && p < prev + needle.size()) ++overlapping;
                prev = p;
            }
        if (long_mode()) {
            if (occ * instead.size() > 300000) instead.resize(300000 / occ); // bounds the (quadratic) in-place splice work
            if (occ >= 255) pbt::label("replace:>=255-occurrences");
            if (needle.size() > 4 || instead.size() > 8) pbt::label("replace:long-needle-or-replacement");
        }
        std::string want = ref_replace(str, needle, instead, all);
        pbt::label(all ? "fn:replace_all" : "fn:replace_first");
        static const char* const OL[4] = {"replace:copy,string", "replace:copy,char", "replace:in-place,string", "replace:in-place,char"};
        pbt::label(OL[ov & 3]);
        if (occ == 0) pbt::label("replace:no-occurrence");
        if (occ > 1) pbt::label("replace:several-occurrences");
        if (overlapping) pbt::label("replace:overlapping-occurrences");
        if (instead.find(needle) != npos) pbt::label("replace:replacement-contains-needle");
        if (instead.size() != needle.size() && occ) pbt::label("replace:length-changes");
        if (occ > 1 || overlapping || (occ && instead.find(needle) != npos)) pbt::nontrivial();
        PBT_LOG((all ? "replace_all(" : "replace_first(") << show(str) << ", " << show(needle) << ", " << show(instead) << ") [" << OL[ov & 3]
                                                          << "]\n");
        Buf sb(str), nb(needle), ib(instead);
        std::string got;
        if (inplace) {
            std::string work = str;
            std::string& r = chars ? (all ? tlx::replace_all(&work, needle[0], instead[0]) : tlx::replace_first(&work, needle[0], instead[0]))
                                   : (all ? tlx::replace_all(&work, nb.view(), ib.view()) : tlx::replace_first(&work, nb.view(), ib.view()));
            HCHECK(&r == &work, "C19/replace", "in-place replace does not return its argument");
            got = work;
        } else {
            got = chars ? (all ? tlx::replace_all(sb.view(), needle[0], instead[0]) : tlx::replace_first(sb.view(), needle[0], instead[0]))
                        : (all ? tlx::replace_all(sb.view(), nb.view(), ib.view()) : tlx::replace_first(sb.view(), nb.view(), ib.view()));
        }
        HCHECK(got == want, all ? "C19/replace_all" : "C19/replace_first",
               (all ? "replace_all(" : "replace_first(") << show(str) << ", " << show(needle) << ", " << show(instead) << ") [" << OL[ov & 3]
                                                         << "] = " << show(got) << ", definition gives " << show(want));
        break;
    }
    case 2:
    case 3:
    case 4: { // ---- trim / trim_left / trim_right ----
        bool left = fn != 4, right = fn != 3;
        int form = ov % 3;                      // 0 std::string*, 1 string_view*, 2 string_view by value
        int dropkind = (int)src.range(0, 2);    // 0 default, 1 string, 2 char
        const std::string A = std::string(" \t\n\rab") + '\0' + (char)0xFF;
        std::string str = gen_main(src, A, 10, 5000, HUGE_OK);
        std::string drop = " \r\n\t";
        if (dropkind == 1) drop = gen_aux(src, A, 3);
        if (dropkind == 2) drop = std::string(1, A[src.index(A.size())]);
        if (long_mode() && !drop.empty() && src.boolean()) { // long runs of dropped letters at one or both ends
            size_t l1 = src.boolean() ? gen_long_len(src) : 0, l2 = src.boolean() ? gen_long_len(src) : 0;
            Rng rng(src.bits(4));
            std::string pre, post;
            for (size_t i = 0; i < l1; ++i) pre += drop[rng.below(drop.size())];
            for (size_t i = 0; i < l2; ++i) post += drop[rng.below(drop.size())];
            str = pre + str + post;
        }
        std::string want = ref_trim(str, drop, left, right);
        if (long_mode() && str.size() - want.size() >= 255) pbt::label("trim:>=255-dropped");
        static const char* const FL[3] = {"fn:trim", "fn:trim_left", "fn:trim_right"};
        static const char* const FO[3] = {"trim:std::string*", "trim:string_view*", "trim:string_view"};
        static const char* const DK[3] = {"trim:default-drop", "trim:drop-string", "trim:drop-char"};
        pbt::label(FL[fn - 2]), detail_label(FO[form]), detail_label(DK[dropkind]);
        if (want.empty() && !str.empty()) pbt::label("trim:everything-dropped");
        if (want.size() != str.size() && !want.empty()) pbt::label("trim:some-dropped");
        if (dropkind == 1 && drop.empty()) pbt::label("trim:empty-drop-set");
        if (want.size() != str.size()) pbt::nontrivial();
        PBT_LOG(FL[fn - 2] << "(" << show(str) << ", drop=" << show(drop) << ") [" << FO[form] << ", " << DK[dropkind] << "]\n");
        Buf sb(str), db(drop);
        std::string got;
#define TRIM_CALL(F)                                                                                               \
    if (form == 0) {                                                                                               \
        std::string work = str;                                                                                    \
        std::string& r = dropkind == 0 ? tlx::F(&work) : dropkind == 1 ? tlx::F(&work, db.view()) : tlx::F(&work, drop[0]); \
        HCHECK(&r == &work, "C19/trim", #F " does not return its argument");                                       \
        got = work;                                                                                                \
    } else if (form == 1) {                                                                                        \
        SV work = sb.view();                                                                                       \
        SV& r = dropkind == 0 ? tlx::F(&work) : dropkind == 1 ? tlx::F(&work, db.view()) : tlx::F(&work, drop[0]); \
        HCHECK(&r == &work, "C19/trim", #F " does not return its argument");                                       \
        got = work.to_string();                                                                                    \
    } else {                                                                                                       \
        SV r = dropkind == 0 ? tlx::F(sb.view()) : dropkind == 1 ? tlx::F(sb.view(), db.view()) : tlx::F(sb.view(), drop[0]); \
        got = r.to_string();                                                                                       \
    }
        if (fn == 2) { TRIM_CALL(trim) }
        else if (fn == 3) { TRIM_CALL(trim_left) }
        else { TRIM_CALL(trim_right) }
#undef TRIM_CALL
        HCHECK(got == want, fn == 2 ? "C19/trim" : fn == 3 ? "C19/trim_left" : "C19/trim_right",
               FL[fn - 2] + 3 << "(" << show(str) << ", drop=" << show(drop) << ") [" << FO[form] << ", " << DK[dropkind] << "] = "
                              << show(got) << ", definition gives " << show(want));
        break;
    }
    case 5: { // ---- starts_with / starts_with_icase ----
        std::string str = gen_main(src, ALPHA, 8, 5000, HUGE_OK), m = gen_related(src, str, ALPHA, 4);
        bool icase = ov & 1;
        bool want = m.size() <= str.size() && (icase ? ref_lower(str.substr(0, m.size())) == ref_lower(m) : str.compare(0, m.size(), m) == 0);
        pbt::label(icase ? "fn:starts_with_icase" : "fn:starts_with");
        pbt::label(want ? "prefix:true" : "prefix:false");
        if (want && !m.empty()) pbt::nontrivial();
        if (m.size() > str.size()) pbt::label("prefix:match-longer");
        if (long_mode() && want && m.size() >= 255) pbt::label("match:true,>=255-bytes");
        PBT_LOG((icase ? "starts_with_icase(" : "starts_with(") << show(str) << ", " << show(m) << ")\n");
        Buf sb(str), mb(m);
        bool got = icase ? tlx::starts_with_icase(sb.view(), mb.view()) : tlx::starts_with(sb.view(), mb.view());
        HCHECK(got == want, icase ? "C19/starts_with_icase" : "C19/starts_with",
               (icase ? "starts_with_icase(" : "starts_with(") << show(str) << ", " << show(m) << ") = " << got);
        break;
    }
    case 6: { // ---- ends_with / ends_with_icase, four overloads each ----
        bool icase = ov & 1;
        int form = (ov >> 1) & 3; // 0 (cstr,cstr) 1 (cstr,view) 2 (view,cstr) 3 (view,view)
        std::string str = gen_main(src, ALPHA, 8, 5000, HUGE_OK), m;
        switch (src.range(0, long_mode() ? 5 : 3)) {
        case 0: m = gen_over(src, ALPHA, 4); break;
        case 1: m = str.substr(src.index(str.size() + 1)); break;
        case 2: m = flip_case(str.substr(src.index(str.size() + 1)), src); break;
        case 4: // (*_long) suffix whose first byte differs: the mismatch is the last byte compared
            m = str.substr(src.index(str.size() + 1));
            if (!m.empty()) m[0] = ALPHA[src.index(ALPHA.size())];
            break;
        case 5: m = gen_related(src, str, ALPHA, 4); break; // (*_long)
        default: m = gen_over(src, ALPHA, 2) + str; break;
        }
        if (form == 0 || form == 1) str = strip_nul(str);
        if (form == 0 || form == 2) m = strip_nul(m);
        bool want = m.size() <= str.size() && (icase ? ref_lower(str.substr(str.size() - m.size())) == ref_lower(m)
                                                     : str.compare(str.size() - m.size(), m.size(), m) == 0);
        static const char* const FO[4] = {"suffix:(cstr,cstr)", "suffix:(cstr,view)", "suffix:(view,cstr)", "suffix:(view,view)"};
        pbt::label(icase ? "fn:ends_with_icase" : "fn:ends_with");
        pbt::label(FO[form]);
        pbt::label(want ? "suffix:true" : "suffix:false");
        if (m.size() > str.size()) pbt::label("suffix:match-longer");
        if (long_mode() && want && m.size() >= 255) pbt::label("match:true,>=255-bytes");
        if (want && !m.empty()) pbt::nontrivial();
        PBT_LOG((icase ? "ends_with_icase(" : "ends_with(") << show(str) << ", " << show(m) << ") " << FO[form] << "\n");
        Buf sb(str, true), mb(m, true); // NUL-terminated for the C-string overloads; views use exactly n bytes
        Buf sx(str), mx(m);
        bool got;
        if (icase)
            got = form == 0   ? tlx::ends_with_icase(sb.data(), mb.data())
                  : form == 1 ? tlx::ends_with_icase(sb.data(), mx.view())
                  : form == 2 ? tlx::ends_with_icase(sx.view(), mb.data())
                              : tlx::ends_with_icase(sx.view(), mx.view());
        else
            got = form == 0   ? tlx::ends_with(sb.data(), mb.data())
                  : form == 1 ? tlx::ends_with(sb.data(), mx.view())
                  : form == 2 ? tlx::ends_with(sx.view(), mb.data())
                              : tlx::ends_with(sx.view(), mx.view());
        HCHECK(got == want, icase ? "C19/ends_with_icase" : "C19/ends_with",
               (icase ? "ends_with_icase(" : "ends_with(") << show(str) << ", " << show(m) << ") " << FO[form] << " = " << got);
        break;
    }
    case 7: { // ---- contains ----
        std::string str = gen_main(src, ALPHA, 8, 5000, HUGE_OK);
        Buf sb(str);
        if (ov & 1) {
            char c = ALPHA[src.index(ALPHA.size())];
            bool want = str.find(c) != npos;
            pbt::label("fn:contains(char)");
            pbt::label(want ? "contains:true" : "contains:false");
            if (want) pbt::nontrivial();
            PBT_LOG("contains(" << show(str) << ", " << show_char(c) << ")\n");
            HCHECK(tlx::contains(sb.view(), c) == want, "C19/contains", "contains(" << show(str) << ", " << show_char(c) << ") = " << !want);
        } else {
            std::string p = gen_related(src, str, ALPHA, 3);
            bool want = false;
            for (size_t i = 0; i + p.size() <= str.size(); ++i) want = want || contains_at(str, i, p);
            pbt::label("fn:contains(string)");
            pbt::label(want ? "contains:true" : "contains:false");
            if (p.empty()) pbt::label("contains:empty-pattern");
            if (long_mode() && want && p.size() >= 255) pbt::label("match:true,>=255-bytes");
            if (want && !p.empty()) pbt::nontrivial();
            PBT_LOG("contains(" << show(str) << ", " << show(p) << ")\n");
            Buf pb(p);
            HCHECK(tlx::contains(sb.view(), pb.view()) == want, "C19/contains", "contains(" << show(str) << ", " << show(p) << ") = " << !want);
        }
        break;
    }
    case 8: { // ---- to_lower / to_upper ----
        bool upper = ov & 1;
        int form = (ov >> 1) % 3; // 0 char, 1 in-place, 2 copy
        pbt::label(upper ? "fn:to_upper" : "fn:to_lower");
        if (form == 0) {
            unsigned char c = src.u8();
            pbt::label("case:char");
            if (c >= 0x80 || ref_lower(c) != ref_upper(c)) pbt::nontrivial();
            PBT_LOG((upper ? "to_upper(" : "to_lower(") << (int)c << ")\n");
            unsigned char got = (unsigned char)(upper ? tlx::to_upper((char)c) : tlx::to_lower((char)c));
            unsigned char want = upper ? ref_upper(c) : ref_lower(c);
            HCHECK(got == want, upper ? "C19/to_upper" : "C19/to_lower",
                   (upper ? "to_upper" : "to_lower") << "(char " << (int)c << ") = " << (int)got << ", expected " << (int)want);
        } else {
            std::string alphabet = ALPHA;
            if (src.boolean()) { // two arbitrary bytes among letters
                char c1 = (char)src.u8(), c2 = (char)src.u8();
                alphabet = std::string("aZ") + c1 + c2;
            }
            std::string str = gen_main(src, alphabet, 10, 5000, HUGE_OK);
            std::string want = upper ? ref_upper(str) : ref_lower(str), got;
            pbt::label(form == 1 ? "case:in-place" : "case:copy");
            if (want != str) pbt::nontrivial();
            PBT_LOG((upper ? "to_upper(" : "to_lower(") << show(str) << ")\n");
            if (form == 1) {
                std::string work = str;
                std::string& r = upper ? tlx::to_upper(&work) : tlx::to_lower(&work);
                HCHECK(&r == &work, "C19/to_lower", "in-place case conversion does not return its argument");
                got = work;
            } else {
                Buf sb(str);
                got = upper ? tlx::to_upper(sb.view()) : tlx::to_lower(sb.view());
            }
            HCHECK(got == want, upper ? "C19/to_upper" : "C19/to_lower",
                   (upper ? "to_upper(" : "to_lower(") << show(str) << ") = " << show(got) << ", expected " << show(want));
        }
        break;
    }
    case 9: { // ---- compare_icase, four overloads ----
        int form = ov & 3; // 0 (cstr,cstr) 1 (cstr,view) 2 (view,cstr) 3 (view,view)
        std::string a = gen_main(src, ALPHA, 6, 5000, HUGE_OK), b = gen_related(src, a, ALPHA, 6);
        if (src.boolean()) std::swap(a, b);
        if (form == 0 || form == 1) a = strip_nul(a);
        if (form == 0 || form == 2) b = strip_nul(b);
        int want = ref_compare_icase(a, b);
        static const char* const FO[4] = {"icase:(cstr,cstr)", "icase:(cstr,view)", "icase:(view,cstr)", "icase:(view,view)"};
        pbt::label("fn:compare_icase");
        pbt::label(FO[form]);
        pbt::label(want < 0 ? "icase:less" : want > 0 ? "icase:greater" : "icase:equal");
        size_t n = std::min(a.size(), b.size());
        bool prefix = a.size() != b.size() && ref_lower(a.substr(0, n)) == ref_lower(b.substr(0, n));
        bool high = false;
        for (unsigned char c : a + b) high = high || c >= 0x80;
        if (prefix) pbt::label("icase:proper-prefix");
        if (high) pbt::label("icase:byte>=0x80");
        if (want == 0 && a != b) pbt::label("icase:equal-up-to-case");
        if (prefix || high || (want == 0 && a != b)) pbt::nontrivial();
        PBT_LOG("compare_icase(" << show(a) << ", " << show(b) << ") " << FO[form] << "\n");
        Buf az(a, true), bz(b, true), ax(a), bx(b);
        int got = form == 0   ? tlx::compare_icase(az.data(), bz.data())
                  : form == 1 ? tlx::compare_icase(az.data(), bx.view())
                  : form == 2 ? tlx::compare_icase(ax.view(), bz.data())
                              : tlx::compare_icase(ax.view(), bx.view());
        HCHECK(sgn(got) == want, "C19/compare_icase",
               "compare_icase(" << show(a) << ", " << show(b) << ") " << FO[form] << " = " << got
                                << ", strcmp on the lower-cased strings gives " << want);
        break;
    }
    case 10: { // ---- erase_all ----
        int form = ov % 6; // 0 in-place default, 1 in-place char, 2 in-place string, 3 copy default, 4 copy char, 5 copy string
        const std::string A = std::string(" ab") + '\0' + (char)0xFF;
        std::string str = gen_main(src, A, 10, 5000, form >= 3 ? HUGE_OK : HUGE_NO);
        std::string drop = " ";
        if (form % 3 == 1) drop = std::string(1, A[src.index(A.size())]);
        if (form % 3 == 2) drop = gen_aux(src, A, 3);
        std::string want;
        for (char c : str)
            if (drop.find(c) == npos) want += c;
        static const char* const FO[6] = {"erase_all:in-place,default", "erase_all:in-place,char", "erase_all:in-place,string",
                                          "erase_all:copy,default",     "erase_all:copy,char",     "erase_all:copy,string"};
        pbt::label("fn:erase_all");
        detail_label(FO[form]);
        if (want.empty() && !str.empty()) pbt::label("erase_all:everything-erased");
        if (long_mode() && str.size() - want.size() >= 255) pbt::label("erase_all:>=255-erased");
        if (want.size() != str.size()) pbt::nontrivial();
        PBT_LOG("erase_all(" << show(str) << ", " << show(drop) << ") " << FO[form] << "\n");
        Buf sb(str), db(drop);
        std::string got;
        if (form < 3) {
            std::string work = str;
            std::string& r = form == 0 ? tlx::erase_all(&work) : form == 1 ? tlx::erase_all(&work, drop[0]) : tlx::erase_all(&work, db.view());
            HCHECK(&r == &work, "C19/erase_all", "in-place erase_all does not return its argument");
            got = work;
        } else got = form == 3 ? tlx::erase_all(sb.view()) : form == 4 ? tlx::erase_all(sb.view(), drop[0]) : tlx::erase_all(sb.view(), db.view());
        HCHECK(got == want, "C19/erase_all",
               "erase_all(" << show(str) << ", " << show(drop) << ") " << FO[form] << " = " << show(got) << ", expected " << show(want));
        break;
    }
    case 11: { // ---- pad ----
        std::string str = gen_main(src, ALPHA, 8, 5000, HUGE_OK);
        size_t len = (size_t)src.range(0, 12);
        if (long_mode()) switch (src.range(0, 5)) { // *_long: widths around the string length, independent long ones, small ones
            case 0: len = (str.empty() ? 0 : str.size() - 1) + (size_t)src.range(0, 2); break;
            case 1: len = gen_long_len(src, 5000, HUGE_OK); break;
            case 2: len = str.size() + gen_long_len(src); break;
            case 3: len = str.size() - std::min(str.size(), gen_long_len(src)); break;
            case 4: len = src.index(str.size() + 1); break;
            default: break;
            }
        bool dflt = ov & 1;
        char pc = dflt ? ' ' : ALPHA[src.index(ALPHA.size())];
        std::string want = str.substr(0, std::min(len, str.size()));
        want.resize(len, pc);
        pbt::label("fn:pad");
        pbt::label(len < str.size() ? "pad:truncates" : len == str.size() ? "pad:exact" : "pad:pads");
        if (long_mode() && len >= 255) pbt::label("pad:width>=255");
        if (len != str.size()) pbt::nontrivial();
        PBT_LOG("pad(" << show(str) << ", " << len << ", " << show_char(pc) << ")\n");
        Buf sb(str);
        std::string got = dflt ? tlx::pad(sb.view(), len) : tlx::pad(sb.view(), len, pc);
        HCHECK(got == want, "C19/pad", "pad(" << show(str) << ", " << len << ", " << show_char(pc) << ") = " << show(got));
        break;
    }
    default: { // ---- levenshtein / levenshtein_icase ----
        bool icase = ov & 1, cstr = ov & 2;
        const std::string A = std::string("abAB") + (cstr ? "c" : std::string(1, '\0')) + (char)0xC1 + (char)0xE1;
        std::string a, b;
        if (long_mode()) {
            // the reference is O(|a| |b|): mostly 255..320 characters, some 511..513 and up to 700, rarely 1000..1500
            size_t n;
            switch (src.weighted({6, 4, 3, 3, 2, 1})) {
            case 0: n = 255 + (size_t)src.range(0, 2); break;
            case 1: n = (size_t)src.range(258, 320); break;
            case 2: n = (size_t)src.range(13, 254); break;
            case 3: n = 511 + (size_t)src.range(0, 2); break;
            case 4: n = (size_t)src.range(321, 700); break;
            default: n = (size_t)src.range(1000, 1500); break;
            }
            a = gen_shaped(src, A, n);
            b = gen_related(src, a, A, 7, std::min<size_t>(n, 400));
            label_len(std::max(a.size(), b.size()));
        } else
            a = gen_over(src, A, src.chance(16) ? 24 : 7), b = gen_related(src, a, A, 7);
        if (src.boolean()) std::swap(a, b);
        size_t want = ref_levenshtein(a, b, icase);
        if (long_mode()) {
            if (std::max(a.size(), b.size()) >= 256) pbt::label("lev:longer>=256");
            if (std::min(a.size(), b.size()) >= 256) pbt::label("lev:both>=256");
        }
        pbt::label(icase ? "fn:levenshtein_icase" : "fn:levenshtein");
        pbt::label(cstr ? "lev:(cstr,cstr)" : "lev:(view,view)");
        if (a.empty() || b.empty()) pbt::label("lev:one-empty");
        if (a.size() < b.size()) pbt::label("lev:first-shorter");
        if (want != 0 && !a.empty() && !b.empty()) pbt::nontrivial();
        if (icase && want != ref_levenshtein(a, b, false)) pbt::label("lev:case-matters");
        PBT_LOG((icase ? "levenshtein_icase(" : "levenshtein(") << show(a) << ", " << show(b) << ")\n");
        Buf az(a, true), bz(b, true), ax(a), bx(b);
        size_t got = cstr ? (icase ? tlx::levenshtein_icase(az.data(), bz.data()) : tlx::levenshtein(az.data(), bz.data()))
                          : (icase ? tlx::levenshtein_icase(ax.view(), bx.view()) : tlx::levenshtein(ax.view(), bx.view()));
        HCHECK(got == want, icase ? "C19/levenshtein_icase" : "C19/levenshtein",
               (icase ? "levenshtein_icase(" : "levenshtein(") << show(a) << ", " << show(b) << ") = " << got << ", full-matrix DP gives "
                                                               << want);
        break;
    }
    }
}
