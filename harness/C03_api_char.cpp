// C03 — sort_api: CharStringSet / CCharStringSet (plain char strings handed directly to the detail sorters)
#include "C03_api.hpp"
namespace c03 {
void api_char(const ApiCase& c) { run_api_modes<ApiCharRep<char>>(c); }
void api_cchar(const ApiCase& c) { run_api_modes<ApiCharRep<const char>>(c); }
} // namespace c03
