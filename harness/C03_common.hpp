// C03 — sequential string sorters: sorted permutation of the original objects + exact LCP array.
// Shared declarations: decoded case, generator, oracle helpers. (DESIGN.md §4 C03)
#pragma once
#include "../engine/pbt.hpp"

#include <algorithm>
#include <cstdint>
#include <cstring>
#include <memory>
#include <string>
#include <vector>

namespace c03 {

enum Rep { R_UCHAR = 0, R_CUCHAR, R_STD, R_UPTR, R_SUFFIX, NREP };
enum Algo { A_INS = 0, A_MKQS, A_CE0, A_CE2, A_CE3, A_CI2, A_CI3, A_FRONT, NALGO };
enum MemClass { M_ZERO = 0, M_TINY, M_MKQS, M_THRESH, M_LARGE };

static const char* const REP_NAME[] = {"UCharStringSet", "CUCharStringSet", "StdStringSet", "UPtrStdStringSet",
                                       "StringSuffixSet"};
static const char* const ALGO_NAME[] = {"insertion_sort", "multikey_quicksort", "radixsort_CE0", "radixsort_CE2",
                                        "radixsort_CE3",  "radixsort_CI2",      "radixsort_CI3", "sort_strings(front-end)"};

static const uint32_t LCP_POISON = 0xA5A5A5A5u;

//! one decoded test case
struct Case {
    int rep = 0, algo = 0, front = 0;
    bool lcp = false;
    bool big = false;
    // memory-limit argument: class + selectors, turned into a number by the rep TU (needs sizeof of tlx types)
    int memclass = 0;
    bool mem_own = false;     // thresholds of the entry algorithm itself
    unsigned mem_x = 0;       // whose memory_use estimate (0..4 = CE0,CE2,CE3,CI2,CI3)
    unsigned mem_y = 0;       // whose RadixStep size
    unsigned mem_j = 0;       // number of RadixSteps on top
    unsigned mem_rsel = 0;    // remainder selector
    unsigned mem_raw = 0;     // 16 raw bits
    bool mem_safe_only = false; // big cases: keep the remainder large enough that no quadratic fall-back can happen
    int geo_k = 0;              // big cases with geometrically shrinking buckets: alphabet size (0 = all bytes)
    // the collection
    std::vector<std::string> strs; // all reps except suffix
    std::string text;              // suffix rep
    std::vector<size_t> sa;        // suffix rep: the indices to sort
    // filled in by the runner
    mutable size_t memory = 0;
};

// implemented in harness/C03_rep_*.cpp
// implemented in harness/C03_rep_*.cpp (each representation in two TUs: with / without LCP output)
#define C03_DECL(NAME)               \
    void NAME##_lcp(const Case& c);  \
    void NAME##_nolcp(const Case& c);
C03_DECL(run_uchar)
C03_DECL(run_cuchar)
C03_DECL(run_std)
C03_DECL(run_uptr)
C03_DECL(run_suffix)
#undef C03_DECL

/******************************************************************************/
// own comparison: unsigned-byte lexicographic, common prefix length

struct Cmp {
    size_t lcp;
    bool leq;   // a <= b
    bool equal; // a == b
};
inline Cmp compare(const unsigned char* a, size_t na, const unsigned char* b, size_t nb) {
    size_t m = na < nb ? na : nb, h = 0;
    while (h < m && a[h] == b[h]) ++h;
    Cmp r;
    r.lcp = h;
    r.equal = (h == na && h == nb);
    if (h == na) r.leq = true;       // a is a prefix of b
    else if (h == nb) r.leq = false; // b is a proper prefix of a
    else r.leq = a[h] < b[h];
    return r;
}
inline bool less_str(const std::string& a, const std::string& b) {
    Cmp r = compare((const unsigned char*)a.data(), a.size(), (const unsigned char*)b.data(), b.size());
    return r.leq && !r.equal;
}

inline std::string describe(const Case& c, size_t n) {
    std::ostringstream os;
    os << REP_NAME[c.rep] << " " << ALGO_NAME[c.algo];
    if (c.algo == A_FRONT) os << "#" << c.front;
    os << (c.lcp ? " +lcp" : "") << " n=" << n << " memory=" << c.memory;
    return os.str();
}

//! check order and LCP of the output sequence; view(i) -> pair(ptr,len) of output string i
template <class View>
void check_order_lcp(const Case& c, size_t n, View view, const uint32_t* lcp) {
    bool nt = false, dup = false, chain = false;
    size_t maxlcp = 0;
    for (size_t i = 1; i < n; ++i) {
        std::pair<const unsigned char*, size_t> a = view(i - 1), b = view(i);
        Cmp r = compare(a.first, a.second, b.first, b.second);
        PBT_CHECK(r.leq, "C03/order",
                  describe(c, n) << ": output[" << i - 1 << "]=" << pbt::show_bytes(a.first, std::min<size_t>(a.second, 80))
                                 << " > output[" << i << "]=" << pbt::show_bytes(b.first, std::min<size_t>(b.second, 80)));
        if (lcp)
            PBT_CHECK(lcp[i] == r.lcp, "C03/lcp",
                      describe(c, n) << ": lcp[" << i << "]=" << lcp[i] << (lcp[i] == LCP_POISON ? " (never written)" : "")
                                     << " but common prefix of " << pbt::show_bytes(a.first, std::min<size_t>(a.second, 80))
                                     << " and " << pbt::show_bytes(b.first, std::min<size_t>(b.second, 80)) << " is " << r.lcp);
        if (r.lcp >= 1 || r.equal) nt = true;
        if (r.lcp > maxlcp) maxlcp = r.lcp;
        if (r.equal) dup = true;
        else if (r.lcp == a.second && r.lcp > 0) chain = true;
    }
    if (n >= 2 && nt) pbt::nontrivial();
    if (dup) pbt::label("duplicates");
    if (chain) pbt::label("prefix_chain");
    if (maxlcp >= 8) pbt::label("maxlcp>=8");
    if (maxlcp >= 64) pbt::label("maxlcp>=64");
}

/******************************************************************************/
// generator

//! abstract stream of random decisions: either the choice bytes themselves or a local PRNG
struct Rnd {
    virtual ~Rnd() {}
    virtual uint64_t below(uint64_t n) = 0; // [0,n), 0 for n<=1
};
struct SrcRnd : Rnd {
    pbt::Source& s;
    explicit SrcRnd(pbt::Source& src) : s(src) {}
    uint64_t below(uint64_t n) override { return n <= 1 ? 0 : (uint64_t)s.range(0, (int64_t)n - 1); }
};
struct PrngRnd : Rnd {
    uint64_t st;
    explicit PrngRnd(uint64_t seed) : st(seed) {}
    uint64_t next() {
        uint64_t z = (st += 0x9E3779B97F4A7C15ull);
        z = (z ^ (z >> 30)) * 0xBF58476D1CE4E5B9ull;
        z = (z ^ (z >> 27)) * 0x94D049BB133111EBull;
        return z ^ (z >> 31);
    }
    uint64_t below(uint64_t n) override { return n <= 1 ? 0 : next() % n; }
};

enum Style { S_MIXED = 0, S_RANDOM, S_DOMINANT, S_FEWDISTINCT, S_CHAIN, NSTYLE };

struct Shape {
    int k = 2;                 // alphabet size; 0 = all bytes 0x01..0xFF
    unsigned char sym[4] = {'a', 'b', 'c', 'd'};
    size_t prefix_len = 0;     // shared prefix P
    int style = S_MIXED;
    size_t maxtail = 4;        // random tails 0..maxtail
    size_t maxlen = 300;       // bound on string length (excluding nothing)
    unsigned dominant_pct = 97; // S_DOMINANT: share of strings that start with P
    size_t distinct = 4;       // S_FEWDISTINCT
};

inline unsigned char gen_char(Rnd& r, const Shape& sh) {
    if (sh.k == 0) return (unsigned char)(1 + r.below(255));
    return sh.sym[r.below((uint64_t)sh.k)];
}
inline std::string gen_random(Rnd& r, const Shape& sh, size_t len) {
    std::string s(len, 'a');
    for (size_t i = 0; i < len; ++i) s[i] = (char)gen_char(r, sh);
    return s;
}

//! alphabet palettes: index 0 is the simplest
inline void set_alphabet(Shape& sh, unsigned sel) {
    static const unsigned char PAL[][4] = {
        {'a', 'b', 'c', 'd'}, {'a', 0xFF, 0x01, 0x80}, {0x01, 0x02, 0xFE, 0xFF}, {0x7F, 0x80, 'a', 0x01}, {0xFF, 0xFE, 'z', 0x01}};
    unsigned pal = sel % 5, k = (sel / 5) % 5; // k: 0->2, 1->1, 2->3, 3->4, 4->full
    static const int K[] = {2, 1, 3, 4, 0};
    sh.k = K[k];
    memcpy(sh.sym, PAL[pal], 4);
}

//! produce one more string given the strings so far
inline std::string gen_one(Rnd& r, const Shape& sh, const std::string& P, const std::vector<std::string>& strs) {
    enum { NEW, PFX_NEW, DUP, CUT, EXT, EMPTY, PCUT };
    size_t i = strs.size();
    int op = NEW;
    switch (sh.style) {
    case S_RANDOM: op = NEW; break;
    case S_DOMINANT:
        if (r.below(100) < sh.dominant_pct) op = PFX_NEW;
        else {
            static const int O[] = {NEW, DUP, CUT, EXT, EMPTY, PCUT};
            op = O[r.below(6)];
        }
        break;
    case S_FEWDISTINCT:
        if (i < sh.distinct) op = r.below(2) ? PFX_NEW : NEW;
        else op = DUP;
        break;
    case S_CHAIN: {
        static const int O[] = {PCUT, PCUT, EXT, CUT, DUP, PFX_NEW};
        op = O[r.below(6)];
        break;
    }
    default: {
        static const int O[] = {NEW, PFX_NEW, DUP, CUT, EXT, EMPTY, PCUT, NEW, PFX_NEW, PFX_NEW, DUP, CUT, EXT};
        op = O[r.below(13)];
        break;
    }
    }
    if (i == 0 && (op == DUP || op == CUT || op == EXT)) op = PFX_NEW;
    switch (op) {
    case NEW: return gen_random(r, sh, (size_t)r.below(sh.maxtail + 1));
    case PFX_NEW: return P + gen_random(r, sh, (size_t)r.below(sh.maxtail + 1));
    case DUP: return strs[sh.style == S_FEWDISTINCT ? r.below(sh.distinct) : r.below(i)];
    case CUT: {
        const std::string& t = strs[r.below(i)];
        return t.substr(0, (size_t)r.below(t.size() + 1));
    }
    case EXT: {
        const std::string& t = strs[r.below(i)];
        if (t.size() + 3 > sh.maxlen) return t;
        return t + gen_random(r, sh, 1 + (size_t)r.below(3));
    }
    case EMPTY: return std::string();
    default: return P.substr(0, (size_t)r.below(P.size() + 1));
    }
}

//! feature labels of a generated collection
inline void label_strings(const std::vector<std::string>& strs) {
    bool has_empty = false, high = false, low1 = false;
    for (const std::string& s : strs) {
        if (s.empty()) has_empty = true;
        for (unsigned char ch : s) {
            if (ch >= 0x80) high = true;
            if (ch == 0x01) low1 = true;
        }
    }
    if (has_empty) pbt::label("has_empty");
    if (high) pbt::label("has_highbyte");
    if (low1) pbt::label("has_byte01");
}

} // namespace c03
