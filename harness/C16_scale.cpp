// C16 (part 3) — SCALE classes.  The statement puts no bound on the size of a SimpleVector, and a bounded deque of
// any capacity must behave like one of capacity 0..9; C16_simplevec.cpp / C16_ring.cpp keep sizes <= 12 so that all
// orderings of operations are found quickly, this file samples the *size* dimension with short histories:
//   simplevec_scale  SimpleVector of 0..4096 elements (doubling may reach 8192); sizes drawn around powers of two
//                    and multiples of 64; resize deltas of every magnitude relative to the current size n
//                    (+-1, +-n/64, +-n/128, within n/16, half, double, to 0, same, unrelated size); contents are
//                    made position dependent (iota writes) so that a wrong move range is visible.
//   ring_scale       RingBuffer with max_size 15/16/17 ... 1023/1024/1025, 1000 and drawn 10..1100; pushes and pops
//                    come in RUNS (1, a few, half the capacity, up to full, more than the capacity with the window
//                    sliding) so that both cursors wrap even for the large capacities.
// Oracles are those of the small classes and just as exact: model contents (std::vector / std::deque) compared in
// full after every operation, Tracked ledger "alive iff stored" (every stored element is read, which asserts it is
// alive, and the number of live elements equals the number stored), CountingAllocator ledger for the ring storage.
// Inside a run every single push/pop is followed by the O(1) part of the check (size, front, back, live counts).
#include "../engine/pbt.hpp"
#include "../engine/tracked.hpp"

#include <cstdint>
#include <deque>
#include <memory>
#include <type_traits>
#include <vector>

#include <tlx/container/ring_buffer.hpp>
#include <tlx/container/simple_vector.hpp>

namespace {

using verif::Tracked;

inline int val(const Tracked& t) { return t.value(); }
inline int val(uint64_t x) { return (int)x; }
inline int val(int x) { return x; }

/******************************************************************************/
// SimpleVector

constexpr size_t MAXN = 4096;

//! a vector size; zero bytes give 0
size_t draw_size(pbt::Source& src) {
    switch (src.weighted({3, 3, 3, 2, 1})) {
    case 0: return (size_t)src.range(0, 80); // both sides of 64
    case 1: return (size_t)src.range(64, 300);
    case 2: { // around a power of two 64..4096
        size_t p = (size_t)1 << src.range(6, 12);
        return p + (size_t)src.range(0, 6) - 3;
    }
    case 3: return 64 * (size_t)src.range(1, 64) + (size_t)src.range(0, 2) - 1; // multiples of 64, +-1
    default: return (size_t)src.range(300, (int64_t)MAXN);
    }
}

//! new size for a vector of n elements: every magnitude of change relative to n
size_t draw_resize(pbt::Source& src, size_t n) {
    long N = (long)n, r;
    auto atleast1 = [](long x) { return x < 1 ? 1L : x; };
    switch (src.weighted({3, 2, 3, 2, 2, 2, 2, 1, 1, 2, 2, 2, 2, 2})) {
    case 0: r = N - 1; break;
    case 1: r = N + 1; break;
    case 2: r = N - atleast1(N / 64); break;
    case 3: r = N - N / 64 - 1; break;
    case 4: r = N + atleast1(N / 64); break;
    case 5: r = N / 2; break;
    case 6: r = 2 * N; break;
    case 7: r = 0; break;
    case 8: r = N; break;
    case 9: r = (long)draw_size(src); break;
    case 10: r = N - (long)src.range(1, atleast1(N / 16)); break;
    case 11: r = N + (long)src.range(1, atleast1(N / 16)); break;
    case 12: r = N - atleast1(N / 128); break;
    default: r = N - (long)src.range(1, atleast1(N / 64)); break;
    }
    if (r < 0) r = 0;
    if (r > (long)(2 * MAXN)) r = (long)(2 * MAXN);
    return (size_t)r;
}

void label_resize(size_t old, size_t n) {
    if (old < 64) {
        pbt::label("resize@n<64");
        return;
    }
    pbt::label("resize@n>=64");
    if (old >= 1024) pbt::label("resize@n>=1024");
    if (n < old) {
        size_t d = old - n;
        if (d == 1) pbt::label("big:shrink_by_1");
        if (d <= old / 64) pbt::label("big:shrink_within_n/64");
        else if (d <= old / 8) pbt::label("big:shrink_within_n/8");
        else if (n == 0) pbt::label("big:shrink_to_0");
        else if (n == old / 2) pbt::label("big:shrink_half");
        else pbt::label("big:shrink_large");
    } else if (n > old) {
        size_t d = n - old;
        if (d == 1) pbt::label("big:grow_by_1");
        if (d <= old / 64) pbt::label("big:grow_within_n/64");
        else if (d <= old / 8) pbt::label("big:grow_within_n/8");
        else if (n == 2 * old) pbt::label("big:grow_double");
        else pbt::label("big:grow_large");
    } else pbt::label("big:resize_same");
}

struct VModel {
    bool exists = false;
    std::vector<int> v;
    std::vector<char> init; // slot holds a known value
};

template <class T, tlx::SimpleVectorMode Mode>
void sv_scale(pbt::Source& src) {
    typedef tlx::SimpleVector<T, Mode> SV;
    constexpr bool tracked = std::is_same<T, Tracked>::value;
    constexpr size_t NS = 3;
    verif::Ledger::get().reset();
    size_t n0 = draw_size(src);
    {
        std::unique_ptr<SV> sv[NS];
        VModel m[NS];
        bool grew = false, shrank = false;

        auto iota = [&](size_t s, int base) {
            SV& r = *sv[s];
            for (size_t i = 0; i < m[s].v.size(); ++i) {
                r[i] = T(base + (int)i);
                m[s].v[i] = base + (int)i, m[s].init[i] = 1;
            }
        };
        auto create = [&](size_t s, unsigned how, size_t n) {
            sv[s].reset();
            if (how == 0) {
                PBT_LOG("v" << s << " = SimpleVector()\n");
                sv[s].reset(new SV());
                n = 0;
            } else {
                PBT_LOG("v" << s << " = SimpleVector(" << n << ")\n");
                sv[s].reset(new SV(n));
                if (n >= 64) pbt::label("ctor_n>=64");
                if (n >= 1024) pbt::label("ctor_n>=1024");
            }
            m[s].exists = true;
            m[s].v.assign(n, 0);
            m[s].init.assign(n, tracked ? 1 : 0);
        };
        auto check = [&](const char* after) {
            size_t stored = 0;
            for (size_t s = 0; s < NS; ++s) {
                if (!m[s].exists) continue;
                SV& r = *sv[s];
                const SV& cr = r;
                const VModel& x = m[s];
                const size_t n = x.v.size();
                stored += n;
                PBT_CHECK(cr.size() == n, "C16/vec-size", "after " << after << ": v" << s << ".size() = " << cr.size() << " but the model holds " << n << " elements");
                PBT_CHECK((size_t)(cr.end() - cr.begin()) == n && (size_t)(r.end() - r.begin()) == n && (size_t)(cr.cend() - cr.cbegin()) == n &&
                              cr.data() == cr.begin() && r.data() == r.begin(),
                          "C16/vec-iterators", "after " << after << ": v" << s << " begin/end/data inconsistent with size " << n);
                // every stored element is read (a Tracked read asserts that the element is alive)
                for (size_t i = 0; i < n; ++i) {
                    if (!x.init[i]) continue;
                    PBT_CHECK(val(cr[i]) == x.v[i], "C16/vec-index", "after " << after << ": v" << s << "[" << i << "] = " << val(cr[i]) << " but model " << x.v[i] << " (size " << n << ")");
                }
                // the other accessors at a deterministic sample of positions
                const size_t probe[] = {0, 1, 62, 63, 64, 65, n / 2, n - n / 64, n >= 2 ? n - 2 : 0, n >= 1 ? n - 1 : 0};
                for (size_t i : probe) {
                    if (i >= n || !x.init[i]) continue;
                    PBT_CHECK(val(r[i]) == x.v[i] && val(cr.at(i)) == x.v[i] && val(r.at(i)) == x.v[i] && val(cr.begin()[i]) == x.v[i] && val(cr.data()[i]) == x.v[i],
                              "C16/vec-index", "after " << after << ": v" << s << " accessors at " << i << " disagree with model " << x.v[i] << " (size " << n << ")");
                }
                if (n) {
                    if (x.init.front())
                        PBT_CHECK(val(cr.front()) == x.v.front() && val(r.front()) == x.v.front(), "C16/vec-front", "after " << after << ": v" << s << ".front() = " << val(cr.front()) << ", model " << x.v.front());
                    if (x.init.back())
                        PBT_CHECK(val(cr.back()) == x.v.back() && val(r.back()) == x.v.back(), "C16/vec-back", "after " << after << ": v" << s << ".back() = " << val(cr.back()) << ", model " << x.v.back() << " (size " << n << ")");
                }
            }
            if (tracked)
                PBT_CHECK(verif::Ledger::get().live_count() == stored, "C16/vec-live-elements",
                          "after " << after << ": " << verif::Ledger::get().live_count() << " element objects alive but " << stored << " stored");
        };
        auto other_slot = [&](size_t s, bool allow_self) -> size_t {
            size_t t = src.index(NS);
            if (!allow_self && t == s) t = (s + 1) % NS;
            return t;
        };

        create(0, 1, n0);
        check("construction");
        if (n0) {
            PBT_LOG("v0[i] = 1+i for all i\n");
            iota(0, 1);
            check("iota");
        }
        unsigned nops = 0;
        while (src.more() && nops < 24) {
            ++nops;
            size_t s = src.weighted({5, 2, 1});
            if (!m[s].exists) {
                unsigned how = src.chance(32) ? 0 : 1;
                create(s, how, how ? draw_size(src) : 0);
                check("construction");
                continue;
            }
            VModel& x = m[s];
            SV& r = *sv[s];
            unsigned op = (unsigned)src.weighted({12, 3, 3, 1, 2, 2, 2, 1, 1, 1});
            switch (op) {
            case 0: {
                size_t old = x.v.size();
                size_t n = draw_resize(src, old);
                PBT_LOG("v" << s << ".resize(" << n << ") [from " << old << "]\n");
                r.resize(n);
                label_resize(old, n);
                if (n > old && old >= 64) grew = true;
                if (n < old && n > 0 && old >= 64) shrank = true;
                x.v.resize(n, 0);
                x.init.resize(n, tracked ? 1 : 0);
                break;
            }
            case 1: { // position-dependent contents
                int base = (int)src.range(0, 9) * 10000;
                PBT_LOG("v" << s << "[i] = " << base << "+i for all i\n");
                iota(s, base);
                pbt::label("iota_write");
                break;
            }
            case 2: { // element write
                if (x.v.empty()) continue;
                int v = (int)src.range(0, 99) + 100000;
                unsigned how = (unsigned)src.range(0, 5);
                size_t i = how == 0 ? 0 : how == 1 ? x.v.size() - 1 : src.index(x.v.size());
                PBT_LOG("v" << s << " element " << i << " = " << v << " (via " << how << ")\n");
                switch (how) {
                case 0: r.front() = T(v); break;
                case 1: r.back() = T(v); break;
                case 2: r[i] = T(v); break;
                case 3: r.at(i) = T(v); break;
                case 4: *(r.begin() + i) = T(v); break;
                default: r.data()[i] = T(v); break;
                }
                x.v[i] = v, x.init[i] = 1;
                pbt::label("element_write");
                break;
            }
            case 3: {
                bool dflt = src.boolean();
                int v = dflt ? 0 : (int)src.range(0, 99);
                PBT_LOG("v" << s << ".fill(" << (dflt ? std::string() : std::to_string(v)) << ")\n");
                if (dflt) r.fill();
                else r.fill(T(v));
                for (size_t i = 0; i < x.v.size(); ++i) x.v[i] = v, x.init[i] = 1;
                pbt::label(x.v.size() >= 64 ? "fill@n>=64" : "fill");
                break;
            }
            case 4: { // move-construct into another slot
                size_t t = other_slot(s, false);
                PBT_LOG("v" << t << " = SimpleVector(std::move(v" << s << ")) [" << x.v.size() << " elements]\n");
                sv[t].reset();
                sv[t].reset(new SV(std::move(r)));
                pbt::label(x.v.size() >= 64 ? "move_construct@n>=64" : "move_construct");
                m[t] = x;
                x.v.clear(), x.init.clear();
                break;
            }
            case 5: { // move-assign
                size_t t = other_slot(s, true);
                if (!m[t].exists) continue;
                PBT_LOG("v" << t << " = std::move(v" << s << ")" << (t == s ? " [self]" : "") << " [" << x.v.size() << " over " << m[t].v.size() << " elements]\n");
                if (t == s) pbt::label("move_assign_self");
                else if (m[t].v.size() >= 64) pbt::label("move_assign_over>=64");
                else pbt::label("move_assign");
                SV& target = *sv[t];
                target = std::move(r);
                if (t != s) {
                    m[t] = x;
                    x.v.clear(), x.init.clear();
                }
                break;
            }
            case 6: {
                size_t t = other_slot(s, true);
                if (!m[t].exists) continue;
                PBT_LOG("v" << s << ".swap(v" << t << ") [" << x.v.size() << " <-> " << m[t].v.size() << " elements]\n");
                r.swap(*sv[t]);
                if (t != s) std::swap(m[t], x);
                pbt::label(t == s ? "swap_self" : "swap");
                break;
            }
            case 7: {
                PBT_LOG("v" << s << ".destroy() [" << x.v.size() << " elements]\n");
                if (x.v.size() >= 64) pbt::label("destroy@n>=64");
                r.destroy();
                x.v.clear(), x.init.clear();
                pbt::label("destroy");
                break;
            }
            case 8: {
                PBT_LOG("delete v" << s << " [" << x.v.size() << " elements]\n");
                if (x.v.size() >= 64) pbt::label("dtor@n>=64");
                sv[s].reset();
                x = VModel();
                break;
            }
            default: {
                unsigned how = src.chance(32) ? 0 : 1;
                create(s, how, how ? draw_size(src) : 0);
                break;
            }
            }
            check("op");
        }
        if (grew && shrank) pbt::nontrivial();
        size_t first = src.index(NS);
        for (size_t i = 0; i < NS; ++i) {
            size_t s = (first + i) % NS;
            sv[s].reset();
            m[s] = VModel();
            check("destruction");
        }
    }
    if (tracked)
        PBT_CHECK(verif::Ledger::get().live_count() == 0 && verif::Ledger::get().constructed == verif::Ledger::get().destroyed, "C16/vec-live-elements",
                  "at the end: constructed " << verif::Ledger::get().constructed << " destroyed " << verif::Ledger::get().destroyed);
}

/******************************************************************************/
// RingBuffer

//! CountingAllocator that accepts deallocate(nullptr, n) (see C16_ring.cpp)
template <class T>
struct RingAlloc : verif::CountingAllocator<T> {
    template <class U>
    struct rebind {
        typedef RingAlloc<U> other;
    };
    RingAlloc() noexcept {}
    template <class U>
    RingAlloc(const RingAlloc<U>&) noexcept {}
    void deallocate(T* p, std::size_t n) noexcept {
        if (p == nullptr) return;
        verif::CountingAllocator<T>::deallocate(p, n);
    }
};

size_t draw_cap(pbt::Source& src) {
    static const size_t CAPS[] = {15, 16, 17, 31, 32, 33, 63, 64, 65, 127, 128, 129, 255, 256, 257, 511, 512, 513, 1000, 1023, 1024, 1025};
    switch (src.weighted({6, 2, 1})) {
    case 0: return CAPS[src.index(sizeof(CAPS) / sizeof(CAPS[0]))];
    case 1: return (size_t)src.range(10, 70);
    default: return (size_t)src.range(70, 1100);
    }
}

struct RModel {
    bool exists = false, alloc = false;
    size_t max = 0;
    std::deque<int> dq;
    size_t b = 0, e = 0, mask = 0; // mirror of the cursors (labels / non-triviality only)
};

std::string brief(const std::deque<int>& d) {
    std::ostringstream os;
    os << "[size " << d.size() << ":";
    for (size_t i = 0; i < d.size() && i < 4; ++i) os << " " << d[i];
    if (d.size() > 4) os << " ... " << d.back();
    os << "]";
    return os.str();
}

template <class T, class A>
void ring_scale_history(pbt::Source& src) {
    typedef tlx::RingBuffer<T, A> RB;
    constexpr bool tracked = std::is_same<T, Tracked>::value;
    constexpr size_t NS = 3;
    verif::Ledger::get().reset();
    verif::AllocLedger::get().reset();
    size_t max0 = draw_cap(src);
    {
        std::unique_ptr<RB> rb[NS];
        RModel m[NS];
        bool bwrap = false, ewrap = false, popped_back = false;
        int next = 0;
        auto fresh = [&]() { return next = (next + 1) % 1000000; };

        auto label_cap = [&](size_t max) {
            if (max >= 15) pbt::label("cap>=15");
            if (max >= 63) pbt::label("cap>=63");
            if (max >= 255) pbt::label("cap>=255");
            if (max >= 1000) pbt::label("cap>=1000");
            if (!(max & (max - 1))) pbt::label("cap=2^k");
            if (!((max + 1) & max)) pbt::label("cap=2^k-1");
        };
        auto create = [&](size_t s, bool dflt, size_t max) {
            if (dflt) {
                PBT_LOG("b" << s << " = RingBuffer()\n");
                rb[s].reset(new RB());
            } else {
                PBT_LOG("b" << s << " = RingBuffer(" << max << ")\n");
                rb[s].reset(new RB(max));
                label_cap(max);
            }
            m[s] = RModel();
            m[s].exists = true, m[s].alloc = !dflt, m[s].max = max;
            if (!dflt) m[s].mask = rb[s]->capacity() - 1;
        };
        auto stored_total = [&]() {
            size_t n = 0;
            for (size_t s = 0; s < NS; ++s)
                if (m[s].exists && m[s].alloc) n += m[s].dq.size();
            return n;
        };
        auto blocks_total = [&]() {
            size_t n = 0;
            for (size_t s = 0; s < NS; ++s)
                if (m[s].exists && m[s].alloc) ++n;
            return n;
        };
        // O(1) part of the check for one buffer, used after every single push/pop of a run
        auto check_ends = [&](size_t s, const char* after) {
            const std::deque<int>& d = m[s].dq;
            RB& r = *rb[s];
            const RB& cr = r;
            PBT_CHECK(cr.size() == d.size(), "C16/ring-size", "after " << after << ": b" << s << ".size() = " << cr.size() << " but deque model " << brief(d));
            PBT_CHECK(cr.empty() == d.empty(), "C16/ring-empty", "after " << after << ": b" << s << ".empty() = " << cr.empty() << ", model " << brief(d));
            PBT_CHECK(cr.max_size() == m[s].max, "C16/ring-max_size", "after " << after << ": b" << s << ".max_size() = " << cr.max_size() << " expected " << m[s].max);
            if (!d.empty()) {
                PBT_CHECK(val(cr.front()) == d.front() && val(r.front()) == d.front(), "C16/ring-front",
                          "after " << after << ": b" << s << ".front() = " << val(cr.front()) << " but model " << brief(d));
                PBT_CHECK(val(cr.back()) == d.back() && val(r.back()) == d.back(), "C16/ring-back",
                          "after " << after << ": b" << s << ".back() = " << val(cr.back()) << " but model " << brief(d));
            }
            if (tracked)
                PBT_CHECK(verif::Ledger::get().live_count() == stored_total(), "C16/ring-live-elements",
                          "after " << after << ": " << verif::Ledger::get().live_count() << " element objects alive but " << stored_total() << " stored");
            PBT_CHECK(verif::AllocLedger::get().live_count() == blocks_total(), "C16/ring-live-blocks",
                      "after " << after << ": " << verif::AllocLedger::get().live_count() << " storage blocks alive but " << blocks_total() << " allocated buffers");
        };
        auto check = [&](const char* after) {
            for (size_t s = 0; s < NS; ++s) {
                if (!m[s].exists || !m[s].alloc) continue;
                check_ends(s, after);
                const std::deque<int>& d = m[s].dq;
                RB& r = *rb[s];
                const RB& cr = r;
                for (size_t i = 0; i < d.size(); ++i)
                    PBT_CHECK(val(cr[i]) == d[i] && val(r[i]) == d[i], "C16/ring-index",
                              "after " << after << ": b" << s << "[" << i << "] = " << val(cr[i]) << " but model has " << d[i] << " " << brief(d));
            }
            if (tracked)
                PBT_CHECK(verif::Ledger::get().live_count() == stored_total(), "C16/ring-live-elements",
                          "after " << after << ": " << verif::Ledger::get().live_count() << " element objects alive but " << stored_total() << " stored");
            PBT_CHECK(verif::AllocLedger::get().live_count() == blocks_total(), "C16/ring-live-blocks",
                      "after " << after << ": " << verif::AllocLedger::get().live_count() << " storage blocks alive but " << blocks_total() << " allocated buffers");
        };
        auto other_slot = [&](size_t s, bool allow_self) -> size_t {
            size_t t = src.index(NS);
            if (!allow_self && t == s) t = (s + 1) % NS;
            return t;
        };
        // single steps (model + cursor mirror)
        auto do_pop_front = [&](size_t s) {
            RModel& x = m[s];
            rb[s]->pop_front();
            x.dq.pop_front();
            x.b = (x.b + 1) & x.mask;
            if (x.b == 0) bwrap = true;
        };
        auto do_pop_back = [&](size_t s) {
            RModel& x = m[s];
            rb[s]->pop_back();
            x.dq.pop_back();
            if (x.e == 0) ewrap = true;
            x.e = (x.e - 1) & x.mask;
            popped_back = true;
        };
        auto do_push_back = [&](size_t s, unsigned how, int v) {
            RModel& x = m[s];
            RB& r = *rb[s];
            if (how == 0) {
                const T tmp(v);
                r.push_back(tmp);
            } else if (how == 1) {
                T tmp(v);
                r.push_back(std::move(tmp));
            } else r.emplace_back(v);
            x.dq.push_back(v);
            x.e = (x.e + 1) & x.mask;
            if (x.e == 0 && x.mask) ewrap = true;
        };
        auto do_push_front = [&](size_t s, unsigned how, int v) {
            RModel& x = m[s];
            RB& r = *rb[s];
            if (how == 0) {
                const T tmp(v);
                r.push_front(tmp);
            } else if (how == 1) {
                T tmp(v);
                r.push_front(std::move(tmp));
            } else r.emplace_front(v);
            x.dq.push_front(v);
            if (x.b == 0 && x.mask) bwrap = true;
            x.b = (x.b - 1) & x.mask;
        };
        //! length of a run on a buffer with max_size mx holding sz elements
        auto draw_run = [&](size_t mx, size_t sz, bool pushing) -> size_t {
            switch (src.weighted({2, 2, 2, 3, 2, 1})) {
            case 0: return 1;
            case 1: return (size_t)src.range(2, 9);
            case 2: pbt::label("run=half_capacity"); return mx / 2 + 1;
            case 3: pbt::label(pushing ? "run=fill_up" : "run=drain"); return pushing ? (mx > sz ? mx - sz : 1) : (sz ? sz : 1);
            case 4: pbt::label("run>capacity"); return mx + (size_t)src.range(1, 9);
            default: return (size_t)src.range(1, (int64_t)(mx ? mx : 1));
            }
        };

        create(0, false, max0);
        check("construction");
        unsigned nops = 0;
        while (src.more() && nops < 40) {
            ++nops;
            size_t s = src.weighted({5, 2, 1});
            if (!m[s].exists) {
                bool dflt = src.chance(32);
                create(s, dflt, dflt ? 0 : draw_cap(src));
                check("construction");
                continue;
            }
            RModel& x = m[s];
            RB& r = *rb[s];
            unsigned op = (unsigned)src.weighted({10, 10, 6, 6, 2, 2, 2, 2, 2, 2, 1, 2, 2, 1, 1, 1});
            switch (op) {
            case 0: { // run of push_back (window slides when full)
                if (!x.alloc || x.max == 0) continue;
                size_t len = draw_run(x.max, x.dq.size(), true);
                unsigned how0 = (unsigned)src.range(0, 2);
                PBT_LOG("b" << s << ": " << len << " x push_back [variant " << how0 << "+i, pop_front when full], size " << x.dq.size() << "/" << x.max << "\n");
                bool slid = false, full = false;
                for (size_t i = 0; i < len; ++i) {
                    if (x.dq.size() == x.max) do_pop_front(s), slid = true;
                    do_push_back(s, (how0 + (unsigned)i) % 3, fresh());
                    if (x.dq.size() == x.max) full = true;
                    check_ends(s, "push_back");
                }
                if (slid) pbt::label("slide_forward");
                if (full) pbt::label("full");
                pbt::label("push_back_run");
                break;
            }
            case 1: {
                if (!x.alloc || x.max == 0) continue;
                size_t len = draw_run(x.max, x.dq.size(), true);
                unsigned how0 = (unsigned)src.range(0, 2);
                PBT_LOG("b" << s << ": " << len << " x push_front [variant " << how0 << "+i, pop_back when full], size " << x.dq.size() << "/" << x.max << "\n");
                bool slid = false, full = false;
                for (size_t i = 0; i < len; ++i) {
                    if (x.dq.size() == x.max) do_pop_back(s), slid = true;
                    do_push_front(s, (how0 + (unsigned)i) % 3, fresh());
                    if (x.dq.size() == x.max) full = true;
                    check_ends(s, "push_front");
                }
                if (slid) pbt::label("slide_backward");
                if (full) pbt::label("full");
                pbt::label("push_front_run");
                break;
            }
            case 2: {
                if (!x.alloc || x.dq.empty()) continue;
                size_t len = std::min(draw_run(x.max, x.dq.size(), false), x.dq.size());
                PBT_LOG("b" << s << ": " << len << " x pop_front, size " << x.dq.size() << "/" << x.max << "\n");
                for (size_t i = 0; i < len; ++i) {
                    do_pop_front(s);
                    check_ends(s, "pop_front");
                }
                pbt::label("pop_front_run");
                break;
            }
            case 3: {
                if (!x.alloc || x.dq.empty()) continue;
                size_t len = std::min(draw_run(x.max, x.dq.size(), false), x.dq.size());
                PBT_LOG("b" << s << ": " << len << " x pop_back, size " << x.dq.size() << "/" << x.max << "\n");
                for (size_t i = 0; i < len; ++i) {
                    do_pop_back(s);
                    check_ends(s, "pop_back");
                }
                pbt::label("pop_back_run");
                break;
            }
            case 4: { // element write through front()/back()/operator[]
                if (!x.alloc || x.dq.empty()) continue;
                int v = fresh();
                unsigned how = (unsigned)src.range(0, 2);
                size_t i = how == 0 ? 0 : how == 1 ? x.dq.size() - 1 : src.index(x.dq.size());
                PBT_LOG("b" << s << (how == 0 ? ".front() = " : how == 1 ? ".back() = " : ".operator[] = ") << v << " (index " << i << ")\n");
                if (how == 0) r.front() = T(v);
                else if (how == 1) r.back() = T(v);
                else r[i] = T(v);
                x.dq[i] = v;
                pbt::label("element_write");
                break;
            }
            case 5: {
                if (!x.alloc) continue;
                PBT_LOG("b" << s << ".clear() [" << x.dq.size() << " elements]\n");
                if (x.dq.size() >= 15) pbt::label("clear@size>=15");
                r.clear();
                x.dq.clear();
                x.b = x.e;
                pbt::label("clear");
                break;
            }
            case 6: { // copy-construct a new buffer into another slot
                if (!x.alloc) continue;
                size_t t = other_slot(s, false);
                PBT_LOG("b" << t << " = RingBuffer(b" << s << ") [copy-construct, " << x.dq.size() << " elements]\n");
                rb[t].reset();
                rb[t].reset(new RB(static_cast<const RB&>(r)));
                m[t] = x;
                m[t].b = 0, m[t].e = x.dq.size();
                pbt::label(x.dq.size() >= 15 ? "copy_construct@size>=15" : "copy_construct");
                break;
            }
            case 7: { // copy-assign (also onto itself, onto unallocated buffers and different capacities)
                if (!x.alloc) continue;
                size_t t = other_slot(s, true);
                if (!m[t].exists) continue;
                PBT_LOG("b" << t << " = b" << s << " [copy-assign" << (t == s ? ", self" : "") << (m[t].alloc ? "" : ", target unallocated") << ", " << x.dq.size() << " elements]\n");
                if (t == s) pbt::label("copy_assign_self");
                else if (!m[t].alloc) pbt::label("copy_assign_to_unallocated");
                else if (m[t].mask != x.mask) pbt::label("copy_assign_other_capacity");
                else pbt::label("copy_assign_same_capacity");
                if (t != s && m[t].alloc && !m[t].dq.empty()) pbt::label("copy_assign_over_elements");
                if (t != s && x.dq.size() >= 15) pbt::label("copy_assign@size>=15");
                *rb[t] = static_cast<const RB&>(r);
                if (t != s) {
                    m[t] = x;
                    m[t].b = 0, m[t].e = x.dq.size();
                }
                break;
            }
            case 8: { // move-construct
                if (!x.alloc) continue;
                size_t t = other_slot(s, false);
                PBT_LOG("b" << t << " = RingBuffer(std::move(b" << s << ")) [move-construct, " << x.dq.size() << " elements]\n");
                rb[t].reset();
                rb[t].reset(new RB(std::move(r)));
                m[t] = x;
                x.alloc = false, x.dq.clear(), x.b = x.e = 0;
                pbt::label("move_construct");
                break;
            }
            case 9: { // move-assign
                if (!x.alloc) continue;
                size_t t = other_slot(s, true);
                if (!m[t].exists) continue;
                PBT_LOG("b" << t << " = std::move(b" << s << ") [move-assign" << (t == s ? ", self" : "") << (m[t].alloc ? "" : ", target unallocated") << ", " << x.dq.size() << " elements]\n");
                if (t == s) pbt::label("move_assign_self");
                else if (!m[t].alloc) pbt::label("move_assign_to_unallocated");
                else pbt::label("move_assign");
                if (t != s && m[t].alloc && !m[t].dq.empty()) pbt::label("move_assign_over_elements");
                RB& target = *rb[t];
                target = std::move(r);
                if (t != s) {
                    m[t] = x;
                    x.alloc = false, x.dq.clear(), x.b = x.e = 0;
                }
                break;
            }
            case 10: {
                PBT_LOG("b" << s << ".deallocate()" << (x.alloc ? "" : " [already unallocated]") << "\n");
                if (x.alloc && x.dq.size() >= 15) pbt::label("deallocate@size>=15");
                r.deallocate();
                x.alloc = false, x.dq.clear();
                pbt::label("deallocate");
                break;
            }
            case 11: {
                if (x.alloc) continue;
                size_t n = draw_cap(src);
                PBT_LOG("b" << s << ".allocate(" << n << ")\n");
                r.allocate(n);
                x.alloc = true, x.max = n, x.dq.clear(), x.b = x.e = 0;
                x.mask = r.capacity() - 1;
                label_cap(n);
                pbt::label("allocate");
                break;
            }
            case 12: {
                if (!x.alloc) continue;
                PBT_LOG("b" << s << ".copy_to(vector)\n");
                {
                    std::vector<T> out;
                    out.emplace_back(7); // copy_to appends
                    static_cast<const RB&>(r).copy_to(&out);
                    PBT_CHECK(out.size() == x.dq.size() + 1 && val(out[0]) == 7, "C16/ring-copy_to", "copy_to appended " << out.size() - 1 << " elements, model " << brief(x.dq));
                    for (size_t i = 0; i < x.dq.size(); ++i)
                        PBT_CHECK(val(out[i + 1]) == x.dq[i], "C16/ring-copy_to", "copy_to element " << i << " = " << val(out[i + 1]) << ", model has " << x.dq[i] << " " << brief(x.dq));
                }
                pbt::label(x.dq.size() >= 15 ? "copy_to@size>=15" : "copy_to");
                break;
            }
            case 13: {
                if (!x.alloc) continue;
                PBT_LOG("b" << s << ".move_to(vector)\n");
                {
                    std::vector<T> out;
                    r.move_to(&out);
                    PBT_CHECK(out.size() == x.dq.size(), "C16/ring-move_to", "move_to produced " << out.size() << " elements, model " << brief(x.dq));
                    for (size_t i = 0; i < x.dq.size(); ++i)
                        PBT_CHECK(val(out[i]) == x.dq[i], "C16/ring-move_to", "move_to element " << i << " = " << val(out[i]) << ", model has " << x.dq[i] << " " << brief(x.dq));
                }
                pbt::label(x.dq.size() >= 15 ? "move_to@size>=15" : "move_to");
                for (size_t i = 0; i < x.dq.size(); ++i) {
                    x.b = (x.b + 1) & x.mask;
                    if (x.b == 0) bwrap = true;
                }
                x.dq.clear();
                break;
            }
            case 14: {
                PBT_LOG("destroy b" << s << (x.alloc ? "" : " [unallocated]") << " [" << x.dq.size() << " elements]\n");
                if (x.alloc && x.dq.size() >= 15) pbt::label("destroy@size>=15");
                rb[s].reset();
                x = RModel();
                break;
            }
            default: { // a fresh buffer object in place of this one
                bool dflt = src.chance(32);
                rb[s].reset();
                create(s, dflt, dflt ? 0 : draw_cap(src));
                break;
            }
            }
            check("op");
            if (bwrap && ewrap) pbt::label("both_cursors_wrapped");
        }
        if (bwrap && ewrap && popped_back) pbt::nontrivial();
        size_t first = src.index(NS);
        for (size_t i = 0; i < NS; ++i) {
            size_t s = (first + i) % NS;
            rb[s].reset();
            m[s] = RModel();
            check("destruction");
        }
    }
    if (tracked)
        PBT_CHECK(verif::Ledger::get().live_count() == 0 && verif::Ledger::get().constructed == verif::Ledger::get().destroyed, "C16/ring-live-elements",
                  "at the end: constructed " << verif::Ledger::get().constructed << " destroyed " << verif::Ledger::get().destroyed);
    PBT_CHECK(verif::AllocLedger::get().live_count() == 0, "C16/ring-live-blocks", "at the end: " << verif::AllocLedger::get().live_count() << " blocks not freed");
}

} // namespace

PBT_PROPERTY(simplevec_scale) {
    unsigned mode = (unsigned)src.range(0, 7);
    switch (mode) {
    case 1:
        pbt::label("mode=NoInitButDestroy<uint64>");
        PBT_LOG("SimpleVector<uint64_t, NoInitButDestroy>\n");
        return sv_scale<uint64_t, tlx::SimpleVectorMode::NoInitButDestroy>(src);
    case 2:
        pbt::label("mode=NoInitNoDestroy<uint64>");
        PBT_LOG("SimpleVector<uint64_t, NoInitNoDestroy>\n");
        return sv_scale<uint64_t, tlx::SimpleVectorMode::NoInitNoDestroy>(src);
    case 3:
        pbt::label("mode=Normal<int>");
        PBT_LOG("SimpleVector<int, Normal>\n");
        return sv_scale<int, tlx::SimpleVectorMode::Normal>(src);
    default:
        pbt::label("mode=Normal<Tracked>");
        PBT_LOG("SimpleVector<Tracked, Normal>\n");
        return sv_scale<Tracked, tlx::SimpleVectorMode::Normal>(src);
    }
}

PBT_PROPERTY(ring_scale) {
    unsigned et = (unsigned)src.range(0, 3);
    if (et != 1) {
        pbt::label("elem=Tracked");
        PBT_LOG("RingBuffer<Tracked, CountingAllocator>\n");
        ring_scale_history<Tracked, RingAlloc<Tracked>>(src);
    } else {
        pbt::label("elem=int");
        PBT_LOG("RingBuffer<int, CountingAllocator>\n");
        ring_scale_history<int, RingAlloc<int>>(src);
    }
}
