// C08 — target api_forms: the ARGUMENT-FORM dimension of the public interface of multisequence_partition /
// multisequence_selection (side-by-side audit of the two anchored headers against the harness, work/STRENGTHEN4.txt).
//
// The other C08 targets pass the sequence of iterator pairs as std::vector<pair>::iterator or std::deque<pair>::iterator,
// write the split positions through std::vector<It>::iterator / std::deque<It>::iterator into a fresh container of exactly
// m cells, use rank types ptrdiff_t / size_t / int / long long, class-type comparators (empty functors, one functor owning
// state) and give every sequence storage of its own. Not exercised there, although covered by "every tuple / any strict
// weak order" and by the template interface (RanSeqs, RankType, RankIterator, Comparator are free template parameters):
//   * RanSeqs = pair* (what tlx's own callers pass: simple_vector<pair>::begin()), const pair*, std::vector<pair>::
//     const_iterator, std::deque<pair>::const_iterator; begin/end passed as named lvalues or temporaries;
//   * RankIterator = It* (simple_vector<It>::begin(), unique_ptr<It[]>), an iterator into the MIDDLE of a larger, re-used
//     (never reset) vector whose other cells must stay untouched, a sequence of CONST iterators (const T* /
//     vector<T>::const_iterator: converting assignment) for sequences of mutable iterators;
//   * RankType = unsigned int, unsigned long long, short, unsigned short, long long; the rank passed as a temporary;
//   * Comparator = the DEFAULT argument together with pair* sequences, function pointer, capturing lambda, std::less<> / std::greater<> (transparent), std::function,
//     std::reference_wrapper of a stateful functor with a non-const operator(); passed as non-const lvalue, const lvalue,
//     rvalue;
//   * an element type WITHOUT default constructor;
//   * sequences that share storage: consecutive sorted runs of ONE buffer (how the parallel merges call the routine), and
//     several pairs that are views into one sorted buffer (identical ranges, nested prefixes / suffixes, overlapping
//     ranges) -- every such view is a non-empty sorted sequence, the routines only read;
//   * tuples of 9..16 and 41..99 sequences (the small generator draws m = 1..8 or 17..40, the scale generator >= 100 for
//     short sequences), in particular ALL-SINGLETON tuples of every m = 1..64 with EVERY rank.
// Oracle = the one of `partition` / `selection` (C08_common.hpp), unchanged: split positions inside their sequences, left
// parts hold exactly rank elements, max(left) <= min(right), tie rule (lower-numbered sequences first), equality with the
// first `rank` elements of the stable merge; selection: value equivalent to merged[rank], offset == rank - lower_bound.
// Split positions are read as distances from the begin of their own sequence (aliased sequences share addresses).
#pragma once
#include "C08_common.hpp"

#include <deque>
#include <functional>
#include <memory>
#include <string>

#include <tlx/container/simple_vector.hpp>

namespace c08 {

//! record without default constructor, compared by key only
struct NoDef {
    int key;
    short seq;
    short pos;
    NoDef() = delete;
    NoDef(int k, int s, int p) : key(k), seq((short)s), pos((short)p) {}
};
inline int keyof(const NoDef& r) { return r.key; }
template <>
inline NoDef mk<NoDef>(int key, int seq, int pos) { return NoDef(key, seq, pos); }
inline bool same(const NoDef& a, const NoDef& b) { return a.key == b.key && a.seq == b.seq && a.pos == b.pos; }

namespace fm {

//! reference order used by the oracle (mode 0 key less, 1 key greater, 2 projection key/4 less); the comparator object
//! handed to tlx implements the same order in another FORM
struct RefCmp {
    int mode = 0;
    template <class T>
    bool operator()(const T& a, const T& b) const {
        const int x = keyof(a), y = keyof(b);
        return mode == 0 ? x < y : mode == 1 ? x > y : x / 4 < y / 4;
    }
};

// ---- comparator forms
inline bool fp_less(int a, int b) { return a < b; }
inline bool fp_greater(int a, int b) { return a > b; }
inline bool fp_proj(int a, int b) { return a / 4 < b / 4; }
typedef bool (*IntFnPtr)(int, int); // arguments BY VALUE

//! stateful functor with a NON-CONST operator(); handed to tlx as std::ref(obj), so every call made through any copy
//! of the wrapper lands in the caller's object
template <class T>
struct CountCmp {
    int mode;
    unsigned long calls = 0;
    explicit CountCmp(int m) : mode(m) {}
    CountCmp(const CountCmp&) = delete;
    CountCmp& operator=(const CountCmp&) = delete;
    bool operator()(const T& a, const T& b) {
        ++calls;
        return RefCmp{mode}(a, b);
    }
};

// ---- storage of the sequences: build() sorts the drawn keys, creates the physical storage and returns the logical
// sequences lg (what each iterator pair denotes)
template <class T, bool Ptr>
struct OwnStore { // every sequence in an exact-size heap block of its own
    typedef typename ItOf<T, Ptr>::type It;
    std::vector<std::vector<T>> data;
    void build(const std::vector<std::vector<int>>& keys, RefCmp ref, uint64_t, std::vector<std::vector<T>>& lg) {
        const int m = (int)keys.size();
        lg.assign(m, {});
        data.assign(m, {});
        for (int i = 0; i < m; ++i) {
            std::vector<T> tmp;
            for (size_t j = 0; j < keys[i].size(); ++j) tmp.push_back(mk<T>(keys[i][j], i, 0));
            std::stable_sort(tmp.begin(), tmp.end(), ref);
            for (size_t j = 0; j < tmp.size(); ++j) lg[i].push_back(mk<T>(keyof(tmp[j]), i, (int)j));
            data[i] = std::vector<T>(lg[i].begin(), lg[i].end());
        }
    }
    It begin(int i) { return ItOf<T, Ptr>::begin(data[i]); }
    bool intact(const std::vector<std::vector<T>>& lg) const {
        for (size_t i = 0; i < data.size(); ++i)
            for (size_t j = 0; j < data[i].size(); ++j)
                if (!same(data[i][j], lg[i][j])) return false;
        return true;
    }
    void labels() const { pbt::label("store=own_blocks"); }
};
template <class T, bool Ptr>
struct ConcatStore { // consecutive sorted runs of ONE exact-size buffer (the buffer as a whole is not sorted)
    typedef typename ItOf<T, Ptr>::type It;
    std::vector<T> buf;
    std::vector<size_t> start;
    void build(const std::vector<std::vector<int>>& keys, RefCmp ref, uint64_t, std::vector<std::vector<T>>& lg) {
        const int m = (int)keys.size();
        lg.assign(m, {});
        std::vector<T> all;
        start.clear();
        for (int i = 0; i < m; ++i) {
            std::vector<T> tmp;
            for (size_t j = 0; j < keys[i].size(); ++j) tmp.push_back(mk<T>(keys[i][j], i, 0));
            std::stable_sort(tmp.begin(), tmp.end(), ref);
            for (size_t j = 0; j < tmp.size(); ++j) lg[i].push_back(mk<T>(keyof(tmp[j]), i, (int)j));
            start.push_back(all.size());
            all.insert(all.end(), lg[i].begin(), lg[i].end());
        }
        buf = std::vector<T>(all.begin(), all.end());
    }
    It begin(int i) { return ItOf<T, Ptr>::begin(buf) + (ptrdiff_t)start[i]; }
    bool intact(const std::vector<std::vector<T>>& lg) const {
        for (size_t i = 0; i < lg.size(); ++i)
            for (size_t j = 0; j < lg[i].size(); ++j)
                if (!same(buf[start[i] + j], lg[i][j])) return false;
        return true;
    }
    void labels() const { pbt::label("store=runs_of_one_buffer"); }
};
template <class T, bool Ptr>
struct ViewStore { // every sequence is a view [s_i, s_i + len_i) into ONE sorted buffer: the sequences alias each other
    typedef typename ItOf<T, Ptr>::type It;
    std::vector<T> buf, orig;
    std::vector<size_t> start, len;
    int layout = 0;
    void build(const std::vector<std::vector<int>>& keys, RefCmp ref, uint64_t salt, std::vector<std::vector<T>>& lg) {
        const int m = (int)keys.size();
        std::vector<int> pool;
        size_t maxlen = 0;
        for (auto& k : keys) {
            pool.insert(pool.end(), k.begin(), k.end());
            maxlen = std::max(maxlen, k.size());
        }
        uint64_t s = salt * 0x9E3779B97F4A7C15ull + 0xA11A5;
        const size_t L = maxlen + (size_t)(splitmix(s) % 9);
        std::vector<T> tmp;
        for (size_t j = 0; j < L; ++j) tmp.push_back(mk<T>(pool[j % pool.size()], 0, 0));
        std::stable_sort(tmp.begin(), tmp.end(), ref);
        std::vector<T> st;
        for (size_t j = 0; j < L; ++j) st.push_back(mk<T>(keyof(tmp[j]), 0, (int)j));
        buf = std::vector<T>(st.begin(), st.end());
        orig = buf;
        layout = (int)(splitmix(s) % 4); // 0 prefixes | 1 suffixes | 2 random | 3 staggered
        start.assign(m, 0), len.assign(m, 0);
        lg.assign(m, {});
        for (int i = 0; i < m; ++i) {
            len[i] = keys[i].size();
            const size_t room = L - len[i];
            start[i] = layout == 0 ? 0 : layout == 1 ? room : layout == 2 ? (size_t)(splitmix(s) % (room + 1)) : (size_t)((size_t)i * 3 % (room + 1));
            lg[i].assign(buf.begin() + (ptrdiff_t)start[i], buf.begin() + (ptrdiff_t)(start[i] + len[i]));
        }
    }
    It begin(int i) { return ItOf<T, Ptr>::begin(buf) + (ptrdiff_t)start[i]; }
    bool intact(const std::vector<std::vector<T>>&) const {
        for (size_t j = 0; j < buf.size(); ++j)
            if (!same(buf[j], orig[j])) return false;
        return true;
    }
    void labels() const {
        pbt::label("store=views_of_one_sorted_buffer(aliased)");
        static const char* const LAY[4] = {"views:prefixes", "views:suffixes", "views:random", "views:staggered"};
        pbt::label(LAY[layout]);
        bool ident = false, overlap = false;
        for (size_t i = 0; i < start.size(); ++i)
            for (size_t j = i + 1; j < start.size(); ++j) {
                if (start[i] == start[j] && len[i] == len[j]) ident = true;
                if (start[i] < start[j] + len[j] && start[j] < start[i] + len[i]) overlap = true;
            }
        if (ident) pbt::label("views:two_identical_ranges");
        if (overlap) pbt::label("views:overlapping_ranges");
    }
};

// ---- forms of the sequence of iterator pairs (RanSeqs)
template <class It>
struct SeqsSimpleVec { // pair* from tlx::simple_vector (the form used by tlx's parallel merges), passed as temporaries
    typedef std::pair<It, It> P;
    tlx::simple_vector<P> sv;
    void set(const std::vector<P>& v) {
        sv.resize(v.size());
        for (size_t i = 0; i < v.size(); ++i) sv[i] = v[i];
    }
    template <class F>
    auto call(F&& f) { return f(sv.begin(), sv.end()); }
    const P& at(size_t i) const { return sv[i]; }
    static void labels() { pbt::label("seqs=pair*(simple_vector)"); }
};
template <class It>
struct SeqsConstPtr { // const pair* into an exact-size vector, passed as named lvalues
    typedef std::pair<It, It> P;
    std::vector<P> v;
    void set(const std::vector<P>& x) { v = std::vector<P>(x.begin(), x.end()); }
    template <class F>
    auto call(F&& f) {
        const P* b = v.data();
        const P* e = v.data() + v.size();
        return f(b, e);
    }
    const P& at(size_t i) const { return v[i]; }
    static void labels() { pbt::label("seqs=const_pair*(lvalues)"); }
};
template <class It>
struct SeqsVecConstIt { // std::vector<pair>::const_iterator
    typedef std::pair<It, It> P;
    std::vector<P> v;
    void set(const std::vector<P>& x) { v = std::vector<P>(x.begin(), x.end()); }
    template <class F>
    auto call(F&& f) { return f(v.cbegin(), v.cend()); }
    const P& at(size_t i) const { return v[i]; }
    static void labels() { pbt::label("seqs=vector::const_iterator"); }
};
template <class It>
struct SeqsDequeConstIt { // std::deque<pair>::const_iterator, named lvalues
    typedef std::pair<It, It> P;
    std::deque<P> d;
    void set(const std::vector<P>& x) { d.assign(x.begin(), x.end()); }
    template <class F>
    auto call(F&& f) {
        typename std::deque<P>::const_iterator b = d.cbegin(), e = d.cend();
        return f(b, e);
    }
    const P& at(size_t i) const { return d[i]; }
    static void labels() { pbt::label("seqs=deque::const_iterator(lvalues)"); }
};

// ---- forms of the output positions (RankIterator). prepare(m, poison) is called before EVERY partition call; a
// re-using form only fills its cells the first time.
template <class It>
struct OffsSimpleVec { // It* from tlx::simple_vector<It>
    typedef It Cell;
    tlx::simple_vector<It> sv;
    void prepare(size_t m, It poison) {
        if (sv.size() != m) sv.resize(m);
        for (size_t i = 0; i < m; ++i) sv[i] = poison;
    }
    It* out() { return sv.begin(); }
    Cell get(size_t i) const { return sv[i]; }
    bool outside_untouched(It) const { return true; }
    static constexpr bool fresh = true;
    static void labels() { pbt::label("offs=It*(simple_vector)"); }
};
template <class It>
struct OffsUnique { // It* into an exact-size new[] array
    typedef It Cell;
    std::unique_ptr<It[]> a;
    size_t n = 0;
    void prepare(size_t m, It poison) {
        if (!a || n != m) a.reset(new It[m]), n = m;
        for (size_t i = 0; i < m; ++i) a[i] = poison;
    }
    It* out() { return a.get(); }
    Cell get(size_t i) const { return a[i]; }
    bool outside_untouched(It) const { return true; }
    static constexpr bool fresh = true;
    static void labels() { pbt::label("offs=It*(new[])"); }
};
template <class It>
struct OffsMid { // the middle of a larger vector that is RE-USED over all ranks of the tuple without being reset
    typedef It Cell;
    std::vector<It> big;
    size_t pre = 0, m_ = 0;
    void prepare(size_t m, It poison) {
        if (!big.empty()) return; // keeps the split positions of the previous rank
        pre = 1 + m % 5, m_ = m;
        big.assign(pre + m + 3, poison);
    }
    typename std::vector<It>::iterator out() { return big.begin() + (ptrdiff_t)pre; }
    Cell get(size_t i) const { return big[pre + i]; }
    bool outside_untouched(It poison) const {
        for (size_t i = 0; i < big.size(); ++i)
            if ((i < pre || i >= pre + m_) && !(std::to_address(big[i]) == std::to_address(poison))) return false;
        return true;
    }
    static constexpr bool fresh = false;
    static void labels() { pbt::label("offs=middle_of_larger_reused_vector"); }
};
template <class It, class CIt>
struct OffsConst { // cells are CONST iterators (const T* / vector<T>::const_iterator), the sequences are mutable
    typedef CIt Cell;
    std::vector<CIt> v;
    void prepare(size_t m, It poison) { v.assign(m, CIt(poison)); }
    typename std::vector<CIt>::iterator out() { return v.begin(); }
    Cell get(size_t i) const { return v[i]; }
    bool outside_untouched(It) const { return true; }
    static constexpr bool fresh = true;
    static void labels() { pbt::label("offs=vector<const_iterator>"); }
};

struct FormStats {
    unsigned long cmp_calls = 0; // CountCmp bundles: calls seen by the caller's object
    bool default_comp = false;   // bundle 0: the comparator argument was omitted
};

//! how the comparator object is passed: 0 non-const lvalue, 1 const lvalue, 2 rvalue (a temporary copy)
//! how the rank is passed: RankTemp -> a temporary
//! DefComp: the comparator argument is omitted (default argument std::less<T>); `cmp` is then unused
template <class T, class Store, template <class> class SeqsForm, class Offs, class RankT, class Cmp, int Pass, bool RankTemp, bool DefComp = false>
void check_forms(const std::vector<std::vector<int>>& keys, int mode, Cmp cmp, uint64_t salt, Stats& st) {
    typedef typename Store::It It;
    typedef std::pair<It, It> P;
    const RefCmp ref{mode};
    const int m = (int)keys.size();

    Store store;
    std::vector<std::vector<T>> lg;
    store.build(keys, ref, salt, lg);
    store.labels();

    std::vector<P> plain(m);
    ptrdiff_t N = 0;
    for (int i = 0; i < m; ++i) {
        It b = store.begin(i);
        plain[i] = P(b, b + (ptrdiff_t)lg[i].size());
        N += (ptrdiff_t)lg[i].size();
    }
    SeqsForm<It> seqs;
    seqs.set(plain);
    SeqsForm<It>::labels();
    Offs offs;
    Offs::labels();

    // reference: stable merge
    struct M {
        T v;
        int seq;
    };
    std::vector<M> merged;
    for (int i = 0; i < m; ++i)
        for (const T& x : lg[i]) merged.push_back(M{x, i});
    std::stable_sort(merged.begin(), merged.end(), [&](const M& a, const M& b) { return ref(a.v, b.v); });

    if (pbt::verbose() && !st.quiet)
        for (int i = 0; i < m; ++i) PBT_LOG("  seq" << i << " (" << lg[i].size() << ") " << show_seq(lg[i]) << "\n");

    std::vector<T> dummy(1, mk<T>(0, 0, 0));
    const It poison = ItOf<T, std::is_pointer<It>::value>::begin(dummy);
    std::vector<ptrdiff_t> expect(m, 0);
    const Cmp& ccmp = cmp;
    (void)ccmp, (void)cmp;

    for (ptrdiff_t r = 0; r <= N; ++r) {
        if (r > 0) ++expect[merged[r - 1].seq];
        ++st.ranks_checked;

        {
            offs.prepare((size_t)m, poison);
            const RankT rank = (RankT)r;
            seqs.call([&](const auto& b, const auto& e) {
                if constexpr (DefComp) tlx::multisequence_partition(b, e, (RankT)r, offs.out());
                else if constexpr (RankTemp) {
                    if constexpr (Pass == 0) tlx::multisequence_partition(b, e, (RankT)r, offs.out(), cmp);
                    else if constexpr (Pass == 1) tlx::multisequence_partition(b, e, (RankT)r, offs.out(), ccmp);
                    else tlx::multisequence_partition(b, e, (RankT)r, offs.out(), Cmp(cmp));
                } else {
                    if constexpr (Pass == 0) tlx::multisequence_partition(b, e, rank, offs.out(), cmp);
                    else if constexpr (Pass == 1) tlx::multisequence_partition(b, e, rank, offs.out(), ccmp);
                    else tlx::multisequence_partition(b, e, rank, offs.out(), Cmp(cmp));
                }
                return 0;
            });

            std::vector<ptrdiff_t> o(m);
            auto show = [&]() {
                std::ostringstream os;
                os << "rank " << r << " of " << N << ": offsets (";
                for (int i = 0; i < m; ++i) os << (i ? "," : "") << o[i];
                os << ") expected (";
                for (int i = 0; i < m; ++i) os << (i ? "," : "") << expect[i];
                os << "); sequences";
                for (int i = 0; i < m; ++i) os << " " << show_seq(lg[i]);
                return os.str();
            };
            // 1. positions written and inside their sequences (distance from the begin of the own sequence)
            for (int i = 0; i < m; ++i) {
                const T* p = std::to_address(offs.get((size_t)i));
                const T* b = std::to_address(plain[i].first);
                if (Offs::fresh || r == 0)
                    PBT_CHECK(p != dummy.data(), "C08/offset-range", "offset of sequence " << i << " not written at rank " << r);
                bool inside = !std::less<const T*>()(p, b) && !std::less<const T*>()(b + lg[i].size(), p);
                o[i] = inside ? (ptrdiff_t)(p - b) : -1;
                PBT_CHECK(inside, "C08/offset-range", "offset of sequence " << i << " outside the sequence; " << show());
            }
            PBT_CHECK(offs.outside_untouched(poison), "C08/offsets-overrun", "a cell of the output range outside [begin_offsets, begin_offsets + m) was written; " << show());
            // 2. left parts hold exactly rank elements
            ptrdiff_t sum = 0;
            for (int i = 0; i < m; ++i) sum += o[i];
            PBT_CHECK(sum == r, "C08/sum", "left parts hold " << sum << " elements; " << show());
            // 3. no element on the left is greater than any element on the right
            const T* maxleft = nullptr;
            const T* minright = nullptr;
            for (int i = 0; i < m; ++i) {
                if (o[i] > 0 && (!maxleft || ref(*maxleft, lg[i][o[i] - 1]))) maxleft = &lg[i][o[i] - 1];
                if (o[i] < (ptrdiff_t)lg[i].size() && (!minright || ref(lg[i][o[i]], *minright))) minright = &lg[i][o[i]];
            }
            if (maxleft && minright)
                PBT_CHECK(!ref(*minright, *maxleft), "C08/order",
                          "left element " << keyof(*maxleft) << " is greater than right element " << keyof(*minright) << "; " << show());
            // 4. tie rule on the class cut by the split
            if (maxleft && minright && !ref(*maxleft, *minright)) {
                int present = 0;
                bool higher_has_left = false;
                for (int i = m - 1; i >= 0; --i) {
                    ptrdiff_t lb = std::lower_bound(lg[i].begin(), lg[i].end(), *minright, ref) - lg[i].begin();
                    ptrdiff_t ub = std::upper_bound(lg[i].begin(), lg[i].end(), *minright, ref) - lg[i].begin();
                    if (ub > lb) ++present;
                    PBT_CHECK(!(higher_has_left && o[i] < ub), "C08/tie-rule",
                              "equivalent elements across the split are not taken from lower-numbered sequences first (sequence "
                                  << i << " keeps one on the right); " << show());
                    if (o[i] > lb) higher_has_left = true;
                }
                if (present >= 2) st.cut_multi = true;
                if (present >= 3) st.cut3 = true;
            }
            // safety net: 1-4 determine the split uniquely
            for (int i = 0; i < m; ++i)
                PBT_CHECK(o[i] == expect[i], "C08/oracle-inconsistent", "oracles 1-4 passed but split differs from the stable merge; " << show());
        }

        if (r < N) {
            const T& want = merged[r].v;
            const ptrdiff_t lbw = std::lower_bound(merged.begin(), merged.end(), want, [&](const M& a, const T& b) { return ref(a.v, b); }) - merged.begin();
            RankT off = (RankT)(r - lbw + 1); // junk that differs from the expected offset
            const RankT rank = (RankT)r;
            T v = seqs.call([&](const auto& b, const auto& e) -> T {
                if constexpr (DefComp) return tlx::multisequence_selection<T>(b, e, rank, off);
                else if constexpr (Pass == 0) return tlx::multisequence_selection<T>(b, e, rank, off, cmp);
                else if constexpr (Pass == 1) return tlx::multisequence_selection<T>(b, e, rank, off, ccmp);
                else return tlx::multisequence_selection<T>(b, e, rank, off, Cmp(cmp));
            });
            PBT_CHECK(!ref(v, want) && !ref(want, v), "C08/sel-value",
                      "selection at rank " << r << " returned key " << keyof(v) << ", merged[rank] has key " << keyof(want));
            ptrdiff_t lb = std::lower_bound(merged.begin(), merged.end(), v, [&](const M& a, const T& b) { return ref(a.v, b); }) - merged.begin();
            PBT_CHECK((long long)off == (long long)(r - lb), "C08/sel-offset",
                      "selection at rank " << r << " (key " << keyof(v) << "): offset " << (long long)off << ", expected " << (r - lb));
        }
    }

    // inputs and iterator pairs untouched
    for (int i = 0; i < m; ++i) PBT_CHECK(seqs.at((size_t)i) == plain[i], "C08/inputs-modified", "iterator pair " << i << " changed");
    PBT_CHECK(store.intact(lg), "C08/inputs-modified", "an element of the input storage changed");
}

// one function per bundle of forms (C08_fminst<N>.cpp); mode = 0 less | 1 greater | 2 projection key/4
void run_form0(const std::vector<std::vector<int>>& keys, int mode, uint64_t salt, Stats& st, FormStats& fs);
void run_form1(const std::vector<std::vector<int>>& keys, int mode, uint64_t salt, Stats& st, FormStats& fs);
void run_form2(const std::vector<std::vector<int>>& keys, int mode, uint64_t salt, Stats& st, FormStats& fs);
void run_form3(const std::vector<std::vector<int>>& keys, int mode, uint64_t salt, Stats& st, FormStats& fs);
void run_form4(const std::vector<std::vector<int>>& keys, int mode, uint64_t salt, Stats& st, FormStats& fs);

} // namespace fm
} // namespace c08
