// C05 — target merge_iters: Rec8, unstable entry points, (input iterator kind, output iterator kind) pairs 4..7, owning comparator
#include "C05_merge.hpp"

namespace c05 {
void run_it_rec8_u_b(pbt::Source& src, const Cfg& cfg) { run_iters_b<Rec8, false>(src, cfg); }
} // namespace c05
