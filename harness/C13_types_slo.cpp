// C13 (types) — DAryHeap<std::string, 1..4, {less, one state-owning comparator per arity}> instantiations
#include "C13_types_impl.hpp"
namespace c13t {
IDaryT* make_dary_s_lo(unsigned arity, unsigned ck, const std::vector<int>* prio) { return make_dary_t_lo<std::string>(arity, ck, prio); }
} // namespace c13t
