// C06 — trivial element types: int, and (key,tag) ordered by key only.
#include "C06_run.hpp"

namespace c06 {

namespace {
struct IntCmp {
    bool greater;
    bool operator()(int a, int b) const { return greater ? b < a : a < b; }
};
struct KT {
    int key;
    int tag;
};
struct KTCmp {
    bool greater;
    bool operator()(const KT& a, const KT& b) const { return greater ? b.key < a.key : a.key < b.key; }
};
} // namespace

Lifetime sort_int(const Params& p, std::vector<Item>& items) {
    std::vector<int> v(items.size());
    for (size_t i = 0; i < items.size(); ++i) v[i] = items[i].key;
    run_tlx(p, v, IntCmp{p.greater});
    for (size_t i = 0; i < items.size(); ++i) items[i] = Item{v[i], -1};
    return Lifetime();
}

Lifetime sort_kt(const Params& p, std::vector<Item>& items) {
    std::vector<KT> v(items.size());
    for (size_t i = 0; i < items.size(); ++i) v[i] = KT{items[i].key, items[i].tag};
    run_tlx(p, v, KTCmp{p.greater});
    for (size_t i = 0; i < items.size(); ++i) items[i] = Item{v[i].key, v[i].tag};
    return Lifetime();
}

} // namespace c06
