// C19 / codec — base64 and hexdump: output equals the RFC 4648 encodings (apart from the requested line breaks) and the
// decoders invert the encoders.
#include "C19_common.hpp"

#include <stdexcept>

#include <tlx/string/base64.hpp>
#include <tlx/string/hexdump.hpp>

using namespace c19;

// shared with C19_icase.cpp (declared in C19_common.hpp)
namespace c19 {

// ---- references written from RFC 4648 -------------------------------------------------------------------
std::string ref_base64(const std::string& in) {
    static const char* A = "ABCDEFGHIJKLMNOPQRSTUVWXYZabcdefghijklmnopqrstuvwxyz0123456789+/";
    std::string out;
    size_t i = 0;
    for (; i + 3 <= in.size(); i += 3) {
        uint32_t v = ((uint32_t)(unsigned char)in[i] << 16) | ((uint32_t)(unsigned char)in[i + 1] << 8) | (unsigned char)in[i + 2];
        out += A[(v >> 18) & 63], out += A[(v >> 12) & 63], out += A[(v >> 6) & 63], out += A[v & 63];
    }
    size_t rest = in.size() - i;
    if (rest == 1) {
        uint32_t v = (uint32_t)(unsigned char)in[i] << 16;
        out += A[(v >> 18) & 63], out += A[(v >> 12) & 63], out += "==";
    } else if (rest == 2) {
        uint32_t v = ((uint32_t)(unsigned char)in[i] << 16) | ((uint32_t)(unsigned char)in[i + 1] << 8);
        out += A[(v >> 18) & 63], out += A[(v >> 12) & 63], out += A[(v >> 6) & 63], out += '=';
    }
    return out;
}
std::string ref_hex(const std::string& in, bool upper) {
    char tmp[4];
    std::string out;
    for (unsigned char c : in) {
        snprintf(tmp, sizeof tmp, upper ? "%02X" : "%02x", c);
        out += tmp;
    }
    return out;
}
} // namespace c19

namespace {

//! RFC 4648 section 10 test vectors; a wrong reference must not be able to produce a verdict
bool reference_selftest() {
    static const char* const plain[7] = {"", "f", "fo", "foo", "foob", "fooba", "foobar"};
    static const char* const b64[7] = {"", "Zg==", "Zm8=", "Zm9v", "Zm9vYg==", "Zm9vYmE=", "Zm9vYmFy"};
    static const char* const b16[7] = {"", "66", "666F", "666F6F", "666F6F62", "666F6F6261", "666F6F626172"};
    for (int i = 0; i < 7; ++i) {
        if (ref_base64(plain[i]) != b64[i]) return false;
        if (ref_hex(plain[i], true) != b16[i]) return false;
    }
    return ref_hex(std::string("\x00\xff\xab", 3), false) == "00ffab";
}

//! *_long targets: 13..5000 (rarely 65535..66000) bytes, expanded from a seed
std::string gen_data_long(pbt::Source& src) {
    size_t n = gen_long_len(src, 5000, HUGE_OK);
    int mode = (int)src.range(0, 3);
    Rng rng(src.bits(4));
    static const unsigned char SPECIAL[] = {0x00, 0xFF, 0x80, 0x7F, 0xFB, 0xEF, 0xBE, 'A', 'a', '/', '+', '=', '\n', 0x3E, 0x3F};
    std::string s;
    s.reserve(n);
    for (size_t i = 0; i < n; ++i) {
        unsigned char c = mode == 0   ? (unsigned char)rng.next()
                          : mode == 1 ? SPECIAL[rng.below(sizeof SPECIAL)]
                          : mode == 2 ? (unsigned char)('a' + rng.below(4))
                                      : (unsigned char)(i * 7 + i / 256); // all byte values in a fixed order
        s += (char)c;
    }
    label_len(n);
    return s;
}

//! *_long targets: a line-break width (multiple of four) chosen relative to the length of the encoding: widths that
//! divide it exactly, equal it, exceed it by little or by far (up to the largest multiple of four in size_t)
size_t gen_line_break_long(pbt::Source& src, size_t datalen) {
    size_t enc = (datalen + 2) / 3 * 4;
    switch (src.range(0, 11)) {
    case 0: return 0;
    case 1: return 4 * (size_t)src.range(1, 30);
    case 2: return 76;
    case 3: return 64;
    case 4: return enc ? enc : 4;                           // exactly one full line
    case 5: return enc + 4;                                 // just larger than the output
    case 6: return enc > 4 ? enc - 4 : 4;                   // one 4-letter group on the second line
    case 7: {                                               // the output is an exact multiple of the width
        size_t groups = enc / 4, d = 2 + (size_t)src.range(0, 30);
        while (d > 1 && groups % d != 0) --d;
        return groups >= d && d > 1 ? groups / d * 4 : 4;
    }
    case 8: return 4 * (size_t)src.range(1, 2000);
    case 9: return (size_t)4 << src.range(0, 20);           // 4 .. 4 Mi
    case 10: {
        static const uint64_t BIG[] = {0xFFFCull, 0x10000ull, 0x7FFFFFFCull, 0x80000000ull, 0xFFFFFFFCull, 0x100000000ull, 0x100000004ull,
                                       0x7FFFFFFFFFFFFFFCull, 0x8000000000000000ull, 0xFFFFFFFFFFFFFFFCull};
        return (size_t)BIG[src.range(0, 9)];
    }
    default: return (enc / 8) * 4 ? (enc / 8) * 4 : 4;      // about half of the output
    }
}

std::string gen_data(pbt::Source& src) {
    if (long_mode()) return gen_data_long(src);
    size_t maxlen = src.chance(16) ? 300 : 40;
    size_t n = (size_t)src.range(0, (int64_t)maxlen);
    int mode = (int)src.range(0, 2);
    std::string s;
    static const unsigned char SPECIAL[] = {0x00, 0xFF, 0x80, 0x7F, 0xFB, 0xEF, 0xBE, 'A', 'a', '/', '+', '=', '\n', 0x3E, 0x3F};
    for (size_t i = 0; i < n; ++i) {
        unsigned char c = mode == 0 ? src.u8() : mode == 1 ? SPECIAL[src.index(sizeof SPECIAL)] : (unsigned char)('a' + src.range(0, 3));
        s += (char)c;
    }
    return s;
}

} // namespace

void c19_codec(pbt::Source& src) {
    static const bool ref_ok = reference_selftest();
    PBT_CHECK(ref_ok, "C19/reference-selftest", "the harness' RFC 4648 reference encoders do not reproduce the RFC test vectors");

    int op = (int)src.range(0, 1);
    int overload = (int)src.range(0, 3);
    size_t lb = 0;
    switch (src.range(0, 4)) {
    case 0: lb = 0; break;
    case 1: lb = 4; break;
    case 2: lb = 8; break;
    case 3: lb = 76; break;
    default: lb = 4 * (size_t)src.range(1, 30); break;
    }
    std::string x = gen_data(src);
    if (long_mode()) lb = gen_line_break_long(src, x.size());
    Buf xb(x);

    if (op == 0) {
        // ---- base64 ----
        std::string enc = (overload & 1) ? tlx::base64_encode(xb.data(), xb.n, lb) : tlx::base64_encode(xb.view(), lb);
        PBT_LOG("base64 x=" << show(x) << " line_break=" << lb << " -> " << show(enc) << "\n");
        pbt::label(x.size() % 3 == 0 ? "b64:len%3=0" : x.size() % 3 == 1 ? "b64:len%3=1" : "b64:len%3=2");
        if (x.empty()) pbt::label("b64:empty");
        std::string stripped;
        std::vector<std::string> lines(1);
        for (char c : enc) {
            if (c == '\n') lines.emplace_back();
            else stripped += c, lines.back() += c;
        }
        if (lb == 0) pbt::label("b64:no-line-break");
        else if (lines.size() > 1) pbt::label(lines.back().empty() ? "b64:multi-line,trailing-newline" : "b64:multi-line");
        else pbt::label("b64:single-line");
        if (long_mode()) {
            if (lb > stripped.size()) pbt::label("b64:line_break>output");
            if (lb >= (1ull << 31)) pbt::label("b64:line_break>=2^31");
            if (lb && !stripped.empty() && stripped.size() % lb == 0) pbt::label("b64:output-multiple-of-line_break");
            if (lines.size() > 256) pbt::label("b64:>256-lines");
        }
        if (x.size() % 3 != 0 || lines.size() > 1) pbt::nontrivial();

        std::string want = ref_base64(x);
        PBT_CHECK(stripped == want, "C19/base64-encode",
                  "base64_encode(" << show(x) << ", " << lb << ") = " << show(enc) << ", RFC 4648 gives " << show(want));
        if (lb == 0) {
            PBT_CHECK(lines.size() == 1, "C19/base64-linebreak", "base64_encode(" << show(x) << ", 0) contains a line break: " << show(enc));
        } else {
            for (size_t i = 0; i < lines.size(); ++i) {
                bool last = i + 1 == lines.size();
                PBT_CHECK(last ? lines[i].size() <= lb : lines[i].size() == lb, "C19/base64-linebreak",
                          "base64_encode(" << show(x) << ", " << lb << ") = " << show(enc) << ": line " << i << " has "
                                           << lines[i].size() << " letters");
            }
        }
        Buf eb(enc);
        for (int strict = 0; strict < 2; ++strict) {
            std::string dec;
            try {
                dec = (overload & 2) ? tlx::base64_decode(eb.data(), eb.n, strict != 0) : tlx::base64_decode(eb.view(), strict != 0);
            } catch (const std::runtime_error& e) {
                pbt::fail("C19/base64-roundtrip", "base64_decode(" + show(enc) + ", strict=" + std::to_string(strict) +
                                                       ") throws \"" + e.what() + "\" on the output of base64_encode(" + show(x) + ", " +
                                                       std::to_string(lb) + ")");
            }
            PBT_CHECK(dec == x, "C19/base64-roundtrip",
                      "base64_decode(base64_encode(" << show(x) << ", " << lb << ") = " << show(enc) << ", strict=" << strict
                                                     << ") = " << show(dec));
        }
    } else {
        // ---- hexdump ----
        std::string up, lo;
        switch (overload) {
        case 0: up = tlx::hexdump(xb.data(), xb.n), lo = tlx::hexdump_lc(xb.data(), xb.n); break;
        case 1: up = tlx::hexdump(xb.view()), lo = tlx::hexdump_lc(xb.view()); break;
        case 2: {
            std::vector<char> v(x.begin(), x.end());
            up = tlx::hexdump(v), lo = tlx::hexdump_lc(v);
            break;
        }
        default: {
            std::vector<std::uint8_t> v(x.begin(), x.end());
            up = tlx::hexdump(v), lo = tlx::hexdump_lc(v);
            break;
        }
        }
        PBT_LOG("hexdump x=" << show(x) << " -> " << up << " / " << lo << "\n");
        static const char* const OL[4] = {"hex:(ptr,size)", "hex:string_view", "hex:vector<char>", "hex:vector<uint8_t>"};
        pbt::label(OL[overload]);
        bool special = false;
        for (unsigned char c : x) special = special || c >= 0x80 || c < 0x10 || (c & 15) >= 10 || (c >> 4) >= 10;
        if (special) pbt::nontrivial();
        if (x.empty()) pbt::label("hex:empty");
        PBT_CHECK(up == ref_hex(x, true), "C19/hexdump", "hexdump(" << show(x) << ") = " << show(up) << ", expected " << ref_hex(x, true));
        PBT_CHECK(lo == ref_hex(x, false), "C19/hexdump_lc",
                  "hexdump_lc(" << show(x) << ") = " << show(lo) << ", expected " << ref_hex(x, false));
        for (int k = 0; k < 2; ++k) {
            const std::string& h = k ? lo : up;
            Buf hb(h);
            std::string back;
            try {
                back = tlx::parse_hexdump(hb.view());
            } catch (const std::runtime_error& e) {
                pbt::fail("C19/hexdump-roundtrip", "parse_hexdump(" + show(h) + ") throws \"" + e.what() + "\"");
            }
            PBT_CHECK(back == x, "C19/hexdump-roundtrip", "parse_hexdump(" << show(h) << ") = " << show(back) << ", expected " << show(x));
        }
    }
}
