// C01 — value_comp() of the four B+ tree containers against the std containers (target btree_value_comp).
// value_compare orders VALUES by their keys with key_comp(); for the sets the value is the key. The element types are
// chosen so that this translation unit compiles on every tree: pair keys have a member `first` (upstream's
// value_compare read x.first for the set kinds as well — defect F42: a pair key was compared by its first half only,
// other key types / non-transparent comparators did not compile, which is why only transparent comparators are used here). Keys with large classes of equal `first` make the difference visible.
#include "../engine/pbt.hpp"

#include <functional>
#include <map>
#include <set>
#include <utility>
#include <vector>

#include <tlx/container/btree_map.hpp>
#include <tlx/container/btree_multimap.hpp>
#include <tlx/container/btree_multiset.hpp>
#include <tlx/container/btree_set.hpp>

namespace {

using PK = std::pair<int, int>;

template <class Traits>
struct Slots4 : Traits {
    static const int leaf_slots = 4;
    static const int inner_slots = 4;
};

template <class TlxC, class StdC, class MakeValue>
void run_value_comp(pbt::Source& src, const char* name, bool multi, MakeValue make) {
    TlxC t;
    StdC s;
    std::vector<typename StdC::value_type> vals;
    size_t n = (size_t)src.range(0, 24);
    for (size_t i = 0; i < n; ++i) {
        auto v = make((int)src.range(0, 3), (int)src.range(0, 5), (int)src.range(0, 9));
        vals.push_back(v);
        t.insert(v);
        s.insert(v);
    }
    PBT_CHECK(t.size() == s.size(), "C01/value_comp-size", name << ": size " << t.size() << " but std holds " << s.size());
    auto tvc = t.value_comp();
    auto svc = s.value_comp();
    size_t differ_only_in_second_half = 0;
    for (size_t i = 0; i < vals.size(); ++i)
        for (size_t j = 0; j < vals.size(); ++j) {
            bool got = tvc(vals[i], vals[j]), want = svc(vals[i], vals[j]);
            PBT_CHECK(got == want, "C01/value_comp", name << ": value_comp()(value " << i << ", value " << j << ") = " << got << " but the std container's value_comp() gives " << want);
            if (want && vals[i].first == vals[j].first) ++differ_only_in_second_half; // ordered although the first members are equal
        }
    // the stored sequence is ordered by value_comp(): no element is value_comp-less than its predecessor
    auto it = t.begin();
    if (it != t.end()) {
        auto prev = it;
        for (++it; it != t.end(); ++it, ++prev)
            PBT_CHECK(!tvc(*it, *prev), "C01/value_comp-order", name << ": iteration order contradicts value_comp()");
    }
    (void)multi;
    if (differ_only_in_second_half) pbt::nontrivial();
}

} // namespace

PBT_PROPERTY(btree_value_comp) {
    int kind = (int)src.range(0, 7);
    static const char* const N[] = {"btree_set<pair,less<>>", "btree_multiset<pair,less<>>", "btree_set<pair,less<>>(default slots)", "btree_multiset<pair,greater<>>",
                                    "btree_map<int,int>", "btree_multimap<int,int>", "btree_map<pair,int,less<>>", "btree_multimap<int,int,greater<int>>"};
    pbt::label(N[kind]);
    PBT_LOG(N[kind] << "\n");
    auto key = [](int a, int b, int) { return PK(a, b); };
    auto kv = [](int a, int, int d) { return std::pair<const int, int>(a, d); };
    auto kv_i = [](int a, int, int d) { return std::pair<int, int>(a, d); };
    (void)kv_i;
    switch (kind) {
    case 0: run_value_comp<tlx::btree_set<PK, std::less<>, Slots4<tlx::btree_default_traits<PK, PK>>>, std::set<PK, std::less<>>>(src, N[kind], false, key); break;
    case 1: run_value_comp<tlx::btree_multiset<PK, std::less<>, Slots4<tlx::btree_default_traits<PK, PK>>>, std::multiset<PK, std::less<>>>(src, N[kind], true, key); break;
    case 2: run_value_comp<tlx::btree_set<PK, std::less<>>, std::set<PK, std::less<>>>(src, N[kind], false, key); break; // default node sizes
    case 3: run_value_comp<tlx::btree_multiset<PK, std::greater<>>, std::multiset<PK, std::greater<>>>(src, N[kind], true, key); break;
    case 4: run_value_comp<tlx::btree_map<int, int>, std::map<int, int>>(src, N[kind], false, kv); break;
    case 5: run_value_comp<tlx::btree_multimap<int, int>, std::multimap<int, int>>(src, N[kind], true, kv); break;
    case 6:
        run_value_comp<tlx::btree_map<PK, int, std::less<>>, std::map<PK, int, std::less<>>>(src, N[kind], false,
                                                                                         [](int a, int b, int d) { return std::pair<const PK, int>(PK(a, b), d); });
        break;
    default: run_value_comp<tlx::btree_multimap<int, int, std::greater<int>>, std::multimap<int, int, std::greater<int>>>(src, N[kind], true, kv); break;
    }
}
