// C06 — shared pieces of the mergesort_iters element types / containers (included by C06_types_iters_*.cpp).
#pragma once
#include "C06_run.hpp"

#include <deque>
#include <functional>
#include <iterator>
#include <string>

namespace c06 {
namespace iters {

static const int GUARD_KEY = -77000001; // guards around the sorted sub-range: never compared, never moved

//! comparator OWNING state with non-trivial copy / move: direction in a heap vector, key projection in a std::function,
//! a std::string longer than the small-string buffer as canary. parallel_mergesort shares one comparator object between
//! its threads (by reference) and std::sort / the merges copy it: all read-only. A moved-from or default-constructed
//! copy being called is reported as C06/comparator-lost.
template <class T>
struct OwnCmp {
    std::string canary;
    std::vector<signed char> dir;
    std::function<int(const T&)> proj;
    static const char* expected() { return "C06-owning-comparator-canary-longer-than-sso"; }
    OwnCmp(bool greater, std::function<int(const T&)> pr) : canary(expected()), dir(1, (signed char)greater), proj(std::move(pr)) {}
    OwnCmp() = default;
    bool operator()(const T& a, const T& b) const {
        if (canary != expected() || dir.size() != 1 || !proj)
            pbt::fatal("C06/comparator-lost", "the sort used a comparator that is not a (live) copy of the one passed: moved-from or default-constructed");
        return dir[0] ? proj(b) < proj(a) : proj(a) < proj(b);
    }
};

//! found by argument-dependent lookup from run_tlx_range (C06_run.hpp): the caller's own comparator object (passed as an
//! lvalue, or copied from) after the sort returned
template <class T>
void comparator_intact_after(const OwnCmp<T>& c) {
    if (c.canary != OwnCmp<T>::expected() || c.dir.size() != 1 || !c.proj)
        pbt::fail("C06/comparator-lost", "the CALLER's comparator object was modified (moved from) by the sort, although it was passed as an lvalue / copied");
}

//! lay-out of the container around the sorted range, derived from Params::layout
struct Layout {
    size_t lead, trail, off;
    bool front_built;
    Layout(unsigned l, size_t blk) : lead(l % 3), trail((l / 3) % 3), off((l / 9) % (blk + 3)), front_built((l >> 12) & 1) {}
};

//! (guard j in front of the range and guard j behind it both carry tag -2-j)
//! fills a deque with off throw-away elements, `lead` guards, the items, `trail` guards; then pops the throw-away ones,
//! so that begin() is (usually) not at the start of a 512-byte block
template <class T, class Make>
void build_deque(std::deque<T>& d, const Layout& lo, const std::vector<Item>& items, Make make) {
    if (lo.front_built) {
        for (size_t j = lo.trail; j-- > 0;) d.push_front(make(GUARD_KEY, -2 - (int)j));
        for (size_t i = items.size(); i-- > 0;) d.push_front(make(items[i].key, items[i].tag));
        for (size_t j = lo.lead; j-- > 0;) d.push_front(make(GUARD_KEY, -2 - (int)j));
        for (size_t j = 0; j < lo.off; ++j) d.push_front(make(GUARD_KEY, -9));
    } else {
        for (size_t j = 0; j < lo.off; ++j) d.push_back(make(GUARD_KEY, -9));
        for (size_t j = 0; j < lo.lead; ++j) d.push_back(make(GUARD_KEY, -2 - (int)j));
        for (const Item& it : items) d.push_back(make(it.key, it.tag));
        for (size_t j = 0; j < lo.trail; ++j) d.push_back(make(GUARD_KEY, -2 - (int)j));
    }
    for (size_t j = 0; j < lo.off; ++j) d.pop_front();
}

} // namespace iters
} // namespace c06
