// C12 — CountingPtr: reference count == number of handles; the object is
// destroyed exactly once, exactly when the last handle lets go.
// Target counting_ptr_seq : handle-operation histories (model = observed handles)
// Target counting_ptr_conc: 2..3 threads copy/drop handles to one shared object
//                           under the deterministic scheduler.
#include "../engine/pbt.hpp"
#include "../engine/sched/vsched.hpp"

#include <tlx/counting_ptr.hpp>

#include <new>
#include <vector>

namespace {

const int MAXOBJ = 64;
struct Registry {
    bool alive[MAXOBJ];
    int destroyed[MAXOBJ];
    int next_id = 0;
    int deleter_calls = 0;
    void reset() {
        for (int i = 0; i < MAXOBJ; ++i) alive[i] = false, destroyed[i] = 0;
        next_id = 0;
        deleter_calls = 0;
    }
} reg;

struct Obj : public tlx::ReferenceCounter {
    int id;
    unsigned canary = 0xC0FFEEu;
    int payload = 0;
    Obj() : id(reg.next_id < MAXOBJ ? reg.next_id++ : MAXOBJ - 1) { reg.alive[id] = true; }
    Obj(const Obj& o) : tlx::ReferenceCounter(o), id(reg.next_id < MAXOBJ ? reg.next_id++ : MAXOBJ - 1), payload(o.payload) { reg.alive[id] = true; }
    virtual ~Obj() {
        if (canary != 0xC0FFEEu || !reg.alive[id]) pbt::fatal("C12/double-destroy", "object destroyed twice or corrupted");
        canary = 0xDEADu;
        reg.alive[id] = false;
        reg.destroyed[id]++;
    }
};
struct Der : public Obj {
    int extra = 7;
};
struct LoggingDeleter {
    template <class T>
    void operator()(T* p) const noexcept {
        reg.deleter_calls++;
        delete p;
    }
};

using H = tlx::CountingPtr<Obj>;
using HD = tlx::CountingPtr<Der>;
using HC = tlx::CountingPtr<const Obj>;
using HL = tlx::CountingPtr<Obj, LoggingDeleter>;

//! handle variable with manually controlled lifetime
template <class T>
struct Var {
    alignas(T) unsigned char buf[sizeof(T)];
    bool live = false;
    T& get() { return *reinterpret_cast<T*>(buf); }
    void create() {
        new (buf) T();
        live = true;
    }
    void destroy() {
        if (live) get().~T();
        live = false;
    }
};

struct Vars {
    Var<H> h[4];
    Var<HD> d[2];
    Var<HC> c[1];
    Var<HL> l[2];
    // extra handles that exist only during a step (temporaries)
    std::vector<const Obj*> temps;
};

//! the oracle: for every object ever created, alive iff some handle points to it, and the count matches
void check_all(Vars& v, const char* after) {
    int cnt[MAXOBJ];
    const Obj* ptr[MAXOBJ];
    for (int i = 0; i < MAXOBJ; ++i) cnt[i] = 0, ptr[i] = nullptr;
    auto see = [&](const Obj* p) {
        if (!p) return;
        // p must be alive: reading id of a dead object would be a use-after-free (ASan) anyway
        cnt[p->id]++;
        ptr[p->id] = p;
    };
    for (auto& x : v.h) if (x.live) see(x.get().get());
    for (auto& x : v.d) if (x.live) see(x.get().get());
    for (auto& x : v.c) if (x.live) see(x.get().get());
    for (auto& x : v.l) if (x.live) see(x.get().get());
    for (const Obj* p : v.temps) see(p);
    for (int i = 0; i < reg.next_id; ++i) {
        PBT_CHECK(reg.destroyed[i] <= 1, "C12/double-destroy", "object " << i << " destroyed " << reg.destroyed[i] << " times after " << after);
        if (cnt[i] > 0) {
            PBT_CHECK(reg.alive[i], "C12/destroyed-while-referenced", "object " << i << " destroyed although " << cnt[i] << " handle(s) point to it, after " << after);
            PBT_CHECK(ptr[i]->reference_count() == (size_t)cnt[i], "C12/count-mismatch",
                      "object " << i << ": reference_count()=" << ptr[i]->reference_count() << " but " << cnt[i] << " handles point to it, after " << after);
        } else {
            PBT_CHECK(!reg.alive[i], "C12/not-destroyed-at-zero", "object " << i << " has no handle left but was not destroyed, after " << after);
        }
    }
}

} // namespace

PBT_PROPERTY(counting_ptr_seq) {
    reg.reset();
    Vars v;
    for (auto& x : v.h) x.create();
    for (auto& x : v.d) x.create();
    for (auto& x : v.c) x.create();
    for (auto& x : v.l) x.create();
    int nops = 0;
    bool aliasing = false, unify_shared = false;
    try {
        while (src.more() && nops < 60 && reg.next_id < MAXOBJ - 4) {
            ++nops;
            int op = (int)src.range(0, 21);
            size_t i = src.index(4), j = src.index(4), k = src.index(2);
            H& a = v.h[i].get();
            H& b = v.h[j].get();
            HD& dd = v.d[k].get();
            const char* name = "";
            switch (op) {
            case 0: name = "make"; a = tlx::make_counting<Obj>(); break;
            case 1: name = "make-derived"; dd = tlx::make_counting<Der>(); break;
            case 2: name = "make-derived-into-base"; a = tlx::make_counting<Der>(); break;
            case 3: {
                name = "copy-construct-temp";
                H t(a);
                v.temps.push_back(t.get());
                check_all(v, "copy-construct (temporary alive)");
                v.temps.clear();
                break;
            }
            case 4:
                name = "copy-assign";
                if (a.get() && a.get() == b.get()) aliasing = true, pbt::label(i == j ? "self_copy_assign" : "same_object_copy_assign");
                a = b;
                break;
            case 5:
                name = "move-assign";
                if (a.get() && a.get() == b.get()) aliasing = true, pbt::label(i == j ? "self_move_assign" : "same_object_move_assign");
                a = std::move(b);
                break;
            case 6: name = "converting-copy-assign"; a = dd; break;
            case 7: name = "converting-move-assign"; a = std::move(dd); break;
            case 8: {
                name = "converting-copy-construct";
                H t(dd);
                v.temps.push_back(t.get());
                check_all(v, "converting copy-construct (temporary alive)");
                v.temps.clear();
                break;
            }
            case 9: {
                name = "converting-move-construct";
                H t(std::move(dd));
                v.temps.push_back(t.get());
                check_all(v, "converting move-construct (temporary alive)");
                v.temps.clear();
                break;
            }
            case 10: name = "to-const"; v.c[0].get() = a; break;
            case 11: name = "from-raw"; a = H(b.get()); break;
            case 12: name = "reset"; a.reset(); break;
            case 13: name = "swap"; a.swap(b); break;
            case 14:
                name = "free-swap";
                using std::swap;
                swap(a, b);
                break;
            case 15:
                name = "unify";
                if (a.get() && !a.unique()) unify_shared = true, pbt::label("unify_shared");
                a.unify();
                PBT_CHECK(!a.get() || a.unique(), "C12/unify-not-unique", "after unify() the handle is not the only owner");
                break;
            case 16:
                name = "destroy-recreate";
                v.h[i].destroy();
                check_all(v, "handle destruction");
                v.h[i].create();
                break;
            case 17: {
                name = "move-construct-temp";
                H t(std::move(a));
                v.temps.push_back(t.get());
                check_all(v, "move-construct (temporary alive)");
                v.temps.clear();
                a = std::move(t);
                break;
            }
            case 18: {
                name = "queries";
                PBT_CHECK((a == b) == (a.get() == b.get()) && (a != b) == (a.get() != b.get()), "C12/compare", "== / != disagree with get()");
                PBT_CHECK(a.valid() == (a.get() != nullptr) && a.empty() == (a.get() == nullptr) && (bool)a == a.valid(), "C12/valid", "valid/empty/bool disagree with get()");
                if (a.get()) {
                    size_t n = 0;
                    for (auto& x : v.h) n += x.get().get() == a.get();
                    for (auto& x : v.d) n += static_cast<const Obj*>(x.get().get()) == a.get();
                    for (auto& x : v.c) n += x.get().get() == a.get();
                    PBT_CHECK(a.use_count() == n && a.unique() == (n == 1), "C12/use_count", "use_count()=" << a.use_count() << " handles=" << n);
                }
                break;
            }
            case 19: { // custom deleter handles (separate family)
                name = "deleter-family";
                HL& x = v.l[k].get();
                HL& y = v.l[1 - k].get();
                switch (src.range(0, 4)) {
                case 0: x = HL(new Obj()); break;
                case 1: x = y; break;
                case 2: x = std::move(y); break;
                case 3: x.reset(); break;
                default: x.swap(y); break;
                }
                break;
            }
            case 20: name = "derived-copy-assign"; v.d[k].get() = v.d[1 - k].get(); break;
            default: name = "const-reset"; v.c[0].get().reset(); break;
            }
            pbt::label(name);
            PBT_LOG("op " << nops << ": " << name << " i=" << i << " j=" << j << " k=" << k << "\n");
            check_all(v, name);
        }
        int created = reg.next_id;
        for (auto& x : v.h) x.destroy();
        for (auto& x : v.d) x.destroy();
        for (auto& x : v.c) x.destroy();
        int before = reg.deleter_calls;
        (void)before;
        for (auto& x : v.l) x.destroy();
        for (int o = 0; o < created; ++o)
            PBT_CHECK(!reg.alive[o] && reg.destroyed[o] == 1, "C12/leak-or-double", "object " << o << " alive=" << reg.alive[o] << " destroyed=" << reg.destroyed[o] << " after all handles are gone");
    } catch (...) {
        for (auto& x : v.h) x.destroy();
        for (auto& x : v.d) x.destroy();
        for (auto& x : v.c) x.destroy();
        for (auto& x : v.l) x.destroy();
        throw;
    }
    if (aliasing || unify_shared) pbt::nontrivial();
}

// Scale class (own target): very many handles to one object (reference counts beyond 255 / 65535),
// long chains of copies, many objects.
PBT_PROPERTY(counting_ptr_scale) {
    reg.reset();
    static const int NS[] = {40, 254, 255, 256, 257, 1000, 65534, 65535, 65536, 65537, 70000};
    int n = NS[src.range(0, 10)] + (int)src.range(0, 3);
    int mode = (int)src.range(0, 3);
    pbt::label(n >= 65534 ? "handles>=65534" : n >= 254 ? "handles>=254" : "handles<254");
    PBT_LOG("scale: " << n << " handles, mode " << mode << "\n");
    {
        H root = tlx::make_counting<Obj>();
        const Obj* obj = root.get();
        std::vector<H> hs;
        hs.reserve((size_t)n);
        for (int i = 0; i < n; ++i) {
            switch (mode) {
            case 0: hs.push_back(root); break;                       // copies of the root
            case 1: hs.push_back(hs.empty() ? root : hs.back()); break; // chain: copy of the previous copy
            case 2: hs.emplace_back(H(root.get())); break;           // from the raw pointer
            default: { H t(root); hs.push_back(std::move(t)); }      // copy then move
            }
        }
        PBT_CHECK(obj->reference_count() == (size_t)n + 1, "C12/count-mismatch", "after " << n << " copies reference_count()=" << obj->reference_count());
        PBT_CHECK(root.use_count() == (size_t)n + 1 && !root.unique(), "C12/use_count", "use_count()=" << root.use_count());
        // drop a generated number of handles from the back, check, re-add some, check
        size_t drop = (size_t)src.range(0, n);
        hs.resize(hs.size() - drop);
        PBT_CHECK(reg.alive[0] && obj->reference_count() == hs.size() + 1, "C12/count-mismatch", "after dropping " << drop << " handles reference_count()=" << obj->reference_count() << " expected " << hs.size() + 1);
        root.reset(); // the original owner lets go first
        if (!hs.empty()) {
            PBT_CHECK(reg.alive[0] && reg.destroyed[0] == 0, "C12/destroyed-while-referenced", "object destroyed although " << hs.size() << " handles remain");
            PBT_CHECK(obj->reference_count() == hs.size(), "C12/count-mismatch", "reference_count()=" << obj->reference_count() << " expected " << hs.size());
            // all but one
            H last = hs.back();
            hs.clear();
            PBT_CHECK(reg.alive[0] && last.unique(), "C12/count-mismatch", "one handle left but unique() is false / object gone");
        }
    }
    PBT_CHECK(!reg.alive[0] && reg.destroyed[0] == 1, "C12/leak-or-double", "object alive=" << reg.alive[0] << " destroyed=" << reg.destroyed[0] << " after all handles are gone");
    if (n >= 254) pbt::nontrivial();
}

// ------------------------------------------------------------------ concurrent

namespace {

using Thread = tlx::std::thread;

#define SCHED_CHECK(cond, lab, msgexpr)                                   \
    do {                                                                  \
        if (!(cond)) {                                                    \
            ::std::ostringstream os_;                                     \
            os_ << msgexpr << " | threads:" << vsched::S().describe();    \
            ::pbt::fatal(lab, os_.str());                                 \
        }                                                                 \
    } while (0)

struct Conc {
    int sure_handles = 0; // handles that certainly exist: counted after acquisition, un-counted BEFORE release
    int destroyed = 0;
    int copies_made = 0, copies_destroyed = 0; // private copies created by unify()
} conc;

struct Shared : public tlx::ReferenceCounter {
    unsigned canary = 0xFEEDu;
    bool is_root; // the one object whose handles are accounted in conc.sure_handles; unify() makes private copies
    Shared() : is_root(true) {}
    //! unify() copy-constructs a private copy from the shared object: the source must stay alive for the whole
    //! copy (the unifying handle still refers to it), also when every OTHER owner lets go meanwhile
    Shared(const Shared& o) : tlx::ReferenceCounter(o), is_root(false) {
        vsched::obs("copying-shared-object");
        if (o.canary != 0xFEEDu) pbt::fatal("C12/destroyed-while-referenced", "shared object was destroyed while unify() of a handle that still referred to it was copying it");
        vsched::obs("copied-shared-object");
        conc.copies_made++;
    }
    ~Shared() {
        if (canary != 0xFEEDu) pbt::fatal("C12/double-destroy", "shared object destroyed twice");
        canary = 0;
        if (!is_root) {
            conc.copies_destroyed++;
            return;
        }
        if (conc.sure_handles != 0) {
            std::ostringstream os;
            os << "shared object destroyed while " << conc.sure_handles << " handle(s) still own it";
            pbt::fatal("C12/destroyed-while-referenced", os.str());
        }
        conc.destroyed++;
    }
};
using SH = tlx::CountingPtr<Shared>;

enum COp { C_COPY_DROP, C_COPY_ASSIGN, C_MOVE_AROUND, C_EXTRA_COPY, C_UNIFY_OWN, C_UNIFY_COPY, C_SWAP_DROP, C_NOPS };

void acquire_note() {
    vsched::obs("acquired");
    conc.sure_handles++;
}
void release_note() {
    vsched::obs("about-to-release");
    conc.sure_handles--;
}

} // namespace

namespace {
//! run one concurrent scenario; the caller has started the scheduler run
void conc_execute(const std::vector<std::vector<int>>& scripts, int main_delay) {
    conc = Conc();
    const int nthreads = (int)scripts.size();
    vsched::Atomic<int> dummy(0);
    {
        SH root(new Shared());
        const Shared* rootp = root.get();
        conc.sure_handles = 1;
        std::vector<Thread> th;
        for (int t = 0; t < nthreads; ++t) {
            // the thread receives its own handle (copied on the creating thread)
            SH mine(root);
            conc.sure_handles++;
            th.emplace_back([&scripts, &dummy, t, rootp, own = std::move(mine)]() mutable {
                // own_root: `own` refers to the accounted root object (false once unify() gave it a private copy;
                // the notes below concern only handles of the root)
                bool own_root = true;
                for (int op : scripts[(size_t)t]) {
                    switch (op) {
                    case C_COPY_DROP: {
                        SH c(own);
                        if (own_root) acquire_note();
                        (void)dummy.load();
                        if (own_root) release_note();
                        c.reset();
                        break;
                    }
                    case C_COPY_ASSIGN: {
                        SH c;
                        c = own;
                        if (own_root) acquire_note(), release_note();
                        c = SH(); // move-assign an empty handle: releases
                        break;
                    }
                    case C_MOVE_AROUND: {
                        SH c(std::move(own));
                        own = std::move(c);
                        break;
                    }
                    case C_UNIFY_OWN: {
                        // the thread's only handle becomes the owner of a private copy (or stays, if it is the
                        // last owner by now): all other owners live in OTHER threads and may let go meanwhile
                        if (own_root) release_note();
                        own.unify();
                        SCHED_CHECK(own.get() != nullptr && own.unique(), "C12/unify-not-unique", "after unify() the handle is not the only owner of its object");
                        if (own_root && own.get() == rootp) acquire_note(); // was the last owner: nothing copied
                        else own_root = false;
                        break;
                    }
                    case C_UNIFY_COPY: {
                        SH c(own);
                        c.unify(); // own still refers to the source: always a copy
                        SCHED_CHECK(c.get() != own.get() && c.unique(), "C12/unify-not-unique", "unify() of a second handle did not produce a private object");
                        break;
                    }
                    case C_SWAP_DROP: {
                        SH c(own), e;
                        if (own_root) acquire_note();
                        c.swap(e); // e owns, c empty
                        std::swap(c, e); // back (move construction + two move assignments)
                        if (own_root) release_note();
                        c = SH();
                        break;
                    }
                    default: {
                        SH c(own), e(c);
                        if (own_root) acquire_note(), acquire_note(), release_note();
                        c.reset();
                        if (own_root) release_note();
                        // e released by scope exit
                    }
                    }
                }
                if (!own_root) return;
                release_note(); // `own` is released when the thread's callable is destroyed
            });
        }
        for (int i = 0; i < main_delay; ++i) (void)dummy.load();
        release_note();
        root.reset(); // the creator lets go at a generated point
        for (auto& t : th) t.join();
    }
    SCHED_CHECK(conc.destroyed == 1, "C12/destroy-count", "shared object destroyed " << conc.destroyed << " times after all handles are gone");
    SCHED_CHECK(conc.sure_handles == 0, "harness/handle-accounting", "sure_handles=" << conc.sure_handles);
    SCHED_CHECK(conc.copies_made == conc.copies_destroyed, "C12/destroy-count", "unify() made " << conc.copies_made << " private copies, " << conc.copies_destroyed << " were destroyed after all handles are gone");
}
} // namespace

PBT_PROPERTY(counting_ptr_conc) {
    int nthreads = (int)src.range(2, 3);
    std::vector<std::vector<int>> scripts((size_t)nthreads);
    for (auto& sc : scripts) {
        int n = (int)src.range(1, 4);
        for (int i = 0; i < n; ++i) sc.push_back((int)src.range(0, C_NOPS - 1));
    }
    int main_delay = (int)src.range(0, 3);
    PBT_LOG("threads=" << nthreads << " main_delay=" << main_delay << "\n");
    vsched::Run run(src);
    conc_execute(scripts, main_delay);
    if (vsched::S().preemptions >= 2) pbt::nontrivial();
    PBT_LOG("steps=" << vsched::S().steps << " preemptions=" << vsched::S().preemptions << "\n");
}

// Bounded-exhaustive exploration (thorough): every schedule with <= bound preemptions of fixed templates
#include "../engine/sched/explore.hpp"
namespace {
struct ConcTemplate {
    const char* name;
    unsigned bound;
    int main_delay;
    std::vector<std::vector<int>> scripts;
};
const std::vector<ConcTemplate>& conc_templates() {
    static const std::vector<ConcTemplate> T = {
        {"2 threads: copy+drop | copy+drop, creator drops immediately", 4, 0, {{C_COPY_DROP}, {C_COPY_DROP}}},
        {"2 threads: copy-assign | move-around, creator drops after 1 step", 4, 1, {{C_COPY_ASSIGN}, {C_MOVE_AROUND}}},
        {"2 threads: two copies | copy+drop", 3, 0, {{C_EXTRA_COPY}, {C_COPY_DROP}}},
        {"3 threads: copy+drop each", 3, 0, {{C_COPY_DROP}, {C_COPY_DROP}, {C_COPY_DROP}}},
        {"2 threads: unify own | copy+drop, creator drops immediately", 4, 0, {{C_UNIFY_OWN}, {C_COPY_DROP}}},
        {"2 threads: unify own | unify own, creator drops after 1 step", 4, 1, {{C_UNIFY_OWN}, {C_UNIFY_OWN}}},
        {"2 threads: unify a copy | swap+drop", 3, 0, {{C_UNIFY_COPY}, {C_SWAP_DROP}}},
    };
    return T;
}
} // namespace

PBT_PROPERTY(counting_ptr_exhaustive) {
    uint64_t idx = src.bits(8), total = src.bits(8);
    const size_t NT = conc_templates().size();
    if (total == 0) total = NT, idx = 0;
    uint8_t none = 0;
    bool was_verbose = pbt::ctx().verbose;
    for (uint64_t t = idx; t < NT; t += total) {
        const ConcTemplate& T = conc_templates()[t];
        vsched::Explorer ex(T.bound, 30000000);
        pbt::ctx().verbose = false;
        uint64_t n = ex.explore([&](vsched::Explorer& e) {
            pbt::Source dummy(&none, 0);
            vsched::Run run(dummy);
            e.install();
            conc_execute(T.scripts, T.main_delay);
        });
        pbt::ctx().verbose = was_verbose;
        pbt::count(n);
        PBT_LOG("template " << t << " (" << T.name << "): " << n << " schedules with <= " << T.bound << " preemptions, complete=" << ex.complete << "\n");
        if (!ex.complete) pbt::inconclusive();
    }
    pbt::label("template");
    pbt::nontrivial();
}
