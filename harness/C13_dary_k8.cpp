// C13 (scale classes) — DAryHeap<uint8_t, 1..8, {less, greater, priority table}> instantiations
#include "C13_dary_scale_impl.hpp"
namespace c13 {
IDary* make_dary_u8(unsigned arity, unsigned ck, const std::vector<int>* prio) {
    switch (arity) {
    case 1: return make_dary8_a<1>(ck, prio);
    case 2: return make_dary8_a<2>(ck, prio);
    case 3: return make_dary8_a<3>(ck, prio);
    case 4: return make_dary8_a<4>(ck, prio);
    case 5: return make_dary8_a<5>(ck, prio);
    case 6: return make_dary8_a<6>(ck, prio);
    case 7: return make_dary8_a<7>(ck, prio);
    default: return make_dary8_a<8>(ck, prio);
    }
}
} // namespace c13
