// C17 (part 2) — SplayTree<int, less|greater, set|multiset, CountingAllocator> instantiations
#include "C17_splay_impl.hpp"

namespace c17 {
C17_ROB(int, std::less, false)
C17_ROB(int, std::less, true)
C17_ROB(int, std::greater, false)
C17_ROB(int, std::greater, true)

ISplay* make_splay_int(unsigned kind) {
    switch (kind & 3) {
    case 0: return new SplayImpl<int, std::less<int>, false>();
    case 1: return new SplayImpl<int, std::less<int>, true>();
    case 2: return new SplayImpl<int, std::greater<int>, false>();
    default: return new SplayImpl<int, std::greater<int>, true>();
    }
}
} // namespace c17
