// C17 (part 2) — SplayTree<Tracked, less|greater, set|multiset, CountingAllocator> instantiations
#include "C17_splay_impl.hpp"

namespace c17 {
using verif::Tracked;
C17_ROB(Tracked, std::less, false)
C17_ROB(Tracked, std::less, true)
C17_ROB(Tracked, std::greater, false)
C17_ROB(Tracked, std::greater, true)

ISplay* make_splay_tracked(unsigned kind) {
    switch (kind & 3) {
    case 0: return new SplayImpl<Tracked, std::less<Tracked>, false>();
    case 1: return new SplayImpl<Tracked, std::less<Tracked>, true>();
    case 2: return new SplayImpl<Tracked, std::greater<Tracked>, false>();
    default: return new SplayImpl<Tracked, std::greater<Tracked>, true>();
    }
}
} // namespace c17
