// C15 (types) — family 2, configurations 3..5 (see C15_types_impl.hpp)
#include "C15_types_impl.hpp"
void c15_types_fam2_b(int cfg, const c15t::Case& c) { c15t::types_family_b<2>(cfg, c); }
