// C03 — suffix representation, entry points with LCP output
#define C03_WITH_LCP 1
#include "C03_rep_suffix_impl.hpp"
