// C13 (types) — DAryAddressableIntHeap with state-owning comparators, arity 1..4
#include "C13_addressable_types_impl.hpp"
namespace c13 {
IAddr* make_addr_x_lo(unsigned arity, unsigned ck, const std::vector<int>* prio) {
    switch (arity) {
    case 1: return make_addr_x<1>(ck, prio);
    case 2: return make_addr_x<2>(ck, prio);
    case 3: return make_addr_x<3>(ck, prio);
    default: return make_addr_x<4>(ck, prio);
    }
}
} // namespace c13
