// C15 (types) — family 2, zero-one sweeps per comparator kind (see C15_types_impl.hpp)
#include "C15_types_impl.hpp"
void c15_zero_one_cmp_fam2(int kind, int mode, int n, uint32_t first, uint32_t last) { c15t::zero_one_cmp_family<2>(kind, mode, n, first, last); }
