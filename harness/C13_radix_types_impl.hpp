// C13 (types) — tlx::RadixHeap with payload types that OWN memory: RadixHeapPair<K, std::string, R> and
// RadixHeap<Rec, KeyOf, K, R> with Rec = {std::string, K, verif::Tracked} and a key extractor that owns a
// std::function (non-trivial copy/move). Same type-erased interface as C13_radix_impl.hpp (keys as ranks, payload =
// identity number), plus the aliasing inserts (h.push(h.top()), push_to_bucket / emplace_in_bucket / emplace with a
// reference to the heap's own top element) and more copy / move / swap round trips.
#pragma once
#include "../engine/pbt.hpp"
#include "../engine/tracked.hpp"

#include <functional>
#include <string>

#include "C13_radix_impl.hpp"

namespace c13 {

static const int BAD_ID = -7777;

inline std::string radix_pay(int id) {
    std::string s = "id" + std::to_string(id) + ":";
    s.append((size_t)((unsigned)id * 5u % 37u), '+'); // 0..36 pad chars: small-buffer and heap-owning strings
    return s;
}
inline int radix_pay_id(const std::string& s) {
    if (s.size() < 4 || s[0] != 'i' || s[1] != 'd') return BAD_ID;
    size_t p = s.find(':');
    if (p == std::string::npos || p < 3 || p > 12) return BAD_ID;
    int id = 0;
    for (size_t i = 2; i < p; ++i) {
        if (s[i] < '0' || s[i] > '9') return BAD_ID;
        id = id * 10 + (s[i] - '0');
    }
    return s == radix_pay(id) ? id : BAD_ID; // a moved-from (empty) or mangled string is not a payload
}

//! payload policy 1: std::pair<K, std::string>
template <class K, unsigned R>
struct StrPay {
    typedef std::pair<K, std::string> Value;
    typedef tlx::RadixHeapPair<K, std::string, R> Heap;
    static const bool stateless_extract = true;
    static Heap fresh() { return Heap(); }
    static Value make(K k, int id) { return Value(k, radix_pay(id)); }
    static K key_of(const Value& v) { return v.first; }
    static int id_of(const Value& v) { return radix_pay_id(v.second); }
    //! the payload argument of the emplace family in three value categories (chosen by the identity number):
    //! rvalue, const lvalue, NON-CONST lvalue — the last one must be copied, the caller's string keeps its value
    template <class F>
    static auto with_payload(int id, F f) -> decltype(f(std::declval<std::string&>())) {
        if (id % 3 == 0) return f(radix_pay(id));
        if (id % 3 == 1) {
            const std::string s = radix_pay(id);
            return f(s);
        }
        std::string s = radix_pay(id);
        struct Check {
            std::string& s;
            int id;
            ~Check() noexcept(false) {
                if (s != radix_pay(id)) pbt::fatal("C13/radix-lvalue-argument-changed", "the caller's non-const lvalue payload argument of an emplace was modified (moved from): now '" + s + "'");
            }
        } chk{s, id};
        return f(s);
    }
    static size_t emplace(Heap& h, K k, int id) {
        return with_payload(id, [&](auto&& s) { return h.emplace(k, k, std::forward<decltype(s)>(s)); });
    }
    static size_t emplace_keyfirst(Heap& h, K k, int id) {
        return with_payload(id, [&](auto&& s) { return h.emplace_keyfirst(k, std::forward<decltype(s)>(s)); });
    }
    static void emplace_in_bucket(Heap& h, size_t idx, K k, int id) {
        with_payload(id, [&](auto&& s) { h.emplace_in_bucket(idx, k, std::forward<decltype(s)>(s)); return 0; });
    }
    static const char* name() { return "RadixHeapPair<K, std::string>"; }
};

//! payload policy 2: a record owning a string and a Tracked; the key is extracted by a functor owning a std::function
template <class K>
struct RadixRec {
    std::string data;
    K key;
    verif::Tracked t;
    RadixRec(K k, int id) : data(radix_pay(id)), key(k), t(id) {}
};
template <class K>
struct RadixRecKey {
    std::function<K(const RadixRec<K>&)> f; // moved-from: empty -> std::bad_function_call
    K operator()(const RadixRec<K>& r) const { return f(r); }
};
template <class K, unsigned R>
struct RecPay {
    typedef RadixRec<K> Value;
    typedef RadixRecKey<K> Extract;
    typedef tlx::RadixHeap<Value, Extract, K, R> Heap;
    static const bool stateless_extract = false;
    static Extract extract() {
        std::array<int, 8> ballast = {{1, 2, 3, 4, 5, 6, 7, 8}}; // too large for the in-place buffer of std::function
        return Extract{[ballast](const Value& r) -> K { return ballast[7] == 8 ? r.key : K(); }};
    }
    static Heap fresh() { return Heap(extract()); }
    static Value make(K k, int id) { return Value(k, id); }
    static K key_of(const Value& v) { return v.key; }
    static int id_of(const Value& v) {
        int id = radix_pay_id(v.data);
        return id != BAD_ID && v.t.value() == id ? id : BAD_ID;
    }
    static size_t emplace(Heap& h, K k, int id) { return h.emplace(k, k, id); }
    static size_t emplace_keyfirst(Heap& h, K k, int id) { return h.emplace_keyfirst(k, id); }
    static void emplace_in_bucket(Heap& h, size_t idx, K k, int id) { h.emplace_in_bucket(idx, k, id); }
    static const char* name() { return "RadixHeap<record{std::string,K,Tracked}, functor owning std::function>"; }
};

template <class K, unsigned R, class P>
struct RadixImplP : IRadix {
    typedef typename std::make_unsigned<K>::type UK;
    typedef std::numeric_limits<K> lim;
    typedef typename P::Value Value;
    typedef typename P::Heap Heap;
    Heap h;
    std::vector<Value> ex; // exchange bucket, reused (cleared, capacity kept) across swap_top_bucket calls
    RadixImplP() : h(P::fresh()) {}
    static uint64_t rank(K k) { return (UK)((UK)k - (UK)lim::min()); }
    static K unrank(uint64_t r) { return (K)(UK)((UK)r + (UK)lim::min()); }
    static RV dec(const Value& v) { return RV(rank(P::key_of(v)), P::id_of(v)); }
    size_t insert(unsigned how, uint64_t r, int id) override {
        K k = unrank(r);
        switch (how) {
        case 0: {
            const Value v = P::make(k, id);
            size_t idx = h.push(v);
            PBT_CHECK(dec(v) == RV(r, id), "C13/radix-push-arg", "push(const value_type&) changed its argument");
            return idx;
        }
        case 1: return P::emplace(h, k, id);
        case 2: return P::emplace_keyfirst(h, k, id);
        case 3: {
            const Value v = P::make(k, id);
            size_t idx = h.get_bucket(v);
            h.push_to_bucket(idx, v);
            PBT_CHECK(dec(v) == RV(r, id), "C13/radix-push-arg", "push_to_bucket(idx, const value_type&) changed its argument");
            return idx;
        }
        default: {
            size_t idx = h.get_bucket_key(k);
            P::emplace_in_bucket(h, idx, k, id);
            return idx;
        }
        }
    }
    //! insert a copy of the heap's own top element, passing the reference top() returned
    RV insert_top(unsigned how) override {
        const Value& t = h.top();
        RV r = dec(t); // decoded before the insertion: it may invalidate the reference
        switch (how) {
        case 0: h.push(t); break;
        case 1: {
            size_t idx = h.get_bucket(t);
            h.push_to_bucket(idx, t);
            break;
        }
        case 2: {
            size_t idx = h.get_bucket(t);
            h.emplace_in_bucket(idx, t);
            break;
        }
        default: {
            K k = P::key_of(t);
            h.emplace(k, t);
            break;
        }
        }
        return r;
    }
    RV top() override { return dec(h.top()); }
    void pop() override { h.pop(); }
    void swap_top_bucket(std::vector<RV>& out) override {
        ex.clear(); // the exchange bucket has to be empty; its capacity goes into the heap
        h.swap_top_bucket(ex);
        for (const Value& v : ex) out.push_back(dec(v));
    }
    uint64_t peak_top_rank() override { return rank(h.peak_top_key()); }
    size_t size() override { return h.size(); }
    bool empty() override { return h.empty(); }
    void clear() override { h.clear(); }
    void copy_move(unsigned how) override {
        const size_t n0 = h.size();
        switch (how) {
        case 0: {
            Heap c(h);
            h.clear();
            h = std::move(c);
            break;
        }
        case 1: {
            Heap m(std::move(h));
            h = m;
            break;
        }
        case 2: {
            Heap c(P::fresh());
            c.push(P::make(lim::max(), 0));
            c = h;
            h = c;
            break;
        }
        case 3: { // an independent copy: changing the copy must not change the original
            Heap c(h);
            PBT_CHECK(c.size() == n0, "C13/radix-copy", "copy has size " << c.size() << ", original " << n0);
            if (!c.empty()) c.pop();
            c.push(P::make(lim::max(), 0));
            c.push(c.top());
            c.clear();
            break;
        }
        case 4: {
            Heap& self = h;
            h = self;
            break;
        }
        case 5: {
            Heap o(P::fresh());
            o.push(P::make(lim::max(), 0));
            std::swap(h, o);
            PBT_CHECK(h.size() == 1 && o.size() == n0 && dec(h.top()) == RV(rank(lim::max()), 0), "C13/radix-swap",
                      "after std::swap: sizes " << h.size() << "/" << o.size() << ", expected 1/" << n0);
            std::swap(o, h);
            break;
        }
        default: { // move away, give the moved-from heap a defined state again, use it, move back
            Heap m(std::move(h));
            if (P::stateless_extract) h.clear(); // clear() resets everything a moved-from heap has
            else h = P::fresh();                 // the key extractor was moved from as well
            PBT_CHECK(h.empty() && h.size() == 0, "C13/radix-after-move", "moved-from heap not empty after clear()/assignment: size " << h.size());
            h.push(P::make(lim::max(), 2));
            h.push(P::make(lim::min(), 1));
            PBT_CHECK(h.size() == 2 && h.peak_top_key() == lim::min() && dec(h.top()) == RV(0, 1), "C13/radix-after-move",
                      "reused moved-from heap: size " << h.size() << ", wrong top after pushing the type's min and max");
            h = std::move(m);
            break;
        }
        }
        PBT_CHECK(h.size() == n0, "C13/radix-copy", "copy/move/swap round trip " << how << " changed the size from " << n0 << " to " << h.size());
    }
    long long show(uint64_t r) override { return (long long)unrank(r); }
};

// cfg 0..7: (key type, radix, payload policy); defined in C13_radix_types_{a,b}.cpp
IRadix* make_radix_types_a(unsigned cfg); // 0..3: RadixHeapPair<K, std::string, R>
IRadix* make_radix_types_b(unsigned cfg); // 4..7: RadixHeap<record, functor, K, R>

} // namespace c13
