// C05 — plain int, std::vector iterators, std::less (also the defaulted comparator argument), stable entry points
#include "C05_merge.hpp"

namespace c05 {
void run_int_less_s(pbt::Source& src, const Cfg& cfg) { run_case<int, false, true>(src, cfg, std::less<int>()); }
} // namespace c05
