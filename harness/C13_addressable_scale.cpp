// C13 (part 2, scale classes) — tlx::DAryAddressableIntHeap over the SCALE dimensions that the byte-by-byte history
// in C13_addressable.cpp does not reach: the key type (uint8_t / uint16_t / uint32_t / uint64_t), key universes that
// fill a narrow key type completely (all 255 keys of uint8_t, all 65535 keys of uint16_t; the value KeyType(-1) is
// reserved by the class), universes beyond 2^16 for the wide types, keys at the top of the type or spread with a
// stride, heaps of thousands of elements, sizes around k*arity + {-1,0,1} and around complete levels, and histories
// that keep the heap (nearly) full while priorities change (postpone the top, random updates, remove + re-push).
//
// A case = selectors and an operation list from the choice bytes; each operation is a *burst* of up to 64
// elementary operations whose keys / priorities are expanded from a 32-bit seed by a local PRNG (HARNESS_GUIDE: big
// inputs are seed + shape parameters).  The oracle is the one of C13_addressable.cpp (size, empty, top is a stored
// minimal key, contains(), sanity_check(), final drain sorted and a permutation) with a model that answers "minimal
// priority" in O(log n).  Affordability: after every elementary operation size / top / contains of the touched and of
// a few sampled keys are checked; contains() of EVERY key of the key range and sanity_check() run after every
// elementary operation for key ranges <= 600, every 8th for <= 6000, every 64th above, and always after
// build_heap / update_all / clear / copy / reserve / a series of edge probes and before the final drain.  Heaps of more
// than 4096 keys are drained completely in one case out of four, otherwise for a checked prefix (<= 2048 extractions).
// Arity 1 (a sorted list, O(n) per operation) stores at most ~3000 keys of the (possibly larger) universe.
#include "../engine/pbt.hpp"

#include <algorithm>
#include <climits>
#include <cstdint>
#include <memory>
#include <functional>
#include <vector>

#include "C13_addressable_scale_impl.hpp"

namespace {

using c13::IAddrS;
typedef uint64_t Key;

struct Rng {
    uint64_t s;
    uint64_t next() {
        uint64_t z = (s += 0x9E3779B97F4A7C15ull);
        z = (z ^ (z >> 30)) * 0xBF58476D1CE4E5B9ull;
        z = (z ^ (z >> 27)) * 0x94D049BB133111EBull;
        return z ^ (z >> 31);
    }
    uint64_t below(uint64_t n) { return n ? next() % n : 0; }
};

const uint32_t NP = 0xffffffffu;

//! sizes s with a complete last level (+-1 chosen by the caller): 1, 1+A, 1+A+A^2, ...
std::vector<size_t> level_sizes(unsigned A, size_t limit) {
    std::vector<size_t> v;
    size_t s = 0, w = 1;
    while (true) {
        s += w;
        if (s > limit + 1) break;
        v.push_back(s);
        if (A == 1) {
            if (v.size() >= 24) break;
        } else w *= A;
    }
    return v;
}

} // namespace

PBT_PROPERTY(addressable_scale) {
    // ---- selectors (all drawn first) ----
    const unsigned sc = (unsigned)src.weighted({10, 5, 4, 9, 2, 1});
    const unsigned A = 1 + (unsigned)src.range(0, 7);
    static const unsigned CKMAP[] = {2, 0, 1};
    const unsigned ck = CKMAP[src.weighted({4, 2, 1})]; // external priority table, less, greater
    unsigned mm = (unsigned)src.range(0, 2);            // key mapping: identity, top of the type, stride
    const unsigned fc0 = (unsigned)src.weighted({4, 3, 3, 2, 1});
    const unsigned fm = (unsigned)src.range(0, 3);  // build_heap x3, pushes
    const unsigned ord = (unsigned)src.range(0, 2); // initial key order: random, best first, worst first
    const unsigned pr = (unsigned)src.weighted({2, 2, 2});
    Rng rng{src.bits(4) * 0x9E3779B97F4A7C15ull + 1};
    const unsigned drain_sel = (unsigned)src.range(0, 3); // heaps > 4096: 3 = drain completely, else a prefix of 512*sel + 1..512
    const bool table = ck == 2;

    // ---- key type and universe ----
    unsigned kt; // 0 u8, 1 u16, 2 u32, 3 u64
    size_t U;
    switch (sc) {
    case 0: kt = 0, U = 255, mm = 0; break;
    case 1: kt = 0, U = 255 - (size_t)src.range(1, 12); break;
    case 2: kt = 0, U = (size_t)src.range(1, 40); break;
    case 3: kt = 1 + (unsigned)src.range(0, 2), U = 21 + (size_t)src.range(0, 2979); break;
    case 4: { // all 65535 keys in about half of the cases, else 1..10 fewer
        size_t d = (size_t)src.range(0, 19);
        kt = 1, U = 65535 - (d < 10 ? 0 : d - 9);
        break;
    }
    default: kt = 2 + (unsigned)src.boolean(), U = 65536 + (size_t)src.range(0, 4463), mm = 0; break;
    }
    static const Key KMAXV[] = {0xffu, 0xffffu, 0xffffffffu, ~(Key)0};
    const Key KMAX = KMAXV[kt];                         // == not_present(), never a key
    const Key KCAP = kt <= 1 ? KMAX - 1 : (Key)69999;   // largest key this harness uses (memory: handles_ is indexed by key)
    std::vector<Key> ukeys(U);
    if (mm == 2 && (U < 2 || (KCAP / (U - 1)) < 2)) mm = 1;
    {
        const Key stride = mm == 2 ? KCAP / (U - 1) : 1;
        for (size_t i = 0; i < U; ++i) ukeys[i] = mm == 0 ? (Key)i : mm == 1 ? KCAP - (Key)i : (Key)i * stride;
    }
    const Key KTOP = *std::max_element(ukeys.begin(), ukeys.end());
    const Key CEND = std::min<Key>(KTOP + 3, KMAX); // contains() is compared with the model for all keys 0..CEND
    std::vector<int32_t> kidx((size_t)CEND + 1, -1);
    for (size_t i = 0; i < U; ++i) kidx[(size_t)ukeys[i]] = (int32_t)i;
    const unsigned heavy_every = KTOP <= 600 ? 1 : KTOP <= 6000 ? 8 : 64;
    const unsigned max_sub = KTOP <= 6000 ? 1200 : 400;
    const unsigned HEAVY_OP = KTOP <= 6000 ? 8 : 40; // budget units of an operation that costs O(size of the key range)

    static const char* const SCL[] = {"sc=u8_all_255_keys", "sc=u8_nearly_all_keys", "sc=u8_small_universe", "sc=medium_21..3000",
                                      "sc=u16_(nearly)_all_65535_keys", "sc=wide_key_universe>65536"};
    static const char* const KL[] = {"key=uint8", "key=uint16", "key=uint32", "key=uint64"};
    static const char* const AL[] = {"", "arity=1", "arity=2", "arity=3", "arity=4", "arity=5", "arity=6", "arity=7", "arity=8"};
    static const char* const CL[] = {"cmp=less", "cmp=greater", "cmp=table"};
    static const char* const ML[] = {"map=identity", "map=top_of_type", "map=stride"};
    pbt::label(SCL[sc]);
    pbt::label(KL[kt]);
    pbt::label(AL[A]);
    pbt::label(CL[ck]);
    pbt::label(ML[mm]);

    // ---- priorities ----
    int clock = 1000000; // pr == 2: "postpone" gives strictly growing priorities (scheduling loop)
    auto gen_prio = [&]() -> int {
        switch (pr) {
        case 0: return (int)rng.below(7);
        case 1: return (int)rng.below(1001);
        default: {
            static const int EX[] = {INT_MIN, INT_MAX, INT_MIN + 1, INT_MAX - 1, 0, -1};
            uint64_t r = rng.below(16);
            return r < 1 ? EX[rng.below(6)] : (int)rng.below(1000000);
        }
        }
    };
    std::vector<int> prio((size_t)KTOP + 1, 0);
    if (table)
        for (size_t i = 0; i < U; ++i) prio[(size_t)ukeys[i]] = gen_prio();
    auto pv = [&](Key k) -> int64_t { return ck == 0 ? (int64_t)k : ck == 1 ? -(int64_t)k : (int64_t)prio[(size_t)k]; };

    std::unique_ptr<IAddrS> hp(kt == 0   ? c13::make_addrs_u8(A, ck, &prio)
                               : kt == 1 ? c13::make_addrs_u16(A, ck, &prio)
                               : kt == 2 ? c13::make_addrs_u32(A, ck, &prio)
                                         : c13::make_addrs_u64(A, ck, &prio));
    IAddrS& h = *hp;
    PBT_LOG("DAryAddressableIntHeap<" << (KL[kt] + 4) << "_t, " << A << ", " << (CL[ck] + 4) << "> universe of " << U << " keys ("
                                      << (ML[mm] + 4) << ", largest " << KTOP << ") prio class " << pr << " seed state " << rng.s << "\n");

    // ---- model: present universe indices (O(1) sampling) + min-heap of (priority value, key) with lazy deletion ----
    std::vector<uint32_t> plist, alist(U), ppos(U, NP), apos(U);
    for (size_t i = 0; i < U; ++i) alist[i] = (uint32_t)i, apos[i] = (uint32_t)i;
    typedef std::pair<int64_t, Key> PVK;
    std::vector<PVK> lz; // std::push_heap / pop_heap with std::greater: front() is the smallest entry
    auto present = [&](size_t i) { return ppos[i] != NP; };
    auto lz_push = [&](Key k) {
        lz.push_back(PVK(pv(k), k));
        std::push_heap(lz.begin(), lz.end(), std::greater<PVK>());
    };
    //! smallest (priority value, key) of the stored keys; an entry is stale if the key was removed or its priority changed
    //! (every stored key always has one entry with its current priority value)
    auto lz_min = [&]() -> PVK {
        while (true) {
            const PVK e = lz.front();
            if (present((size_t)kidx[(size_t)e.second]) && pv(e.second) == e.first) return e;
            std::pop_heap(lz.begin(), lz.end(), std::greater<PVK>());
            lz.pop_back();
        }
    };
    auto m_add = [&](size_t i) {
        uint32_t a = apos[i], last = alist.back();
        alist[a] = last, apos[last] = a, alist.pop_back(), apos[i] = NP;
        ppos[i] = (uint32_t)plist.size(), plist.push_back((uint32_t)i);
        lz_push(ukeys[i]);
    };
    auto m_del = [&](size_t i) {
        uint32_t p = ppos[i], last = plist.back();
        plist[p] = last, ppos[last] = p, plist.pop_back(), ppos[i] = NP;
        apos[i] = (uint32_t)alist.size(), alist.push_back((uint32_t)i);
    };
    auto m_clear = [&]() {
        plist.clear(), alist.resize(U), lz.clear();
        for (size_t i = 0; i < U; ++i) alist[i] = (uint32_t)i, apos[i] = (uint32_t)i, ppos[i] = NP;
    };
    auto set_prio = [&](Key k, int p) {
        size_t i = (size_t)kidx[(size_t)k];
        prio[(size_t)k] = p;
        if (present(i)) lz_push(k);
    };
    auto msize = [&]() { return plist.size(); };
    auto uidx = [&](Key k) -> long { return k <= CEND ? (long)kidx[(size_t)k] : -1; };
    auto is_member = [&](Key k) { return uidx(k) >= 0 && present((size_t)uidx(k)); };
    auto is_min = [&](Key k) { return pv(k) == lz_min().first; };

    std::vector<Key> beyond;
    for (Key k : {(Key)1000, (Key)0x7fffffffu, (Key)0xfffffffeu, (Key)0xffffffffu, KMAX - 1, KMAX, (Key)70000, (Key)65535, (Key)65536, (Key)255, (Key)256})
        if (k <= KMAX && k > CEND) beyond.push_back(k);

    std::vector<Key> touched;
    unsigned nchecks = 0;
    bool wrapzone = false;
    auto check = [&](const char* after, bool force_heavy) {
        const size_t n = msize();
        PBT_CHECK(h.size() == n, "C13/addr-size", "after " << after << ": size() " << h.size() << " but model has " << n);
        PBT_CHECK(h.empty() == (n == 0), "C13/addr-empty", "after " << after << ": empty() " << h.empty() << ", model size " << n);
        if (n) {
            Key t = h.top();
            PBT_CHECK(is_member(t), "C13/addr-top-member", "after " << after << ": top() = " << t << " is not stored (model size " << n << ")");
            PBT_CHECK(is_min(t), "C13/addr-top-min",
                      "after " << after << ": top() = " << t << " (priority value " << pv(t) << ") is not minimal: key " << lz_min().second
                               << " has " << lz_min().first << "; size " << n);
        }
        for (Key k : touched)
            PBT_CHECK(h.contains(k) == is_member(k), "C13/addr-contains",
                      "after " << after << ": contains(" << k << ") = " << h.contains(k) << " but model says " << is_member(k));
        touched.clear();
        const bool heavy = force_heavy || (++nchecks % heavy_every) == 0;
        if (heavy) {
            for (Key k = 0;; ++k) {
                bool want = is_member(k);
                PBT_CHECK(h.contains(k) == want, "C13/addr-contains",
                          "after " << after << ": contains(" << k << ") = " << h.contains(k) << " but model says " << want << " (size " << n << ")");
                if (k == CEND) break;
            }
            for (Key k : beyond) PBT_CHECK(!h.contains(k), "C13/addr-contains", "after " << after << ": contains(" << k << ") true for a key never inserted");
            PBT_CHECK(h.sanity_check(), "C13/addr-sanity", "after " << after << ": sanity_check() false; size " << n);
        } else {
            for (unsigned j = 0; j < 4; ++j) {
                Key k = rng.below(CEND + 1);
                PBT_CHECK(h.contains(k) == is_member(k), "C13/addr-contains",
                          "after " << after << ": contains(" << k << ") = " << h.contains(k) << " but model says " << is_member(k));
            }
        }
        // scale facts about the current shape
        if (n >= 250) pbt::label("size>=250");
        if (n >= 1000) pbt::label("size>=1000");
        if (n >= 60000) pbt::label("size>=60000");
        if (n == KMAX) pbt::label("size==key_max");
        if (n >= 2) {
            size_t li = (n - 2) / A, l = A * li + 1;
            if ((n - 1) % A != 0) pbt::label("last_internal_node_partial");
            if ((Key)(l + A) > KMAX) pbt::label("child_range_end>key_max"), wrapzone = true;
        }
    };

    // ---- size classes ----
    // arity 1 is a sorted list (push / pop are O(n)): the number of STORED keys is capped there, the universe is not
    const size_t NCAP = A == 1 ? std::min<size_t>(U, 3000) : U;
    auto gen_size = [&](unsigned fc) -> size_t {
        switch (fc) {
        case 0: return NCAP;
        case 1: return NCAP - std::min<size_t>(NCAP, (size_t)src.range(0, 2 * A + 1));
        case 2: {
            size_t k = (size_t)src.range(0, (int64_t)(NCAP / A));
            long n = (long)(k * A) + (long)src.range(0, 2) - 1;
            return (size_t)std::max<long>(0, std::min<long>(n, (long)NCAP));
        }
        case 3: {
            std::vector<size_t> ls = level_sizes(A, NCAP);
            size_t s = ls[(size_t)src.range(0, 23) % ls.size()];
            long n = (long)s + (long)src.range(0, 2) - 1;
            return (size_t)std::max<long>(0, std::min<long>(n, (long)NCAP));
        }
        default: return (size_t)src.range(0, (int64_t)std::min<size_t>(NCAP, 8));
        }
    };
    //! n distinct keys of the universe: random order, best (smallest by the heap's order) first, or worst first
    auto gen_keys = [&](size_t n, unsigned order) {
        std::vector<uint32_t> perm(U);
        for (size_t i = 0; i < U; ++i) perm[i] = (uint32_t)i;
        for (size_t i = 0; i < n && i + 1 < U; ++i) std::swap(perm[i], perm[i + rng.below(U - i)]);
        std::vector<Key> v(n);
        for (size_t i = 0; i < n; ++i) v[i] = ukeys[perm[i]];
        if (order) {
            std::vector<std::pair<int64_t, Key>> t(n);
            for (size_t i = 0; i < n; ++i) t[i] = std::make_pair(pv(v[i]), v[i]);
            std::sort(t.begin(), t.end()); // keys are distinct: a total order
            for (size_t i = 0; i < n; ++i) v[i] = t[order == 2 ? n - 1 - i : i].second;
        }
        return v;
    };
    //! n distinct keys arranged as a valid heap array whose layout the harness KNOWS (used only to choose which key to
    //! operate on, never by the oracle): the keys sorted by the heap's order fill the array level by level, siblings are
    //! shuffled (build_heap and pushes in array order do not move anything, up to ties); with `steer` the smallest child
    //! of every node on the path root -> last internal node lies on that path, so that a pop sifts down to exactly the
    //! last internal node.
    auto known_layout = [&](size_t n, bool steer) {
        std::vector<Key> v = gen_keys(n, 1);
        for (size_t g = 1; g < n; g += A) {
            size_t e = std::min(n, g + A);
            for (size_t i = g; i + 1 < e; ++i) std::swap(v[i], v[i + rng.below(e - i)]);
        }
        if (steer && n >= 2)
            for (size_t c = (n - 2) / A; c > 0; c = (c - 1) / A) {
                size_t g = ((c - 1) / A) * A + 1, e = std::min(n, g + A), mi = g;
                for (size_t i = g + 1; i < e; ++i)
                    if (pv(v[i]) < pv(v[mi])) mi = i;
                std::swap(v[c], v[mi]);
            }
        return v;
    };
    auto log_keys = [&](const std::vector<Key>& v) {
        std::ostringstream os;
        os << v.size() << " keys";
        if (v.size() <= 300) {
            os << " {";
            for (size_t i = 0; i < v.size(); ++i) os << (i ? "," : "") << v[i];
            os << "}";
        }
        return os.str();
    };
    bool nt = false;
    auto do_build = [&](unsigned how, const std::vector<Key>& v) {
        static const char* const HL[] = {"build_iter", "build_copy", "build_move"};
        PBT_LOG("build_heap[" << HL[how] << "] " << log_keys(v) << (msize() ? " on non-empty" : "") << "\n");
        if (msize()) pbt::label("build_nonempty"), nt = true;
        h.build(how, v);
        m_clear();
        // bulk version of m_add for every key of v
        plist.resize(v.size()), lz.resize(v.size());
        for (size_t j = 0; j < v.size(); ++j) {
            uint32_t i = (uint32_t)kidx[(size_t)v[j]];
            plist[j] = i, ppos[i] = (uint32_t)j, lz[j] = PVK(pv(v[j]), v[j]);
        }
        std::make_heap(lz.begin(), lz.end(), std::greater<PVK>());
        alist.clear();
        for (size_t i = 0; i < U; ++i) {
            if (ppos[i] == NP) apos[i] = (uint32_t)alist.size(), alist.push_back((uint32_t)i);
            else apos[i] = NP;
        }
        pbt::label(HL[how]);
    };
    auto do_push = [&](Key k, bool mv) {
        PBT_LOG((mv ? "push(move " : "push(") << k << ")\n");
        if (mv) h.push_move(k);
        else h.push(k);
        m_add((size_t)kidx[(size_t)k]);
        touched.push_back(k);
    };

    check("construction", true);
    {
        static const char* const FL[] = {"fill=all", "fill=all_minus_few", "fill=k*arity+-1", "fill=level+-1", "fill=small"};
        pbt::label(FL[fc0]);
        size_t n0 = gen_size(fc0);
        std::vector<Key> v = gen_keys(n0, ord);
        if (fm < 3) do_build(fm, v);
        else {
            PBT_LOG("initial fill by " << n0 << " pushes\n");
            pbt::label("fill_by_push");
            for (size_t i = 0; i < v.size(); ++i) do_push(v[i], i & 1);
        }
        check("initial fill", true);
    }

    unsigned nops = 0, nsub = 0;
    while (src.more() && nops < 60 && nsub < max_sub) {
        ++nops;
        unsigned op = (unsigned)src.weighted({6, 5, 5, 3, 3, 2, 2, 2, 1, 1, 1, 8});
        unsigned m = 1 + (unsigned)src.range(0, 63);
        switch (op) {
        case 0: { // keep the heap full: the top gets a (mostly) worse priority m times
            pbt::label(table ? "burst_postpone_top" : "burst_cycle_top");
            for (unsigned j = 0; j < m && msize(); ++j, ++nsub) {
                if (table) {
                    Key t = h.top();
                    PBT_CHECK(is_member(t), "C13/addr-top-member", "top() = " << t << " is not stored");
                    int old = prio[(size_t)t], p = pr == 2 ? ++clock : gen_prio();
                    if (p < old && rng.below(4)) p = old;
                    PBT_LOG("prio[" << t << "] " << old << " -> " << p << "; update(" << t << ") [top]\n");
                    if (p != old && msize() >= 2) nt = true, pbt::label(p < old ? "update_lowered" : "update_raised");
                    set_prio(t, p);
                    h.update(t);
                    touched.push_back(t);
                    check("update(top)", false);
                } else {
                    Key t = h.extract_top();
                    PBT_LOG("extract_top() -> " << t << "\n");
                    PBT_CHECK(is_member(t), "C13/addr-extract-member", "extract_top() returned " << t << " which is not stored");
                    PBT_CHECK(is_min(t), "C13/addr-extract-min", "extract_top() returned " << t << " which is not minimal; size " << msize());
                    m_del((size_t)kidx[(size_t)t]);
                    if (msize() >= 3) nt = true;
                    touched.push_back(t);
                    check("extract_top", false);
                    do_push(ukeys[alist[rng.below(alist.size())]], j & 1);
                    check("push", false);
                }
            }
            break;
        }
        case 1: { // update(key) of random keys (mostly stored ones) after a priority change in either direction
            pbt::label("burst_update");
            for (unsigned j = 0; j < m; ++j, ++nsub) {
                size_t i = (msize() && rng.below(8)) ? plist[rng.below(msize())] : rng.below(U);
                Key k = ukeys[i];
                if (table) {
                    int old = prio[(size_t)k], p = gen_prio();
                    PBT_LOG("prio[" << k << "] " << old << " -> " << p << "; ");
                    if (present(i) && p != old && msize() >= 2) nt = true, pbt::label(p < old ? "update_lowered" : "update_raised");
                    set_prio(k, p);
                }
                PBT_LOG("update(" << k << ")" << (present(i) ? "" : " [absent: push]") << "\n");
                if (!present(i)) pbt::label("update_absent");
                h.update(k);
                if (!present(i)) m_add(i);
                touched.push_back(k);
                check("update", false);
            }
            break;
        }
        case 2: { // remove a random key, push a random absent key (possibly the same): size stays
            pbt::label("burst_remove_repush");
            for (unsigned j = 0; j < m && msize(); ++j, ++nsub) {
                size_t i = plist[rng.below(msize())];
                Key k = ukeys[i];
                PBT_LOG("remove(" << k << ")" << (k == h.top() ? " [top]" : "") << "\n");
                h.remove(k);
                m_del(i);
                if (msize() >= 3) nt = true;
                touched.push_back(k);
                check("remove", false);
                size_t i2 = rng.below(3) ? alist[rng.below(alist.size())] : i;
                if (table && rng.below(2)) set_prio(ukeys[i2], gen_prio());
                do_push(ukeys[i2], j & 1);
                check("push", false);
            }
            break;
        }
        case 3: { // pops: sizes sweep downwards through every shape of the last internal node
            pbt::label("burst_pop");
            for (unsigned j = 0; j < m && msize(); ++j, ++nsub) {
                Key t;
                if (j & 1) {
                    t = h.extract_top();
                    PBT_LOG("extract_top() -> " << t << "\n");
                    PBT_CHECK(is_member(t), "C13/addr-extract-member", "extract_top() returned " << t << " which is not stored");
                    PBT_CHECK(is_min(t), "C13/addr-extract-min", "extract_top() returned " << t << " which is not minimal; size " << msize());
                } else {
                    t = h.top();
                    PBT_LOG("pop() [top " << t << "]\n");
                    PBT_CHECK(is_member(t), "C13/addr-top-member", "top() = " << t << " is not stored");
                    h.pop();
                }
                m_del((size_t)kidx[(size_t)t]);
                if (msize() >= 3) nt = true;
                touched.push_back(t);
                check("pop", false);
            }
            break;
        }
        case 4: { // pushes of absent keys (fresh priorities): sizes sweep upwards
            pbt::label("burst_push");
            for (unsigned j = 0; j < m && !alist.empty(); ++j, ++nsub) {
                size_t i = alist[rng.below(alist.size())];
                if (table && rng.below(2)) set_prio(ukeys[i], gen_prio());
                do_push(ukeys[i], j & 1);
                check("push", false);
            }
            break;
        }
        case 5: { // removals of random keys
            pbt::label("burst_remove");
            for (unsigned j = 0; j < m && msize(); ++j, ++nsub) {
                size_t i = plist[rng.below(msize())];
                Key k = ukeys[i];
                PBT_LOG("remove(" << k << ")" << (k == h.top() ? " [top]" : "") << "\n");
                h.remove(k);
                m_del(i);
                if (msize() >= 3) nt = true;
                touched.push_back(k);
                check("remove", false);
            }
            break;
        }
        case 6: { // build_heap with a new key set (size class drawn again), also on a non-empty heap
            unsigned fc = (unsigned)src.weighted({4, 3, 3, 2, 1});
            std::vector<Key> v = gen_keys(gen_size(fc), (unsigned)src.range(0, 2));
            do_build(m % 3, v);
            nsub += HEAVY_OP;
            check("build_heap", true);
            break;
        }
        case 7: { // many priority changes, then update_all()
            if (table) {
                size_t c = (size_t)src.range(0, 255);
                for (size_t j = 0; j < c; ++j) {
                    size_t i = rng.below(U);
                    int p = gen_prio();
                    PBT_LOG("prio[" << ukeys[i] << "] = " << p << "\n");
                    if (present(i) && p != prio[(size_t)ukeys[i]]) pbt::label("update_all_changed");
                    set_prio(ukeys[i], p);
                }
            }
            PBT_LOG("update_all()\n");
            h.update_all();
            pbt::label("update_all");
            nsub += HEAVY_OP;
            check("update_all", true);
            break;
        }
        case 8:
            PBT_LOG("clear()\n");
            h.clear();
            m_clear();
            pbt::label("clear");
            nsub += HEAVY_OP / 2;
            check("clear", true);
            break;
        case 9: {
            unsigned how = m & 3;
            PBT_LOG("copy/move variant " << how << "\n");
            h.copy_move(how, ukeys[rng.below(U)]);
            pbt::label("copy_move");
            nsub += HEAVY_OP;
            check("copy/move", true);
            break;
        }
        case 11: {
            // edge probes: a heap with known array layout (size class drawn again), then operations on the keys that sit
            // at the last internal node (1..arity children), its neighbours, the last leaf, the root, a random node
            pbt::label("edge_probes");
            unsigned fc = (unsigned)src.weighted({6, 3, 3, 2, 1});
            const bool steer = src.boolean();
            const std::vector<Key> lay = known_layout(gen_size(fc), steer);
            const size_t n = lay.size();
            if ((m & 3) == 3 && n <= 6000) {
                if (msize()) {
                    PBT_LOG("clear()\n");
                    h.clear();
                    m_clear();
                }
                PBT_LOG("known layout by " << n << " pushes in array order\n");
                pbt::label("fill_by_push");
                for (size_t i = 0; i < n; ++i) do_push(lay[i], i & 1);
            } else do_build(m % 3, lay);
            nsub += HEAVY_OP;
            check("known-layout build", true);
            if (n < 2) break;
            const size_t li = (n - 2) / A;
            size_t lo = li; // first node whose children are all leaves
            while (lo > 0 && A * (A * (lo - 1) + 1) + 1 >= n) --lo;
            unsigned c = 1 + (unsigned)src.range(0, 7);
            for (unsigned j = 0; j < c && msize(); ++j, nsub += 4) {
                unsigned pc = (unsigned)src.weighted({4, 2, 2, 2, 1, 1});
                unsigned kind = (unsigned)src.weighted({3, 2, 2, 1});
                if (j == 0 && steer) kind = 2; // the steered path is only known for the first pop
                size_t p = pc == 0 ? li : pc == 1 ? (li ? li - 1 : 0) : pc == 2 ? lo + rng.below(li - lo + 1) : pc == 3 ? n - 1 : pc == 4 ? 0 : rng.below(n);
                Key k = lay[p];
                if (!is_member(k)) continue;
                static const char* const PL[] = {"probe@last_internal", "probe@last_internal-1", "probe@parents_of_leaves", "probe@last_leaf", "probe@root", "probe@random"};
                pbt::label(PL[pc]);
                if (!table && (kind == 0 || kind == 3)) kind = 1;
                if (kind == 0 || kind == 3) {
                    int old = prio[(size_t)k], p2;
                    if (kind == 0) p2 = pr == 2 ? ++clock : INT_MAX - (int)rng.below(1000);
                    else {
                        int64_t mn = lz_min().first - 1 - (int64_t)rng.below(3);
                        p2 = mn < INT_MIN ? INT_MIN : (int)mn;
                    }
                    PBT_LOG("prio[" << k << "] " << old << " -> " << p2 << "; update(" << k << ") [array position " << p << " of " << n << "]\n");
                    if (p2 != old && msize() >= 2) nt = true, pbt::label(p2 < old ? "update_lowered" : "update_raised");
                    set_prio(k, p2);
                    h.update(k);
                } else if (kind == 1) {
                    PBT_LOG("remove(" << k << ") [array position " << p << " of " << n << "]\n");
                    h.remove(k);
                    m_del((size_t)kidx[(size_t)k]);
                    if (msize() >= 3) nt = true;
                } else {
                    Key t = h.top();
                    PBT_LOG("pop() [top " << t << "]\n");
                    PBT_CHECK(is_member(t), "C13/addr-top-member", "top() = " << t << " is not stored");
                    h.pop();
                    m_del((size_t)kidx[(size_t)t]);
                    k = t;
                    if (msize() >= 3) nt = true;
                    if (steer && j == 0) pbt::label("steered_pop_to_last_internal");
                }
                touched.push_back(k);
                check("edge probe", heavy_every == 1);
            }
            check("edge probes", true);
            break;
        }
        default: {
            size_t n = (size_t)rng.below(CEND + 1); // never beyond the checked key range
            PBT_LOG("reserve(" << n << ")\n");
            h.reserve(n);
            pbt::label("reserve");
            nsub += HEAVY_OP / 2;
            check("reserve", true);
            break;
        }
        }
    }
    check("history", true);
    if (wrapzone && nt) pbt::label("nontrivial_and_child_range_end>key_max");

    // ---- drain: every extracted key is stored and minimal (=> non-decreasing order, permutation) ----
    // (heaps of more than 4096 keys are drained completely in one case out of four, otherwise a prefix of <= 2048 keys is
    // drained and checked - the whole heap order and all handles have just been verified by sanity_check())
    size_t ndrain = msize();
    if (ndrain > 4096 && drain_sel != 3) ndrain = 512 * drain_sel + 1 + (size_t)rng.below(512), pbt::label("drain_prefix");
    else if (ndrain > 4096) pbt::label("drain_complete>4096");
    PBT_LOG("drain of " << ndrain << " of " << msize() << " keys\n");
    bool have_prev = false;
    int64_t prev = 0;
    for (; ndrain && msize(); --ndrain) {
        PBT_CHECK(!h.empty(), "C13/addr-size", "heap empty during drain but model still has " << msize() << " keys");
        Key t = h.extract_top();
        PBT_CHECK(is_member(t), "C13/addr-drain-perm", "drain produced " << t << " which is not (any more) in the model; " << msize() << " keys left");
        PBT_CHECK(!have_prev || pv(t) >= prev, "C13/addr-drain-order", "drain produced " << t << " (priority value " << pv(t) << ") after priority value " << prev);
        PBT_CHECK(is_min(t), "C13/addr-drain-order",
                  "drain produced " << t << " (priority value " << pv(t) << ") but key " << lz_min().second << " with " << lz_min().first
                                    << " is still stored; " << msize() << " keys left");
        prev = pv(t), have_prev = true;
        m_del((size_t)kidx[(size_t)t]);
        PBT_CHECK(!h.contains(t), "C13/addr-contains", "contains(" << t << ") still true after it was extracted");
        PBT_CHECK(h.size() == msize(), "C13/addr-size", "drain: size() " << h.size() << " but model has " << msize());
    }
    if (msize()) {
        check("partial drain", false);
        PBT_LOG("clear()\n");
        h.clear();
        m_clear();
        check("clear", false);
    }
    PBT_CHECK(h.empty() && h.size() == 0, "C13/addr-size", "heap not empty after draining the model: size " << h.size());
    if (nt) pbt::nontrivial();
}
