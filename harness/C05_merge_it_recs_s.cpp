// C05 — target merge_iters: RecS, stable entry points, four (input iterator kind, output iterator kind) pairs (IT_PAIR_OF_TYPE), owning comparator
#include "C05_merge.hpp"

namespace c05 {
void run_it_recs_s(pbt::Source& src, const Cfg& cfg) { run_iters<RecS, true>(src, cfg); }
} // namespace c05
