// C05 — target merge_iters: RecS, stable entry points, (input iterator kind, output iterator kind) pairs 0..3, owning comparator
#include "C05_merge.hpp"

namespace c05 {
void run_it_recs_s(pbt::Source& src, const Cfg& cfg) { run_iters<RecS, true>(src, cfg); }
} // namespace c05
