// C09 — target `loser_tree_api` (generator, drivers and oracle; one TU per value type: C09_loser_tree_api*.cpp)
// Target `loser_tree_api` (direct public API of the loser tree classes along the dimensions the
// statement quantifies over but target `loser_tree` keeps fixed). Same protocol, same winner oracle:
//
//   configurations  the eight classes named explicitly AND the public switch aliases tlx::LoserTree<Stable,T,C> /
//                   tlx::LoserTreeUnguarded<Stable,T,C> (what multiway_merge instantiates)
//   value types     8 bytes (trivial; ValueType() has key 0) | EXACTLY 16 bytes = 2*sizeof(size_t) (the boundary of the
//                   switch) | 24 bytes | 40 bytes owning a std::string longer than the SSO buffer (copy, assignment and
//                   destructor really run). The last three have an OBSERVABLE default constructor: ValueType() -- which
//                   the copy variants store for exhausted players and padding -- has a key drawn per case from
//                   -1 .. nvals (below, inside, above the range of real keys)
//   k               0 (construct + init() + destroy only: init() has an explicit k == 0 branch; no winner exists),
//                   1, 2, .. 20 (powers of two and not)
//   guarded         none / few / many / ALL players start exhausted (insert_start(nullptr, p, true) for every player)
//   unguarded       the constructor SENTINEL is
//                     (a) strictly greater than every key (what target loser_tree does), or
//                     (b) EQUIVALENT to the greatest key present: live keys equivalent to the sentinel meet the padding
//                         leaves of a non-power-of-two tree; runs of sentinel-equivalent keys end several streams, or
//                     (c) the last key of stream 0 / an arbitrary value of the key range, i.e. some live keys are
//                         GREATER than the sentinel. This is how tlx itself uses the classes: multiway_merge_loser_tree_
//                         unguarded passes "the item at the end of the first sequence" as sentinel; other sequences hold
//                         larger items (and, in the *_sentinels merges, larger end markers), and the stable COMBINED
//                         merge extracts the items of sequence 0 that are equivalent to the sentinel through the tree.
//                         In (c) the winner is only asserted while the smallest live key is strictly less than the
//                         sentinel (both kinds) or equivalent to it (stable kinds); the history ends as soon as that no
//                         longer holds -- the unstable trees may then legitimately report a padding leaf.
//                   In (a) and (b) -- no key greater than the sentinel -- the full oracle applies after every call.
//                   Pointer kinds: the sentinel object may be one of the stream elements itself (as in tlx); copy
//                   kinds: the object passed is clobbered right after construction (they are documented to copy).
//   move            trees that are move-constructible (LoserTreePointerBase declares its move constructor) are moved
//                   into a new object at a drawn point of the history (before init(), after init(), before replay #s),
//                   the old object is destroyed and the history continues on the new one.
#pragma once
#include "../engine/pbt.hpp"

#include <algorithm>
#include <cstdint>
#include <memory>
#include <string>
#include <tlx/container/loser_tree.hpp>
#include <type_traits>
#include <vector>

namespace c09api {

inline int g_default_key = 0; // key of a default-constructed K16 / K24 / KS (reset per case)

struct K8 {
    int32_t key;
    uint32_t tag; // identifies (player, position); never compared
};
static_assert(sizeof(K8) == 8, "K8");
struct K16 {
    int32_t key;
    uint32_t tag;
    uint64_t pad;
    K16() : key(g_default_key), tag(0xD0D0D0D0u), pad(0x1616161616161616ull) {}
};
static_assert(sizeof(K16) == 2 * sizeof(size_t), "K16 must sit exactly on the boundary of LoserTreeSwitch");
struct K24 {
    int32_t key;
    uint32_t tag;
    uint64_t pad[2];
    K24() : key(g_default_key), tag(0xD0D0D0D0u), pad{0x2424242424242424ull, 0x2424242424242424ull} {}
};
static_assert(sizeof(K24) == 24 && sizeof(K24) > 2 * sizeof(size_t), "K24");
struct KS {
    int32_t key;
    uint32_t tag;
    std::string payload;
    KS() : key(g_default_key), tag(0xD0D0D0D0u), payload("default-constructed-key:longer-than-the-sso-buffer") {}
};
static_assert(sizeof(KS) > 2 * sizeof(size_t), "KS");

inline void set_payload(K8&, uint32_t) {}
inline void set_payload(K16& x, uint32_t t) { x.pad = 0x1600000000000000ull | t; }
inline void set_payload(K24& x, uint32_t t) { x.pad[0] = t, x.pad[1] = ~(uint64_t)t; }
inline void set_payload(KS& x, uint32_t t) { x.payload = "key-of-player.position=" + std::to_string(t) + ":longer-than-the-sso-buffer"; }
template <class K>
K mk(int key, uint32_t tag) {
    K x;
    x.key = key;
    x.tag = tag;
    set_payload(x, tag);
    return x;
}
template <class K>
struct KName;
template <>
struct KName<K8> {
    static constexpr const char* v = "K8(8 bytes, trivial)";
};
template <>
struct KName<K16> {
    static constexpr const char* v = "K16(exactly 16 bytes)";
};
template <>
struct KName<K24> {
    static constexpr const char* v = "K24(24 bytes)";
};
template <>
struct KName<KS> {
    static constexpr const char* v = "KS(40 bytes, owns a std::string)";
};

//! work bound per library call, as in C09_loser_tree.cpp
inline long g_cmp_calls = 0, g_cmp_budget = 0;
inline void arm_budget(int k) {
    g_cmp_calls = 0;
    g_cmp_budget = 64L * 16L * ((long)k + 16);
}

template <class K>
struct DirCmp {
    bool desc;
    int salt;
    DirCmp() : desc(false), salt(0) {}
    explicit DirCmp(bool d) : desc(d), salt(0x5a17) {}
    bool operator()(const K& a, const K& b) const {
        if (salt != 0x5a17) pbt::fail("C09/comparator-lost", "tree used a comparator that is not a copy of the one passed");
        if (++g_cmp_calls > g_cmp_budget)
            pbt::fail("C09/runaway-comparisons", "more than " + std::to_string(g_cmp_budget) +
                                                     " comparator calls inside one init()/delete_min_insert() call: the loop does not terminate");
        return desc ? b.key < a.key : a.key < b.key;
    }
};

template <class K>
struct Shape {
    bool stable = false, desc = false, arbitrary = false;
    int k = 0;
    int order = 0;   // insert_start order: 0 ascending, 1 descending, 2 rotated
    int storage = 0; // pointer kinds: 0 stable arrays, 1 one slot per player refilled in place, 2 fresh heap key per feed
    int move_at = -2; // -2 never | -1 after the insert_start calls | 0 after init() | s > 0 before delete_min_insert #s
    bool sent_restrict = false; // sentinel class (c): keys greater than the sentinel exist
    int max_steps = 2000;
    std::vector<std::vector<K>> stream;
};

struct Stats {
    int replays = 0;
    bool replay_after_exhaustion = false, tie_at_winner = false, tie_lower_index_exists = false;
    bool started_exhausted = false, all_exhausted_at_start = false, drained = false, moved = false, k0 = false;
    bool winner_equiv_sentinel = false, cut_by_sentinel = false, key_beyond_sentinel_fed = false;
    int exhausted_at_start = 0;
};

template <class K>
bool kless(bool desc, const K& a, const K& b) {
    return desc ? b.key < a.key : a.key < b.key;
}

//! winner oracle (identical to C09_loser_tree.cpp)
template <class K>
void check_winner(const Shape<K>& sh, const std::vector<size_t>& cur, uint32_t w, const char* when, int step, Stats& st) {
    int live = 0;
    for (int p = 0; p < sh.k; ++p) live += cur[p] < sh.stream[p].size();
    PBT_LOG("  " << when << " #" << step << ": min_source()=" << (w == (uint32_t)-1 ? -1 : (long)w) << "\n");
    if (live == 0) return; // every player exhausted: the statement says nothing
    PBT_CHECK(w < (uint32_t)sh.k, "C09/winner-not-a-player",
              when << " #" << step << ": min_source() = " << w << " is not a player index (k = " << sh.k << ") although " << live
                   << " player(s) are live");
    PBT_CHECK(cur[w] < sh.stream[w].size(), "C09/winner-exhausted",
              when << " #" << step << ": min_source() = " << w << " is an exhausted player while " << live << " player(s) are live");
    const K& wk = sh.stream[w][cur[w]];
    int first_equiv = -1, nequiv = 0;
    for (int p = 0; p < sh.k; ++p) {
        if (cur[p] >= sh.stream[p].size()) continue;
        const K& pk = sh.stream[p][cur[p]];
        PBT_CHECK(!kless(sh.desc, pk, wk), "C09/winner-not-min",
                  when << " #" << step << ": winner " << w << " holds key " << wk.key << " but live player " << p << " holds "
                       << pk.key << " which orders before it");
        if (!kless(sh.desc, wk, pk)) { // equivalent
            if (first_equiv < 0) first_equiv = p;
            ++nequiv;
        }
    }
    if (nequiv > 1) st.tie_at_winner = true;
    if (sh.stable) {
        PBT_CHECK((int)w == first_equiv, "C09/stable-tie",
                  when << " #" << step << ": stable tree reports player " << w << " but player " << first_equiv
                       << " holds an equivalent key (" << wk.key << ") and has the smaller index");
        if (nequiv > 1) st.tie_lower_index_exists = true;
    }
}

template <class Tree>
struct IsCopyClass : std::false_type {};
template <bool S, class K, class C>
struct IsCopyClass<tlx::LoserTreeCopy<S, K, C>> : std::true_type {};
template <bool S, class K, class C>
struct IsCopyClass<tlx::LoserTreeCopyUnguarded<S, K, C>> : std::true_type {};

//! caller-side key storage: copy kinds get a scratch object that is clobbered after every call, pointer kinds one of
//! three disciplines in which only the CURRENT key pointer of each player stays valid
template <class K, bool Copying>
struct Feeder {
    const Shape<K>& sh;
    K scratch;
    std::vector<K> slot;
    std::vector<std::unique_ptr<K>> heap;
    explicit Feeder(const Shape<K>& s) : sh(s), slot((size_t)s.k), heap((size_t)s.k) {}
    const K* feed(int p, size_t pos) {
        if (pos >= sh.stream[p].size()) {
            heap[(size_t)p].reset();
            return nullptr;
        }
        if (!Copying) {
            if (sh.storage == 1) {
                slot[(size_t)p] = sh.stream[p][pos];
                return &slot[(size_t)p];
            }
            if (sh.storage == 2) {
                heap[(size_t)p].reset(new K(sh.stream[p][pos]));
                return heap[(size_t)p].get();
            }
            return &sh.stream[p][pos];
        }
        scratch = sh.stream[p][pos];
        return &scratch;
    }
    void clobber() { // would win every match if it were still referenced
        scratch.key = sh.desc ? 2000000000 : -2000000000;
        scratch.tag = 0xdeadbeef;
    }
};

template <class Tree>
void maybe_move(std::unique_ptr<Tree>& lt, bool now, Stats& st) {
    if constexpr (std::is_move_constructible<Tree>::value) {
        if (now) {
            PBT_LOG("  tree move-constructed into a new object, old object destroyed\n");
            std::unique_ptr<Tree> nt(new Tree(std::move(*lt)));
            lt = std::move(nt);
            st.moved = true;
        }
    } else {
        (void)lt, (void)now, (void)st;
    }
}

template <class Tree, class K>
void drive_guarded(const Shape<K>& sh, Stats& st) {
    constexpr bool copying = IsCopyClass<Tree>::value;
    using Source = typename Tree::Source;
    const int k = sh.k;
    arm_budget(k);
    std::unique_ptr<Tree> lt(new Tree((Source)k, DirCmp<K>(sh.desc)));
    if (k == 0) { // no player: nothing to report; init() documents this case with an explicit branch
        lt->init();
        st.k0 = true;
        return;
    }
    std::vector<size_t> cur((size_t)k, 0);
    Feeder<K, copying> fd(sh);
    int nexh = 0;
    for (int j = 0; j < k; ++j) {
        int p = sh.order == 0 ? j : sh.order == 1 ? k - 1 - j : (j + k / 2) % k;
        const K* kp = fd.feed(p, cur[p]);
        lt->insert_start(kp, (Source)p, kp == nullptr);
        fd.clobber();
        if (!kp) ++nexh;
    }
    if (nexh) st.started_exhausted = true;
    st.exhausted_at_start = nexh;
    if (nexh == k) st.all_exhausted_at_start = true;
    maybe_move(lt, sh.move_at == -1, st);
    arm_budget(k);
    lt->init();
    arm_budget(k);
    maybe_move(lt, sh.move_at == 0, st);
    check_winner(sh, cur, (uint32_t)lt->min_source(), "after init", 0, st);
    int live = k - nexh;
    bool exhausted_seen = nexh > 0;
    for (int step = 1; live > 0 && step <= sh.max_steps; ++step) {
        maybe_move(lt, sh.move_at == step, st);
        uint32_t w = (uint32_t)lt->min_source(); // checked above: a live player
        ++cur[w];
        const K* kp = fd.feed((int)w, cur[w]);
        const bool after_exhaustion = exhausted_seen;
        if (!kp) {
            --live;
            exhausted_seen = true;
        }
        PBT_LOG("  delete_min_insert(" << (kp ? std::to_string(kp->key) : std::string("nullptr, sup")) << ") for player " << w << "\n");
        lt->delete_min_insert(kp, kp == nullptr);
        arm_budget(k);
        fd.clobber();
        ++st.replays;
        if (after_exhaustion && live > 0) st.replay_after_exhaustion = true;
        check_winner(sh, cur, (uint32_t)lt->min_source(), "after delete_min_insert", step, st);
    }
    if (live == 0) st.drained = true;
}

//! sentinel class (c): may the winner be asserted now? (see the header comment)
template <class K>
bool observable(const Shape<K>& sh, const std::vector<size_t>& cur, const K& sentinel, Stats& st) {
    const K* m = nullptr;
    for (int p = 0; p < sh.k; ++p) {
        const K& x = sh.stream[p][cur[p]];
        if (!m || kless(sh.desc, x, *m)) m = &x;
    }
    const bool below = kless(sh.desc, *m, sentinel), above = kless(sh.desc, sentinel, *m);
    // classes (a), (b): no key is greater than the sentinel -> always; class (c): see the header comment
    if (!sh.sent_restrict || below || (!above && sh.stable)) {
        if (!below && !above) st.winner_equiv_sentinel = true;
        return true;
    }
    st.cut_by_sentinel = true;
    PBT_LOG("  smallest live key " << m->key << " is no longer " << (sh.stable ? "less than or equivalent to" : "less than")
                                   << " the sentinel " << sentinel.key << ": history ends, nothing asserted\n");
    return false;
}

template <class Tree, class K>
void drive_unguarded(const Shape<K>& sh, const K& sentinel, Stats& st) {
    constexpr bool copying = IsCopyClass<Tree>::value;
    using Source = typename Tree::Source;
    const int k = sh.k;
    arm_budget(k);
    std::unique_ptr<Tree> lt;
    if (copying) { // documented to copy the sentinel: the object passed does not outlive the constructor call
        std::unique_ptr<K> tmp(new K(sentinel));
        lt.reset(new Tree((Source)k, *tmp, DirCmp<K>(sh.desc)));
        tmp->key = sh.desc ? 2000000000 : -2000000000;
        tmp.reset();
    } else {
        lt.reset(new Tree((Source)k, sentinel, DirCmp<K>(sh.desc)));
    }
    if (k == 0) {
        lt->init();
        st.k0 = true;
        return;
    }
    std::vector<size_t> cur((size_t)k, 0);
    Feeder<K, copying> fd(sh);
    for (int j = 0; j < k; ++j) {
        int p = sh.order == 0 ? j : sh.order == 1 ? k - 1 - j : (j + k / 2) % k;
        lt->insert_start(fd.feed(p, 0), (Source)p, false);
        fd.clobber();
    }
    maybe_move(lt, sh.move_at == -1, st);
    arm_budget(k);
    lt->init();
    arm_budget(k);
    maybe_move(lt, sh.move_at == 0, st);
    if (!observable(sh, cur, sentinel, st)) return;
    check_winner(sh, cur, (uint32_t)lt->min_source(), "after init", 0, st);
    for (int step = 1; step <= sh.max_steps; ++step) {
        maybe_move(lt, sh.move_at == step, st);
        uint32_t w = (uint32_t)lt->min_source();
        // documented precondition of the unguarded trees: no player may run out of keys -> the history ends as soon as
        // the winner has no further key to feed
        if (cur[w] + 1 >= sh.stream[w].size()) break;
        ++cur[w];
        const K* kp = fd.feed((int)w, cur[w]);
        if (kless(sh.desc, sentinel, *kp)) st.key_beyond_sentinel_fed = true;
        PBT_LOG("  delete_min_insert(" << kp->key << ") for player " << w << "\n");
        lt->delete_min_insert(kp, false);
        arm_budget(k);
        fd.clobber();
        ++st.replays;
        if (!observable(sh, cur, sentinel, st)) return;
        check_winner(sh, cur, (uint32_t)lt->min_source(), "after delete_min_insert", step, st);
    }
}

static const char* const TC_NAME[12] = {"LoserTreeCopy<false>",
                                        "LoserTreeCopy<true>",
                                        "LoserTreePointer<false>",
                                        "LoserTreePointer<true>",
                                        "LoserTreeCopyUnguarded<false>",
                                        "LoserTreeCopyUnguarded<true>",
                                        "LoserTreePointerUnguarded<false>",
                                        "LoserTreePointerUnguarded<true>",
                                        "LoserTree<false> (switch alias)",
                                        "LoserTree<true> (switch alias)",
                                        "LoserTreeUnguarded<false> (switch alias)",
                                        "LoserTreeUnguarded<true> (switch alias)"};
static const char* const TC_LABEL[12] = {"Copy/unstable",
                                         "Copy/stable",
                                         "Pointer/unstable",
                                         "Pointer/stable",
                                         "CopyUnguarded/unstable",
                                         "CopyUnguarded/stable",
                                         "PointerUnguarded/unstable",
                                         "PointerUnguarded/stable",
                                         "alias_LoserTree/unstable",
                                         "alias_LoserTree/stable",
                                         "alias_LoserTreeUnguarded/unstable",
                                         "alias_LoserTreeUnguarded/stable"};

inline bool tc_unguarded(int tc) { return (tc >= 4 && tc <= 7) || tc >= 10; }
inline bool tc_stable(int tc) { return tc & 1; }

template <class K>
void run_api(pbt::Source& src, int tc, const char* type_label) {
    using C = DirCmp<K>;
    Shape<K> sh;
    const bool unguarded = tc_unguarded(tc);
    sh.stable = tc_stable(tc);
    // ---- selectors first
    int k = 1 + (int)src.range(0, 20);
    if (k == 21) k = 0;
    sh.k = k;
    int fl = (int)src.u8();
    sh.desc = fl & 1;
    sh.arbitrary = ((fl >> 1) % 5) == 4;                       // 20 %: streams not sorted
    sh.order = ((fl >> 4) & 3) == 3 ? 1 + ((fl >> 6) & 1) : 0; // 25 %: insert_start not in ascending player order
    const int nvals = 1 + (int)src.range(0, 4);                // 1..5 distinct values: ties everywhere
    sh.storage = (int)src.range(0, 2);
    const int emptymode = (int)src.weighted({4, 3, 3, 1});     // guarded: none / few / many / ALL players start exhausted
    const int sentmode = (int)src.weighted({3, 6, 3});         // unguarded: sentinel class (a) / (b) / (c)
    const int sentoff = (int)src.range(0, 2);                  // (a): distance above the greatest key
    const int sentpick = (int)src.range(0, nvals);             // (c): 0 = last key of stream 0, v > 0 = key value v-1
    const bool sent_alias = src.boolean();                     // pointer kinds: the sentinel object is a stream element
    g_default_key = (int)src.range(0, nvals + 1) - 1;          // key of ValueType() for K16 / K24 / KS: -1 .. nvals
    const int movesel = (int)src.range(0, 15);                 // 0..11 never, 12 before init, 13 after init, 14/15 at a step
    const int movestep = 1 + (int)src.range(0, 15);
    sh.move_at = movesel < 12 ? -2 : movesel == 12 ? -1 : movesel == 13 ? 0 : movestep;

    // ---- streams
    sh.stream.resize((size_t)k);
    for (int p = 0; p < k; ++p) {
        unsigned t = src.u8();
        int n;
        if (!unguarded && (emptymode == 3 || (emptymode > 0 && t < (emptymode == 1 ? 16u : 80u)))) n = 0;
        else n = unguarded ? 1 + (int)(t % 24) : 1 + (int)(t % 12);
        sh.stream[p].reserve((size_t)n);
        for (int j = 0; j < n; ++j) sh.stream[p].push_back(mk<K>(0, (uint32_t)(p * 100 + j)));
    }
    bool any = false;
    int kgreatest = 0; // greatest key w.r.t. the comparator
    for (int p = 0; p < k; ++p) {
        std::vector<K>& v = sh.stream[p];
        for (K& x : v) x.key = (int)src.range(0, nvals - 1);
        if (!sh.arbitrary) {
            const bool desc = sh.desc;
            std::stable_sort(v.begin(), v.end(), [desc](const K& a, const K& b) { return desc ? a.key > b.key : a.key < b.key; });
            for (size_t j = 0; j < v.size(); ++j) v[j].tag = (uint32_t)(p * 100 + (int)j), set_payload(v[j], v[j].tag);
        }
        for (const K& x : v) {
            if (!any || (sh.desc ? x.key < kgreatest : x.key > kgreatest)) kgreatest = x.key;
            any = true;
        }
    }

    // ---- the constructor sentinel of the unguarded kinds
    std::unique_ptr<K> sent_own;
    const K* sentinel = nullptr;
    int sclass = 0;
    if (unguarded) {
        int skey;
        const K* elem = nullptr; // a stream element holding that key (for the aliasing variant)
        if (k == 0 || sentmode == 0) {
            skey = sh.desc ? (k == 0 ? 0 : kgreatest) - 1 - sentoff : (k == 0 ? 0 : kgreatest) + 1 + sentoff;
        } else if (sentmode == 1) {
            sclass = 1;
            skey = kgreatest;
            for (int p = 0; p < k && !elem; ++p)
                for (const K& x : sh.stream[p])
                    if (x.key == skey) elem = &x; // sorted streams: the last key of a stream, as in tlx (last match of the stream wins)
        } else {
            skey = sentpick == 0 ? sh.stream[0].back().key : sentpick - 1;
            if (sentpick == 0) elem = &sh.stream[0].back();
            // classify: (c) only if some key really is greater than the sentinel
            bool beyond = false, equal = false;
            for (int p = 0; p < k; ++p)
                for (const K& x : sh.stream[p]) beyond = beyond || (sh.desc ? x.key < skey : x.key > skey), equal = equal || x.key == skey;
            sclass = beyond ? 2 : equal ? 1 : 0;
            sh.sent_restrict = beyond;
        }
        // aliasing is only legal while the element's storage is what the tree sees: stable arrays, pointer kinds or not
        if (elem && sent_alias && sh.storage == 0) sentinel = elem;
        else {
            sent_own.reset(new K(mk<K>(skey, 0x5e9717e1u)));
            sentinel = sent_own.get();
        }
    }

    if (pbt::verbose()) {
        PBT_LOG("tlx::" << TC_NAME[tc] << " value type " << KName<K>::v << " cmp=" << (sh.desc ? "greater" : "less") << " k=" << k
                        << " insert_start order=" << (sh.order == 0 ? "ascending" : sh.order == 1 ? "descending" : "rotated")
                        << " ValueType().key=" << (std::is_same<K, K8>::value ? 0 : g_default_key));
        if (unguarded)
            PBT_LOG(" sentinel=" << sentinel->key
                                 << (sclass == 0 ? " (strictly greater than every key)" : sclass == 1 ? " (equivalent to the greatest key present)" : " (some keys are greater: restricted oracle)")
                                 << (sent_own ? "" : " [the sentinel object is a stream element]"));
        PBT_LOG("\n");
        for (int p = 0; p < k; ++p) {
            PBT_LOG("  player " << p << ":");
            for (const K& x : sh.stream[p]) PBT_LOG(" " << x.key);
            if (sh.stream[p].empty()) PBT_LOG(" (exhausted from the start)");
            PBT_LOG("\n");
        }
    }

    Stats st;
    bool alias_is_copy = false;
    switch (tc) {
    case 0: drive_guarded<tlx::LoserTreeCopy<false, K, C>>(sh, st); break;
    case 1: drive_guarded<tlx::LoserTreeCopy<true, K, C>>(sh, st); break;
    case 2: drive_guarded<tlx::LoserTreePointer<false, K, C>>(sh, st); break;
    case 3: drive_guarded<tlx::LoserTreePointer<true, K, C>>(sh, st); break;
    case 4: drive_unguarded<tlx::LoserTreeCopyUnguarded<false, K, C>>(sh, *sentinel, st); break;
    case 5: drive_unguarded<tlx::LoserTreeCopyUnguarded<true, K, C>>(sh, *sentinel, st); break;
    case 6: drive_unguarded<tlx::LoserTreePointerUnguarded<false, K, C>>(sh, *sentinel, st); break;
    case 7: drive_unguarded<tlx::LoserTreePointerUnguarded<true, K, C>>(sh, *sentinel, st); break;
    case 8:
        alias_is_copy = IsCopyClass<tlx::LoserTree<false, K, C>>::value;
        drive_guarded<tlx::LoserTree<false, K, C>>(sh, st);
        break;
    case 9:
        alias_is_copy = IsCopyClass<tlx::LoserTree<true, K, C>>::value;
        drive_guarded<tlx::LoserTree<true, K, C>>(sh, st);
        break;
    case 10:
        alias_is_copy = IsCopyClass<tlx::LoserTreeUnguarded<false, K, C>>::value;
        drive_unguarded<tlx::LoserTreeUnguarded<false, K, C>>(sh, *sentinel, st);
        break;
    default:
        alias_is_copy = IsCopyClass<tlx::LoserTreeUnguarded<true, K, C>>::value;
        drive_unguarded<tlx::LoserTreeUnguarded<true, K, C>>(sh, *sentinel, st);
        break;
    }

    // ---- labels
    pbt::label(TC_LABEL[tc]);
    pbt::label(type_label);
    if (tc >= 8) pbt::label(alias_is_copy ? "alias_resolved_to_copy_class" : "alias_resolved_to_pointer_class");
    pbt::label(k == 0 ? "k=0(construct+init_only)" : k == 1 ? "k=1" : k == 2 ? "k=2" : (k & (k - 1)) == 0 ? "k=pow2(4,8,16)" : "k=non_pow2");
    pbt::label(sh.desc ? "cmp=greater" : "cmp=less");
    pbt::label(sh.arbitrary ? "streams_arbitrary" : "streams_sorted");
    pbt::label(sh.order == 0 ? "insert_order=ascending" : "insert_order=other");
    if (!std::is_same<K, K8>::value && k > 0)
        pbt::label(g_default_key < 0 || g_default_key >= nvals ? "ValueType()_outside_key_range" : "ValueType()_inside_key_range");
    if (st.started_exhausted) pbt::label("player_starts_exhausted");
    if (st.all_exhausted_at_start) pbt::label("all_exhausted_at_start");
    if (st.tie_at_winner) pbt::label("tie_at_winner");
    if (st.tie_lower_index_exists) pbt::label("stable_tie_decided");
    if (st.replay_after_exhaustion) pbt::label("replay_after_exhaustion");
    if (st.drained) pbt::label("drained_completely");
    if (st.moved) pbt::label(unguarded ? "moved:unguarded" : "moved:guarded");
    if (st.moved && st.replays > 0) pbt::label("moved_and_replayed");
    if (unguarded && k > 0) {
        pbt::label(sclass == 0 ? "sentinel=strictly_above" : sclass == 1 ? "sentinel=equiv_greatest_key" : "sentinel=inside_key_range(restricted)");
        if (!sent_own) pbt::label("sentinel_object_is_stream_element");
        if (st.winner_equiv_sentinel) pbt::label("winner_equiv_sentinel_asserted");
        if (st.winner_equiv_sentinel && k >= 3 && (k & (k - 1)) != 0) pbt::label("winner_equiv_sentinel_asserted:k_non_pow2");
        if (st.winner_equiv_sentinel && sh.stable) pbt::label("winner_equiv_sentinel_asserted:stable");
        if (st.cut_by_sentinel) pbt::label("history_cut_by_sentinel_rule");
        if (st.key_beyond_sentinel_fed) pbt::label("key_beyond_sentinel_fed_then_asserted_on");
        int runs = 0;
        for (int p = 0; p < k; ++p) runs += sh.stream[p].back().key == sentinel->key;
        if (runs >= 2) pbt::label("sentinel_equiv_key_ends_2+_streams");
        if (st.replays >= 10) pbt::label("unguarded:replays>=10");
    }
    pbt::label(st.replays == 0 ? "replays=0" : st.replays < 10 ? "replays=1..9" : st.replays < 50 ? "replays=10..49" : "replays>=50");
    bool dup = false;
    {
        std::vector<int> all;
        for (auto& s : sh.stream)
            for (auto& x : s) all.push_back(x.key);
        std::sort(all.begin(), all.end());
        for (size_t i = 1; i < all.size(); ++i) dup = dup || all[i] == all[i - 1];
    }
    if (k >= 3 && dup && (unguarded ? st.replays >= 1 : st.replay_after_exhaustion)) pbt::nontrivial();
}

// one TU per value type (the template matrix compiles in parallel)
void run_k8(pbt::Source& src, int tc);
void run_k16(pbt::Source& src, int tc);
void run_k24(pbt::Source& src, int tc);
void run_ks(pbt::Source& src, int tc);

} // namespace c09api
