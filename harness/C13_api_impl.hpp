// C13 (api) — helpers shared by the three API-audit targets dary_api / addressable_api / radix_api
// (C13_api_dary.cpp, C13_api_addr.cpp, C13_api_radix.cpp): a true single-pass input iterator for
// build_heap(InputIterator, InputIterator) and the slot list used for "forks" (a copy / moved-to / swapped heap
// object that is used side by side with its source, each with its own model).
#pragma once
#include "../engine/pbt.hpp"

#include <cstddef>
#include <iterator>
#include <memory>
#include <vector>

namespace c13api {

//! shared cursor of a single-pass stream (like std::istream_iterator: all copies of an iterator advance together)
template <class T>
struct InStream {
    const std::vector<T>* v;
    size_t pos;
    explicit InStream(const std::vector<T>& vec) : v(&vec), pos(0) {}
};

//! input iterator (category input_iterator_tag, nothing more): a second pass over the range, an increment or a
//! dereference past the end is a violation of the InputIterator protocol by the CALLEE and reported as such
template <class T>
class InIt {
public:
    typedef std::input_iterator_tag iterator_category;
    typedef T value_type;
    typedef std::ptrdiff_t difference_type;
    typedef const T* pointer;
    typedef const T& reference;
    struct Proxy {
        T val;
        const T& operator*() const { return val; }
    };
    InIt() : s_(nullptr) {}
    explicit InIt(InStream<T>* s) : s_(s->pos < s->v->size() ? s : nullptr) {}
    reference operator*() const {
        if (!s_ || s_->pos >= s_->v->size())
            pbt::fail("C13/input-iterator-protocol", "build_heap(first, last) dereferenced an input iterator at or past the end of its single-pass range (second pass?)");
        return (*s_->v)[s_->pos];
    }
    pointer operator->() const { return &**this; }
    InIt& operator++() {
        if (!s_ || s_->pos >= s_->v->size())
            pbt::fail("C13/input-iterator-protocol", "build_heap(first, last) incremented an input iterator at or past the end of its single-pass range (second pass?)");
        if (++s_->pos >= s_->v->size()) s_ = nullptr;
        return *this;
    }
    Proxy operator++(int) {
        Proxy p{**this};
        ++*this;
        return p;
    }
    friend bool operator==(const InIt& a, const InIt& b) { return a.live() == b.live(); }
    friend bool operator!=(const InIt& a, const InIt& b) { return !(a == b); }

private:
    //! an iterator whose shared stream is exhausted compares equal to the end iterator
    const InStream<T>* live() const { return s_ && s_->pos < s_->v->size() ? s_ : nullptr; }
    InStream<T>* s_;
};

//! one heap object + its model; the history keeps up to MAX_SLOTS of them alive side by side
template <class Heap, class Model>
struct Slot {
    Heap h;
    Model m;
};
static const size_t MAX_SLOTS = 3;

//! keys expanded from two choice bytes: n values (a + i*step) mod U, i.e. cheap bulk inputs for the large arities
inline std::vector<size_t> bulk_indices(size_t n, size_t a, size_t step, size_t U) {
    std::vector<size_t> v;
    for (size_t i = 0; i < n; ++i) v.push_back((a + i * step) % U);
    return v;
}

} // namespace c13api
