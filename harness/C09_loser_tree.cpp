// C09 — loser trees report a minimum-holding source; stable ones break ties by index.
//
// Model: the harness keeps, per player, its stream of keys and a cursor; the
// "current key" of a live player is stream[cursor]. After init() and after every
// delete_min_insert() the reported winner is checked against the model:
//   - it is a real player index, and live whenever any player is live,
//   - no live player holds a key that compares less than the winner's key,
//   - stable variants: it is the smallest index among the live players whose key
//     is equivalent to the winner's.
// Nothing is asserted once every player is exhausted (DESIGN §3.3).
#include "../engine/pbt.hpp"

#include <algorithm>
#include <cstdint>
#include <tlx/container/loser_tree.hpp>
#include <memory>
#include <vector>

namespace {

struct Key {
    int32_t key;
    uint32_t tag; // identifies (player, position); never compared
};

//! stateful comparator by key only; a tree that default-constructs its comparator
//! instead of copying the one passed is caught through `salt`
struct DirCmp {
    bool desc;
    int salt;
    DirCmp() : desc(false), salt(0) {}
    explicit DirCmp(bool d) : desc(d), salt(0x5a17) {}
    bool operator()(const Key& a, const Key& b) const {
        if (salt != 0x5a17) pbt::fail("C09/comparator-lost", "tree used a comparator that is not a copy of the one passed");
        return desc ? b.key < a.key : a.key < b.key;
    }
};

struct Shape {
    int variant; // 0 Copy, 1 Pointer, 2 CopyUnguarded, 3 PointerUnguarded
    bool stable;
    bool desc;
    int k;
    int order;       // insert_start order: 0 ascending, 1 descending, 2 rotated
    int storage = 0; // pointer variants: 0 keys in stable arrays, 1 one slot per player refilled in place, 2 fresh heap key per feed (previous one freed)
    bool arbitrary;  // streams not sorted
    std::vector<std::vector<Key>> stream; // stable storage for the pointer variants
};

static const char* const VARIANT[4] = {"LoserTreeCopy", "LoserTreePointer", "LoserTreeCopyUnguarded", "LoserTreePointerUnguarded"};

struct Stats {
    int replays = 0;
    bool replay_after_exhaustion = false;
    bool tie_at_winner = false;
    bool tie_lower_index_exists = false; // a tie in which the winner is not the only candidate and has the smallest index
    bool started_exhausted = false;
    bool all_exhausted_at_start = false;
    bool drained = false;
};

//! winner oracle
void check_winner(const Shape& sh, const std::vector<size_t>& cur, uint32_t w, const char* when, int step, Stats& st) {
    const DirCmp cmp(sh.desc);
    int live = 0;
    for (int p = 0; p < sh.k; ++p) live += cur[p] < sh.stream[p].size();
    PBT_LOG("  " << when << " #" << step << ": min_source()=" << (w == (uint32_t)-1 ? -1 : (long)w) << "\n");
    if (live == 0) return; // every player exhausted: the statement says nothing
    PBT_CHECK(w < (uint32_t)sh.k, "C09/winner-not-a-player",
              when << " #" << step << ": min_source() = " << w << " is not a player index (k = " << sh.k << ") although " << live
                   << " player(s) are live");
    PBT_CHECK(cur[w] < sh.stream[w].size(), "C09/winner-exhausted",
              when << " #" << step << ": min_source() = " << w << " is an exhausted player while " << live << " player(s) are live");
    const Key& wk = sh.stream[w][cur[w]];
    int first_equiv = -1, nequiv = 0;
    for (int p = 0; p < sh.k; ++p) {
        if (cur[p] >= sh.stream[p].size()) continue;
        const Key& pk = sh.stream[p][cur[p]];
        PBT_CHECK(!cmp(pk, wk), "C09/winner-not-min",
                  when << " #" << step << ": winner " << w << " holds key " << wk.key << " but live player " << p << " holds "
                       << pk.key << " which orders before it");
        if (!cmp(wk, pk)) { // equivalent
            if (first_equiv < 0) first_equiv = p;
            ++nequiv;
        }
    }
    if (nequiv > 1) st.tie_at_winner = true;
    if (sh.stable) {
        PBT_CHECK((int)w == first_equiv, "C09/stable-tie",
                  when << " #" << step << ": stable tree reports player " << w << " but player " << first_equiv
                       << " holds an equivalent key (" << wk.key << ") and has the smaller index");
        if (nequiv > 1) st.tie_lower_index_exists = true;
    }
}

template <class Tree>
void drive_guarded(const Shape& sh, Stats& st) {
    const int k = sh.k;
    Tree lt((typename Tree::Source)k, DirCmp(sh.desc));
    std::vector<size_t> cur(k, 0);
    const bool copying = sh.variant == 0;
    Key scratch; // the copy variants must not keep the pointer: it is clobbered after each call
    // pointer variants: the tree may only rely on the CURRENT key pointer of each player; the storage of a
    // key that has been replaced may be overwritten (mode 1) or released (mode 2) by the caller
    std::vector<Key> slot((size_t)k);
    std::vector<std::unique_ptr<Key>> heap((size_t)k);
    auto feed = [&](int p) -> const Key* {
        if (cur[p] >= sh.stream[p].size()) {
            heap[(size_t)p].reset();
            return nullptr;
        }
        if (!copying) {
            if (sh.storage == 1) {
                slot[(size_t)p] = sh.stream[p][cur[p]];
                return &slot[(size_t)p];
            }
            if (sh.storage == 2) {
                heap[(size_t)p].reset(new Key(sh.stream[p][cur[p]]));
                return heap[(size_t)p].get();
            }
            return &sh.stream[p][cur[p]];
        }
        scratch = sh.stream[p][cur[p]];
        return &scratch;
    };
    int nexh = 0;
    for (int j = 0; j < k; ++j) {
        int p = sh.order == 0 ? j : sh.order == 1 ? k - 1 - j : (j + k / 2) % k;
        const Key* kp = feed(p);
        lt.insert_start(kp, (typename Tree::Source)p, kp == nullptr);
        scratch.key = sh.desc ? 2000000000 : -2000000000; // would win every match if it were still referenced
        scratch.tag = 0xdeadbeef;
        if (!kp) ++nexh;
    }
    if (nexh) st.started_exhausted = true;
    if (nexh == k) st.all_exhausted_at_start = true;
    lt.init();
    check_winner(sh, cur, lt.min_source(), "after init", 0, st);
    int live = k - nexh;
    bool exhausted_seen = nexh > 0;
    for (int step = 1; live > 0 && step <= 2000; ++step) {
        uint32_t w = lt.min_source(); // checked above: a live player
        ++cur[w];
        const Key* kp = feed((int)w);
        // a replay that has to pass an exhausted player somewhere in the tree while the outcome still matters
        const bool after_exhaustion = exhausted_seen;
        if (!kp) {
            --live;
            exhausted_seen = true;
        }
        PBT_LOG("  delete_min_insert(" << (kp ? std::to_string(kp->key) : std::string("nullptr, sup")) << ") for player " << w << "\n");
        lt.delete_min_insert(kp, kp == nullptr);
        scratch.key = sh.desc ? 2000000000 : -2000000000;
        scratch.tag = 0xdeadbeef;
        ++st.replays;
        if (after_exhaustion && live > 0) st.replay_after_exhaustion = true;
        check_winner(sh, cur, lt.min_source(), "after delete_min_insert", step, st);
    }
    if (live == 0) st.drained = true;
}

template <class Tree>
void drive_unguarded(const Shape& sh, const Key& sentinel, Stats& st) {
    const int k = sh.k;
    Tree lt((typename Tree::Source)k, sentinel, DirCmp(sh.desc));
    std::vector<size_t> cur(k, 0);
    const bool copying = sh.variant == 2;
    Key scratch;
    std::vector<Key> slot((size_t)k);
    std::vector<std::unique_ptr<Key>> heap((size_t)k);
    auto feed = [&](int p) -> const Key* {
        if (!copying) {
            if (sh.storage == 1) {
                slot[(size_t)p] = sh.stream[p][cur[p]];
                return &slot[(size_t)p];
            }
            if (sh.storage == 2) {
                heap[(size_t)p].reset(new Key(sh.stream[p][cur[p]]));
                return heap[(size_t)p].get();
            }
            return &sh.stream[p][cur[p]];
        }
        scratch = sh.stream[p][cur[p]];
        return &scratch;
    };
    for (int j = 0; j < k; ++j) {
        int p = sh.order == 0 ? j : sh.order == 1 ? k - 1 - j : (j + k / 2) % k;
        lt.insert_start(feed(p), (typename Tree::Source)p, false);
        scratch.key = sh.desc ? 2000000000 : -2000000000;
        scratch.tag = 0xdeadbeef;
    }
    lt.init();
    check_winner(sh, cur, lt.min_source(), "after init", 0, st);
    for (int step = 1; step <= 2000; ++step) {
        uint32_t w = lt.min_source();
        // documented precondition of the unguarded trees: no player may run out of keys -> the
        // history ends as soon as the winner has no further key to feed
        if (cur[w] + 1 >= sh.stream[w].size()) break;
        ++cur[w];
        const Key* kp = feed((int)w);
        PBT_LOG("  delete_min_insert(" << kp->key << ") for player " << w << "\n");
        lt.delete_min_insert(kp, false);
        scratch.key = sh.desc ? 2000000000 : -2000000000;
        scratch.tag = 0xdeadbeef;
        ++st.replays;
        check_winner(sh, cur, lt.min_source(), "after delete_min_insert", step, st);
    }
}

} // namespace

PBT_PROPERTY(loser_tree) {
    Shape sh;
    // ---- selectors first
    int cfg = (int)src.range(0, 7);
    sh.variant = cfg >> 1;
    sh.stable = cfg & 1;
    sh.k = 1 + (int)src.range(0, 19);
    int fl = (int)src.u8();
    sh.desc = fl & 1;
    sh.arbitrary = ((fl >> 1) % 5) == 4;                            // 20 %: streams not sorted
    sh.order = ((fl >> 4) & 3) == 3 ? 1 + ((fl >> 6) & 1) : 0;      // 25 %: insert_start not in ascending player order
    int nvals = 1 + (int)src.range(0, 4);                           // 1..5 distinct values: ties everywhere
    sh.storage = (int)src.range(0, 2);                              // pointer variants: where the caller keeps the keys
    const int emptymode = (int)src.weighted({4, 3, 3});             // guarded: none / few / many players start exhausted
    const bool unguarded = sh.variant >= 2;
    const int k = sh.k;

    // ---- streams
    sh.stream.resize(k);
    for (int p = 0; p < k; ++p) {
        unsigned t = src.u8();
        int n;
        if (!unguarded && emptymode > 0 && t < (emptymode == 1 ? 16u : 80u)) n = 0;
        else n = unguarded ? 1 + (int)(t % 24) : 1 + (int)(t % 12); // guarded 1..12, unguarded 1..24 (their history ends with the first stream)
        sh.stream[p].resize(n);
    }
    int total = 0;
    for (int p = 0; p < k; ++p) {
        for (size_t j = 0; j < sh.stream[p].size(); ++j) {
            sh.stream[p][j].key = (int)src.range(0, nvals - 1);
            sh.stream[p][j].tag = (uint32_t)(p * 100 + (int)j);
            ++total;
        }
        if (!sh.arbitrary) {
            if (sh.desc) std::sort(sh.stream[p].begin(), sh.stream[p].end(), [](const Key& a, const Key& b) { return a.key > b.key; });
            else std::sort(sh.stream[p].begin(), sh.stream[p].end(), [](const Key& a, const Key& b) { return a.key < b.key; });
        }
    }
    // the constructor sentinel of the unguarded trees: strictly greater (w.r.t. the comparator) than every key
    const Key* sentinel = new Key{sh.desc ? -1 - (int)src.range(0, 2) : nvals + (int)src.range(0, 2), 0x5e9717e1u};

    if (pbt::verbose()) {
        PBT_LOG("tlx::" << VARIANT[sh.variant] << "<" << (sh.stable ? "true" : "false") << ", Key, cmp=" << (sh.desc ? "greater" : "less")
                        << "> k=" << k << " insert_start order=" << (sh.order == 0 ? "ascending" : sh.order == 1 ? "descending" : "rotated")
                        << (unguarded ? " sentinel=" + std::to_string(sentinel->key) : std::string()) << "\n");
        for (int p = 0; p < k; ++p) {
            PBT_LOG("  player " << p << ":");
            for (const Key& x : sh.stream[p]) PBT_LOG(" " << x.key);
            if (sh.stream[p].empty()) PBT_LOG(" (exhausted from the start)");
            PBT_LOG("\n");
        }
    }

    Stats st;
    struct Free {
        const Key* p;
        ~Free() { delete p; }
    } free_sentinel{sentinel};
    switch (cfg) {
    case 0: drive_guarded<tlx::LoserTreeCopy<false, Key, DirCmp>>(sh, st); break;
    case 1: drive_guarded<tlx::LoserTreeCopy<true, Key, DirCmp>>(sh, st); break;
    case 2: drive_guarded<tlx::LoserTreePointer<false, Key, DirCmp>>(sh, st); break;
    case 3: drive_guarded<tlx::LoserTreePointer<true, Key, DirCmp>>(sh, st); break;
    case 4: drive_unguarded<tlx::LoserTreeCopyUnguarded<false, Key, DirCmp>>(sh, *sentinel, st); break;
    case 5: drive_unguarded<tlx::LoserTreeCopyUnguarded<true, Key, DirCmp>>(sh, *sentinel, st); break;
    case 6: drive_unguarded<tlx::LoserTreePointerUnguarded<false, Key, DirCmp>>(sh, *sentinel, st); break;
    default: drive_unguarded<tlx::LoserTreePointerUnguarded<true, Key, DirCmp>>(sh, *sentinel, st); break;
    }

    // ---- labels
    static const char* const VL[8] = {"Copy/unstable",          "Copy/stable",          "Pointer/unstable",          "Pointer/stable",
                                      "CopyUnguarded/unstable", "CopyUnguarded/stable", "PointerUnguarded/unstable", "PointerUnguarded/stable"};
    pbt::label(VL[cfg]);
    pbt::label(k == 1 ? "k=1" : k == 2 ? "k=2" : (k & (k - 1)) == 0 ? "k=pow2(4,8,16)" : "k=non_pow2");
    pbt::label(sh.desc ? "cmp=greater" : "cmp=less");
    pbt::label(sh.arbitrary ? "streams_arbitrary" : "streams_sorted");
    pbt::label(sh.order == 0 ? "insert_order=ascending" : "insert_order=other");
    if (st.started_exhausted) pbt::label("player_starts_exhausted");
    if (st.all_exhausted_at_start) pbt::label("all_exhausted_at_start");
    if (st.tie_at_winner) pbt::label("tie_at_winner");
    if (st.tie_lower_index_exists) pbt::label("stable_tie_decided");
    if (st.replay_after_exhaustion) pbt::label("replay_after_exhaustion");
    if (st.drained) pbt::label("drained_completely");
    if (unguarded && st.replays >= 10) pbt::label("unguarded:replays>=10");
    pbt::label(st.replays == 0 ? "replays=0" : st.replays < 10 ? "replays=1..9" : st.replays < 50 ? "replays=10..49" : "replays>=50");
    bool dup = false;
    {
        std::vector<int> all;
        for (auto& s : sh.stream)
            for (auto& x : s) all.push_back(x.key);
        std::sort(all.begin(), all.end());
        for (size_t i = 1; i < all.size(); ++i) dup = dup || all[i] == all[i - 1];
    }
    if (k >= 3 && dup && (unguarded ? st.replays >= 1 : st.replay_after_exhaustion)) pbt::nontrivial();
    (void)total;
}
