// C09 — loser trees report a minimum-holding source; stable ones break ties by index.
//
// Model: the harness keeps, per player, its stream of keys and a cursor; the
// "current key" of a live player is stream[cursor]. After init() and after every
// delete_min_insert() the reported winner is checked against the model:
//   - it is a real player index, and live whenever any player is live,
//   - no live player holds a key that compares less than the winner's key,
//   - stable variants: it is the smallest index among the live players whose key
//     is equivalent to the winner's.
// Nothing is asserted once every player is exhausted (DESIGN §3.3).
//
// Two targets share drivers and oracle: `loser_tree` (k <= 20, streams <= 12/24 keys, every detail from the choice
// bytes) and `loser_tree_scale` (SCALE classes: up to ~1100 players with counts next to powers of two, streams of
// several thousand keys, thousands of replays after the first exhaustion; see the comment at the target).
#include "../engine/pbt.hpp"

#include <algorithm>
#include <cstdint>
#include <tlx/container/loser_tree.hpp>
#include <memory>
#include <vector>

namespace {

struct Key {
    int32_t key;
    uint32_t tag; // identifies (player, position); never compared
};

//! work bound per library call (init / delete_min_insert): a replay or tournament loop that stops making progress would
//! otherwise end as a wall-clock hang (= inconclusive). 64*16*(k+16) comparator calls per call is far above what any
//! correct loser tree needs (this one: <= 2 per tree level per replay, <= 2 per node in init; even an O(k log k)
//! rebuild per replay stays below 16*(k+16)); exceeding it is the labelled failure C09/runaway-comparisons.
long g_cmp_calls = 0, g_cmp_budget = 0;
inline void arm_budget(int k) {
    g_cmp_calls = 0;
    g_cmp_budget = 64L * 16L * ((long)k + 16);
}

//! stateful comparator by key only; a tree that default-constructs its comparator
//! instead of copying the one passed is caught through `salt`
struct DirCmp {
    bool desc;
    int salt;
    DirCmp() : desc(false), salt(0) {}
    explicit DirCmp(bool d) : desc(d), salt(0x5a17) {}
    bool operator()(const Key& a, const Key& b) const {
        if (salt != 0x5a17) pbt::fail("C09/comparator-lost", "tree used a comparator that is not a copy of the one passed");
        if (++g_cmp_calls > g_cmp_budget)
            pbt::fail("C09/runaway-comparisons", "more than " + std::to_string(g_cmp_budget) +
                                                     " comparator calls inside one init()/delete_min_insert() call: the loop does not terminate");
        return desc ? b.key < a.key : a.key < b.key;
    }
};

struct Shape {
    int variant; // 0 Copy, 1 Pointer, 2 CopyUnguarded, 3 PointerUnguarded
    bool stable;
    bool desc;
    int k;
    int order;       // insert_start order: 0 ascending, 1 descending, 2 rotated
    int storage = 0; // pointer variants: 0 keys in stable arrays, 1 one slot per player refilled in place, 2 fresh heap key per feed (previous one freed)
    bool arbitrary;  // streams not sorted
    int max_steps = 2000; // history bound (never reached by target loser_tree: <= 20 * 24 keys)
    int sent_class = 0; // loser_tree_scale: 0 sentinel strictly greater than every key, 1 equivalent to the greatest key, 2 (c): some keys are greater than it
    std::vector<std::vector<Key>> stream; // stable storage for the pointer variants
};

static const char* const VARIANT[4] = {"LoserTreeCopy", "LoserTreePointer", "LoserTreeCopyUnguarded", "LoserTreePointerUnguarded"};

struct Stats {
    int replays = 0;
    bool replay_after_exhaustion = false;
    bool tie_at_winner = false;
    bool tie_lower_index_exists = false; // a tie in which the winner is not the only candidate and has the smallest index
    bool started_exhausted = false;
    bool all_exhausted_at_start = false;
    bool drained = false;
    int replays_after_exhaustion_n = 0; // replays made while some player was exhausted and a live one remained
    int exhausted_at_start = 0;
    bool winner_equiv_sentinel = false; // (unguarded) a winner whose key is equivalent to the constructor sentinel was asserted
    bool cut_by_sentinel = false;       // (unguarded, class (c)) history ended by the sentinel rule
};

//! winner oracle
//! (`live_known`: number of live players if the driver's model already has it -- saves one pass over the players)
void check_winner(const Shape& sh, const std::vector<size_t>& cur, uint32_t w, const char* when, int step, Stats& st, int live_known = -1) {
    const DirCmp cmp(sh.desc);
    int live = 0;
    if (live_known >= 0) live = live_known;
    else
        for (int p = 0; p < sh.k; ++p) live += cur[p] < sh.stream[p].size();
    PBT_LOG("  " << when << " #" << step << ": min_source()=" << (w == (uint32_t)-1 ? -1 : (long)w) << "\n");
    if (live == 0) return; // every player exhausted: the statement says nothing
    PBT_CHECK(w < (uint32_t)sh.k, "C09/winner-not-a-player",
              when << " #" << step << ": min_source() = " << w << " is not a player index (k = " << sh.k << ") although " << live
                   << " player(s) are live");
    PBT_CHECK(cur[w] < sh.stream[w].size(), "C09/winner-exhausted",
              when << " #" << step << ": min_source() = " << w << " is an exhausted player while " << live << " player(s) are live");
    const Key& wk = sh.stream[w][cur[w]];
    int first_equiv = -1, nequiv = 0;
    for (int p = 0; p < sh.k; ++p) {
        if (cur[p] >= sh.stream[p].size()) continue;
        const Key& pk = sh.stream[p][cur[p]];
        PBT_CHECK(!cmp(pk, wk), "C09/winner-not-min",
                  when << " #" << step << ": winner " << w << " holds key " << wk.key << " but live player " << p << " holds "
                       << pk.key << " which orders before it");
        if (!cmp(wk, pk)) { // equivalent
            if (first_equiv < 0) first_equiv = p;
            ++nequiv;
        }
    }
    if (nequiv > 1) st.tie_at_winner = true;
    if (sh.stable) {
        PBT_CHECK((int)w == first_equiv, "C09/stable-tie",
                  when << " #" << step << ": stable tree reports player " << w << " but player " << first_equiv
                       << " holds an equivalent key (" << wk.key << ") and has the smaller index");
        if (nequiv > 1) st.tie_lower_index_exists = true;
    }
}

template <class Tree>
void drive_guarded(const Shape& sh, Stats& st) {
    const int k = sh.k;
    arm_budget(k);
    Tree lt((typename Tree::Source)k, DirCmp(sh.desc));
    std::vector<size_t> cur(k, 0);
    const bool copying = sh.variant == 0;
    Key scratch; // the copy variants must not keep the pointer: it is clobbered after each call
    // pointer variants: the tree may only rely on the CURRENT key pointer of each player; the storage of a
    // key that has been replaced may be overwritten (mode 1) or released (mode 2) by the caller
    std::vector<Key> slot((size_t)k);
    std::vector<std::unique_ptr<Key>> heap((size_t)k);
    auto feed = [&](int p) -> const Key* {
        if (cur[p] >= sh.stream[p].size()) {
            heap[(size_t)p].reset();
            return nullptr;
        }
        if (!copying) {
            if (sh.storage == 1) {
                slot[(size_t)p] = sh.stream[p][cur[p]];
                return &slot[(size_t)p];
            }
            if (sh.storage == 2) {
                heap[(size_t)p].reset(new Key(sh.stream[p][cur[p]]));
                return heap[(size_t)p].get();
            }
            return &sh.stream[p][cur[p]];
        }
        scratch = sh.stream[p][cur[p]];
        return &scratch;
    };
    int nexh = 0;
    for (int j = 0; j < k; ++j) {
        int p = sh.order == 0 ? j : sh.order == 1 ? k - 1 - j : (j + k / 2) % k;
        const Key* kp = feed(p);
        lt.insert_start(kp, (typename Tree::Source)p, kp == nullptr);
        scratch.key = sh.desc ? 2000000000 : -2000000000; // would win every match if it were still referenced
        scratch.tag = 0xdeadbeef;
        if (!kp) ++nexh;
    }
    if (nexh) st.started_exhausted = true;
    st.exhausted_at_start = nexh;
    if (nexh == k) st.all_exhausted_at_start = true;
    arm_budget(k);
    lt.init();
    arm_budget(k);
    check_winner(sh, cur, lt.min_source(), "after init", 0, st);
    int live = k - nexh;
    const bool big = k > 40; // scale classes only
    bool exhausted_seen = nexh > 0;
    for (int step = 1; live > 0 && step <= sh.max_steps; ++step) {
        uint32_t w = lt.min_source(); // checked above: a live player
        ++cur[w];
        const Key* kp = feed((int)w);
        // a replay that has to pass an exhausted player somewhere in the tree while the outcome still matters
        const bool after_exhaustion = exhausted_seen;
        if (!kp) {
            --live;
            exhausted_seen = true;
        }
        PBT_LOG("  delete_min_insert(" << (kp ? std::to_string(kp->key) : std::string("nullptr, sup")) << ") for player " << w << "\n");
        lt.delete_min_insert(kp, kp == nullptr);
        arm_budget(k);
        scratch.key = sh.desc ? 2000000000 : -2000000000;
        scratch.tag = 0xdeadbeef;
        ++st.replays;
        if (after_exhaustion && live > 0) st.replay_after_exhaustion = true, ++st.replays_after_exhaustion_n;
        check_winner(sh, cur, lt.min_source(), "after delete_min_insert", step, st, big ? live : -1);
    }
    if (live == 0) st.drained = true;
}

//! unguarded trees, may the winner be asserted now? Sentinel classes (a) strictly greater than every key and (b) equivalent
//! to the greatest key: always. Class (c) (keys greater than the sentinel exist, as in tlx's own use of these classes, see
//! C09_loser_tree_api.hpp): only while the smallest live key is less than the sentinel (stable kinds: or equivalent to it).
bool observable(const Shape& sh, const std::vector<size_t>& cur, const Key& sentinel, Stats& st) {
    if (sh.sent_class == 0) return true;
    const Key* m = nullptr;
    for (int p = 0; p < sh.k; ++p) {
        const Key& x = sh.stream[p][cur[p]];
        if (!m || (sh.desc ? m->key < x.key : x.key < m->key)) m = &x;
    }
    const bool below = sh.desc ? sentinel.key < m->key : m->key < sentinel.key;
    const bool above = sh.desc ? m->key < sentinel.key : sentinel.key < m->key;
    if (sh.sent_class != 2 || below || (!above && sh.stable)) {
        if (!below && !above) st.winner_equiv_sentinel = true;
        return true;
    }
    st.cut_by_sentinel = true;
    PBT_LOG("  smallest live key " << m->key << " is beyond the sentinel " << sentinel.key << ": history ends, nothing asserted\n");
    return false;
}

template <class Tree>
void drive_unguarded(const Shape& sh, const Key& sentinel, Stats& st) {
    const int k = sh.k;
    arm_budget(k);
    Tree lt((typename Tree::Source)k, sentinel, DirCmp(sh.desc));
    std::vector<size_t> cur(k, 0);
    const bool copying = sh.variant == 2;
    Key scratch;
    std::vector<Key> slot((size_t)k);
    std::vector<std::unique_ptr<Key>> heap((size_t)k);
    auto feed = [&](int p) -> const Key* {
        if (!copying) {
            if (sh.storage == 1) {
                slot[(size_t)p] = sh.stream[p][cur[p]];
                return &slot[(size_t)p];
            }
            if (sh.storage == 2) {
                heap[(size_t)p].reset(new Key(sh.stream[p][cur[p]]));
                return heap[(size_t)p].get();
            }
            return &sh.stream[p][cur[p]];
        }
        scratch = sh.stream[p][cur[p]];
        return &scratch;
    };
    for (int j = 0; j < k; ++j) {
        int p = sh.order == 0 ? j : sh.order == 1 ? k - 1 - j : (j + k / 2) % k;
        lt.insert_start(feed(p), (typename Tree::Source)p, false);
        scratch.key = sh.desc ? 2000000000 : -2000000000;
        scratch.tag = 0xdeadbeef;
    }
    arm_budget(k);
    lt.init();
    arm_budget(k);
    if (!observable(sh, cur, sentinel, st)) return;
    check_winner(sh, cur, lt.min_source(), "after init", 0, st);
    for (int step = 1; step <= sh.max_steps; ++step) {
        uint32_t w = lt.min_source();
        // documented precondition of the unguarded trees: no player may run out of keys -> the
        // history ends as soon as the winner has no further key to feed
        if (cur[w] + 1 >= sh.stream[w].size()) break;
        ++cur[w];
        const Key* kp = feed((int)w);
        PBT_LOG("  delete_min_insert(" << kp->key << ") for player " << w << "\n");
        lt.delete_min_insert(kp, false);
        arm_budget(k);
        scratch.key = sh.desc ? 2000000000 : -2000000000;
        scratch.tag = 0xdeadbeef;
        ++st.replays;
        if (!observable(sh, cur, sentinel, st)) return;
        check_winner(sh, cur, lt.min_source(), "after delete_min_insert", step, st);
    }
}

} // namespace

PBT_PROPERTY(loser_tree) {
    Shape sh;
    // ---- selectors first
    int cfg = (int)src.range(0, 7);
    sh.variant = cfg >> 1;
    sh.stable = cfg & 1;
    sh.k = 1 + (int)src.range(0, 19);
    int fl = (int)src.u8();
    sh.desc = fl & 1;
    sh.arbitrary = ((fl >> 1) % 5) == 4;                            // 20 %: streams not sorted
    sh.order = ((fl >> 4) & 3) == 3 ? 1 + ((fl >> 6) & 1) : 0;      // 25 %: insert_start not in ascending player order
    int nvals = 1 + (int)src.range(0, 4);                           // 1..5 distinct values: ties everywhere
    sh.storage = (int)src.range(0, 2);                              // pointer variants: where the caller keeps the keys
    const int emptymode = (int)src.weighted({4, 3, 3});             // guarded: none / few / many players start exhausted
    const bool unguarded = sh.variant >= 2;
    const int k = sh.k;

    // ---- streams
    sh.stream.resize(k);
    for (int p = 0; p < k; ++p) {
        unsigned t = src.u8();
        int n;
        if (!unguarded && emptymode > 0 && t < (emptymode == 1 ? 16u : 80u)) n = 0;
        else n = unguarded ? 1 + (int)(t % 24) : 1 + (int)(t % 12); // guarded 1..12, unguarded 1..24 (their history ends with the first stream)
        sh.stream[p].resize(n);
    }
    int total = 0;
    for (int p = 0; p < k; ++p) {
        for (size_t j = 0; j < sh.stream[p].size(); ++j) {
            sh.stream[p][j].key = (int)src.range(0, nvals - 1);
            sh.stream[p][j].tag = (uint32_t)(p * 100 + (int)j);
            ++total;
        }
        if (!sh.arbitrary) {
            if (sh.desc) std::sort(sh.stream[p].begin(), sh.stream[p].end(), [](const Key& a, const Key& b) { return a.key > b.key; });
            else std::sort(sh.stream[p].begin(), sh.stream[p].end(), [](const Key& a, const Key& b) { return a.key < b.key; });
        }
    }
    // the constructor sentinel of the unguarded trees: strictly greater (w.r.t. the comparator) than every key
    const Key* sentinel = new Key{sh.desc ? -1 - (int)src.range(0, 2) : nvals + (int)src.range(0, 2), 0x5e9717e1u};

    if (pbt::verbose()) {
        PBT_LOG("tlx::" << VARIANT[sh.variant] << "<" << (sh.stable ? "true" : "false") << ", Key, cmp=" << (sh.desc ? "greater" : "less")
                        << "> k=" << k << " insert_start order=" << (sh.order == 0 ? "ascending" : sh.order == 1 ? "descending" : "rotated")
                        << (unguarded ? " sentinel=" + std::to_string(sentinel->key) : std::string()) << "\n");
        for (int p = 0; p < k; ++p) {
            PBT_LOG("  player " << p << ":");
            for (const Key& x : sh.stream[p]) PBT_LOG(" " << x.key);
            if (sh.stream[p].empty()) PBT_LOG(" (exhausted from the start)");
            PBT_LOG("\n");
        }
    }

    Stats st;
    struct Free {
        const Key* p;
        ~Free() { delete p; }
    } free_sentinel{sentinel};
    switch (cfg) {
    case 0: drive_guarded<tlx::LoserTreeCopy<false, Key, DirCmp>>(sh, st); break;
    case 1: drive_guarded<tlx::LoserTreeCopy<true, Key, DirCmp>>(sh, st); break;
    case 2: drive_guarded<tlx::LoserTreePointer<false, Key, DirCmp>>(sh, st); break;
    case 3: drive_guarded<tlx::LoserTreePointer<true, Key, DirCmp>>(sh, st); break;
    case 4: drive_unguarded<tlx::LoserTreeCopyUnguarded<false, Key, DirCmp>>(sh, *sentinel, st); break;
    case 5: drive_unguarded<tlx::LoserTreeCopyUnguarded<true, Key, DirCmp>>(sh, *sentinel, st); break;
    case 6: drive_unguarded<tlx::LoserTreePointerUnguarded<false, Key, DirCmp>>(sh, *sentinel, st); break;
    default: drive_unguarded<tlx::LoserTreePointerUnguarded<true, Key, DirCmp>>(sh, *sentinel, st); break;
    }

    // ---- labels
    static const char* const VL[8] = {"Copy/unstable",          "Copy/stable",          "Pointer/unstable",          "Pointer/stable",
                                      "CopyUnguarded/unstable", "CopyUnguarded/stable", "PointerUnguarded/unstable", "PointerUnguarded/stable"};
    pbt::label(VL[cfg]);
    pbt::label(k == 1 ? "k=1" : k == 2 ? "k=2" : (k & (k - 1)) == 0 ? "k=pow2(4,8,16)" : "k=non_pow2");
    pbt::label(sh.desc ? "cmp=greater" : "cmp=less");
    pbt::label(sh.arbitrary ? "streams_arbitrary" : "streams_sorted");
    pbt::label(sh.order == 0 ? "insert_order=ascending" : "insert_order=other");
    if (st.started_exhausted) pbt::label("player_starts_exhausted");
    if (st.all_exhausted_at_start) pbt::label("all_exhausted_at_start");
    if (st.tie_at_winner) pbt::label("tie_at_winner");
    if (st.tie_lower_index_exists) pbt::label("stable_tie_decided");
    if (st.replay_after_exhaustion) pbt::label("replay_after_exhaustion");
    if (st.drained) pbt::label("drained_completely");
    if (unguarded && st.replays >= 10) pbt::label("unguarded:replays>=10");
    pbt::label(st.replays == 0 ? "replays=0" : st.replays < 10 ? "replays=1..9" : st.replays < 50 ? "replays=10..49" : "replays>=50");
    bool dup = false;
    {
        std::vector<int> all;
        for (auto& s : sh.stream)
            for (auto& x : s) all.push_back(x.key);
        std::sort(all.begin(), all.end());
        for (size_t i = 1; i < all.size(); ++i) dup = dup || all[i] == all[i - 1];
    }
    if (k >= 3 && dup && (unguarded ? st.replays >= 1 : st.replay_after_exhaustion)) pbt::nontrivial();
    (void)total;
}

// ---------------------------------------------------------------------------------------------------------------
// SCALE classes. The statement quantifies over every number of players and every history; target loser_tree stays at
// k <= 20 and streams of <= 12 (24) keys. Here the class selectors and the exact k come from the choice bytes and the
// bulk (stream sizes, keys, who starts exhausted) is expanded from a drawn 32-bit seed with a local PRNG:
//   k        1..20 (with LONG streams) | 2^j-1, 2^j, 2^j+1 for j = 5..8 | 17..40 | 41..300 | 511..513 | 1023..1025 |
//            301..1100
//   keys     total <= 1 500 (most) | <= 6 000 | <= 25 000 | <= 100 000 (rare), and total * k <= 3e6 (the oracle looks
//            at every player after every replay)
//   streams  uniform 1..2*avg | all equal | 1..4 long streams with ~80 % of the keys | skewed | tiny 1..3
//   guarded  none | 1 in 20 | 1 in 3 | 9 in 10 players start exhausted; the history runs until every player is
//            exhausted, i.e. at large k most replays pass exhausted players (replay depth after exhaustion)
//   keys     1..5 values | all equal | ~total/8 values | wide | disjoint ranges in player order (players run out one
//            after the other) | disjoint in reverse player order | identical ramps 0,1,2,.. for every player
//   sentinel (unguarded) strictly greater than every key | equivalent to the greatest key present | the last key of
//            stream 0 with greater keys elsewhere (restricted oracle, see observable())
// Same protocol, preconditions (unguarded: history ends before a player runs out) and oracle as target loser_tree.
namespace {
struct Rng {
    uint64_t s;
    uint64_t next() {
        uint64_t z = (s += 0x9E3779B97F4A7C15ull);
        z = (z ^ (z >> 30)) * 0xBF58476D1CE4E5B9ull;
        z = (z ^ (z >> 27)) * 0x94D049BB133111EBull;
        return z ^ (z >> 31);
    }
    long below(long n) { return n <= 0 ? 0 : (long)(next() % (uint64_t)n); }
};
} // namespace

PBT_PROPERTY(loser_tree_scale) {
    Shape sh;
    // ---- configuration selectors, then the seed; a selector whose byte is present is decoded from it (zero = simplest),
    // once the bytes are used up the remaining selectors come from the seeded PRNG
    int cfg = (int)src.range(0, 7);
    sh.variant = cfg >> 1;
    sh.stable = cfg & 1;
    int fl = (int)src.u8();
    sh.desc = fl & 1;
    sh.arbitrary = ((fl >> 1) % 5) == 4;                       // 20 %: streams not sorted
    sh.order = ((fl >> 4) & 3) == 3 ? 1 + ((fl >> 6) & 1) : 0; // 25 %: insert_start not in ascending player order
    sh.storage = (int)src.range(0, 2);
    Rng rng{(src.bits(4) * 0x2545F4914F6CDD1Dull + 0x7654321ull) ^ ((uint64_t)(cfg * 256 + fl) << 40) ^ ((uint64_t)src.size() << 52)};
    auto weighted = [&](std::initializer_list<unsigned> w) -> size_t {
        if (!src.exhausted()) return src.weighted(w);
        unsigned tot = 0;
        for (unsigned x : w) tot += x;
        unsigned r = (unsigned)rng.below((long)tot);
        size_t i = 0;
        for (unsigned x : w) {
            if (r < x) return i;
            r -= x;
            ++i;
        }
        return w.size() - 1;
    };
    auto range = [&](int lo, int hi) -> int { return !src.exhausted() ? (int)src.range(lo, hi) : lo + (int)rng.below(hi - lo + 1); };
    int k;
    switch (weighted({4, 5, 4, 4, 2, 1, 2})) {
    case 0: k = range(1, 20); break;
    case 1: k = (1 << range(5, 8)) + range(0, 2) - 1; break; // 31,32,33 .. 255,256,257
    case 2: k = range(17, 40); break;
    case 3: k = range(41, 300); break;
    case 4: k = 511 + range(0, 2); break;
    case 5: k = 1023 + range(0, 2); break;
    default: k = range(301, 1100); break;
    }
    sh.k = k;
    static const long BUDGET[4] = {1500, 6000, 25000, 100000};
    const long budget = BUDGET[weighted({16, 5, 2, 1})];
    const int prof = (int)weighted({4, 3, 3, 3, 3});
    const int keymode = (int)weighted({5, 2, 3, 3, 2, 2, 3});
    const int exhmode = (int)weighted({4, 2, 2, 2}); // guarded: none / 1 in 20 / 1 in 3 / 9 in 10 players start exhausted
    const int sentoff = range(0, 2);
    // sentinel class of the unguarded trees (drawn LAST; when the bytes are used up it comes from a PRNG of its own, so
    // that everything expanded from `rng` below is unchanged): (a) strictly greater than every key | (b) equivalent to the
    // greatest key present | (c) the last key of stream 0 (tlx's own choice; other streams may hold greater keys)
    Rng rng2{rng.s ^ 0x5e9717e15e9717e1ull};
    const int sentmode = !src.exhausted() ? (int)src.weighted({3, 3, 2}) : (rng2.below(8) < 3 ? 0 : rng2.below(5) < 3 ? 1 : 2);
    const bool unguarded = sh.variant >= 2;
    sh.max_steps = 400000;

    // ---- stream sizes
    long T = budget / 4 + rng.below(3 * budget / 4 + 1);
    T = std::min(T, 3000000L / k); // the oracle is O(k) per replay
    if (T < k) T = k;
    const long avg = std::max(1L, T / k);
    std::vector<int> n((size_t)k, 1);
    switch (prof) {
    case 0:
        for (int p = 0; p < k; ++p) n[p] = 1 + (int)rng.below(2 * avg);
        break;
    case 1: {
        long L = avg;
        if (L >= 8 && rng.below(4) != 0) {
            long q = 8;
            while (2 * q <= L) q *= 2;
            L = q + rng.below(3) - 1;
        }
        for (int p = 0; p < k; ++p) n[p] = (int)L;
        break;
    }
    case 2: {
        const int m = 1 + (int)rng.below(std::min(4, k));
        const long rest = std::max(1L, (T / 5) / k);
        for (int p = 0; p < k; ++p) n[p] = 1 + (int)rng.below(2 * rest);
        for (int j = 0; j < m; ++j) n[(size_t)rng.below(k)] = (int)std::max(1L, (4 * T / 5) / m - rng.below(3));
        break;
    }
    case 3:
        for (int p = 0; p < k; ++p) {
            double u = (double)rng.below(1000001) / 1e6;
            n[p] = 1 + (int)(4.0 * (double)avg * u * u * u);
        }
        break;
    default:
        for (int p = 0; p < k; ++p) n[p] = 1 + (int)rng.below(3);
        break;
    }
    if (!unguarded && exhmode > 0) {
        const long num = exhmode == 3 ? 9 : 1, den = exhmode == 1 ? 20 : exhmode == 2 ? 3 : 10;
        for (int p = 0; p < k; ++p)
            if (rng.below(den) < num) n[p] = 0;
    }
    long total = 0;
    int maxstream = 0;
    for (int p = 0; p < k; ++p) total += n[p], maxstream = std::max(maxstream, n[p]);

    // ---- keys (non-negative), sorted by the comparator unless `arbitrary`
    const long nv = keymode == 0 ? 1 + rng.below(5) : keymode == 2 ? std::max<long>(2, total / 8) : 1000001;
    const long W = 1 + rng.below(keymode == 4 || keymode == 5 ? 600 : 1);
    int kmax = 0, kmin = 2000000000;
    sh.stream.resize((size_t)k);
    for (int p = 0; p < k; ++p) {
        std::vector<Key>& v = sh.stream[p];
        v.resize((size_t)n[p]);
        const long r = keymode == 4 ? p : k - 1 - p; // rank of the player's range in comparator order
        const long rr = sh.desc ? k - 1 - r : r;
        for (int j = 0; j < n[p]; ++j) {
            int x;
            switch (keymode) {
            case 1: x = 7; break;
            case 4:
            case 5: x = (int)(rr * W + rng.below(W + 1)); break;
            case 6: x = sh.desc ? 1000000 - j : j; break;
            default: x = (int)rng.below(nv); break;
            }
            v[(size_t)j].key = x;
            v[(size_t)j].tag = (uint32_t)p * 100000u + (uint32_t)j;
            kmax = std::max(kmax, x);
            kmin = std::min(kmin, x);
        }
        if (!sh.arbitrary) {
            if (sh.desc) std::stable_sort(v.begin(), v.end(), [](const Key& a, const Key& b) { return a.key > b.key; });
            else std::stable_sort(v.begin(), v.end(), [](const Key& a, const Key& b) { return a.key < b.key; });
        }
    }
    // the constructor sentinel of the unguarded trees (see sentmode above)
    int skey = sh.desc ? -1 - sentoff : kmax + 1 + sentoff, sclass = 0;
    if (unguarded && sentmode == 1) skey = sh.desc ? kmin : kmax, sclass = 1;
    if (unguarded && sentmode == 2) {
        skey = sh.stream[0].back().key;
        const bool beyond = sh.desc ? kmin < skey : kmax > skey;
        sclass = beyond ? 2 : 1;
    }
    sh.sent_class = sclass;
    const Key* sentinel = new Key{skey, 0x5e9717e1u};
    struct Free {
        const Key* p;
        ~Free() { delete p; }
    } free_sentinel{sentinel};

    static const char* const PROF[5] = {"prof=uniform", "prof=equal_len", "prof=few_long", "prof=skewed", "prof=tiny_streams"};
    static const char* const KEYMODE[7] = {"keys=1..5_values",        "keys=all_equal",           "keys=moderate", "keys=wide",
                                           "keys=disjoint_by_player", "keys=disjoint_reversed", "keys=identical_ramps"};
    if (pbt::verbose()) {
        PBT_LOG("tlx::" << VARIANT[sh.variant] << "<" << (sh.stable ? "true" : "false") << ", Key, cmp=" << (sh.desc ? "greater" : "less")
                        << "> k=" << k << " insert_start order=" << (sh.order == 0 ? "ascending" : sh.order == 1 ? "descending" : "rotated")
                        << (unguarded ? " sentinel=" + std::to_string(sentinel->key) : std::string()) << "\n  scale shape: " << PROF[prof]
                        << " " << KEYMODE[keymode] << (sh.arbitrary ? " (streams not sorted)" : "") << " total keys=" << total
                        << " longest stream=" << maxstream << "\n");
        for (int p = 0; p < k; ++p) {
            if (p >= 40 && p + 4 < k) {
                if (p == 40) PBT_LOG("  ...\n");
                continue;
            }
            PBT_LOG("  player " << p << " (" << sh.stream[p].size() << " keys):");
            for (size_t j = 0; j < sh.stream[p].size() && j < 24; ++j) PBT_LOG(" " << sh.stream[p][j].key);
            if (sh.stream[p].size() > 24) PBT_LOG(" ... " << sh.stream[p].back().key);
            if (sh.stream[p].empty()) PBT_LOG(" (exhausted from the start)");
            PBT_LOG("\n");
        }
    }

    Stats st;
    switch (cfg) {
    case 0: drive_guarded<tlx::LoserTreeCopy<false, Key, DirCmp>>(sh, st); break;
    case 1: drive_guarded<tlx::LoserTreeCopy<true, Key, DirCmp>>(sh, st); break;
    case 2: drive_guarded<tlx::LoserTreePointer<false, Key, DirCmp>>(sh, st); break;
    case 3: drive_guarded<tlx::LoserTreePointer<true, Key, DirCmp>>(sh, st); break;
    case 4: drive_unguarded<tlx::LoserTreeCopyUnguarded<false, Key, DirCmp>>(sh, *sentinel, st); break;
    case 5: drive_unguarded<tlx::LoserTreeCopyUnguarded<true, Key, DirCmp>>(sh, *sentinel, st); break;
    case 6: drive_unguarded<tlx::LoserTreePointerUnguarded<false, Key, DirCmp>>(sh, *sentinel, st); break;
    default: drive_unguarded<tlx::LoserTreePointerUnguarded<true, Key, DirCmp>>(sh, *sentinel, st); break;
    }

    // ---- labels
    static const char* const VL[8] = {"Copy/unstable",          "Copy/stable",          "Pointer/unstable",          "Pointer/stable",
                                      "CopyUnguarded/unstable", "CopyUnguarded/stable", "PointerUnguarded/unstable", "PointerUnguarded/stable"};
    pbt::label(VL[cfg]);
    pbt::label(k <= 16 ? "k=1..16" : k <= 40 ? "k=17..40" : k <= 128 ? "k=41..128" : k <= 300 ? "k=129..300" : k <= 600 ? "k=301..600" : "k=601..1100");
    if (k >= 31 && ((k + 1) & k) == 0) pbt::label("k=2^j-1");
    if (k >= 31 && (k & (k - 1)) == 0) pbt::label("k=2^j");
    if (k >= 31 && ((k - 1) & (k - 2)) == 0) pbt::label("k=2^j+1");
    pbt::label(PROF[prof]);
    pbt::label(KEYMODE[keymode]);
    pbt::label(sh.desc ? "cmp=greater" : "cmp=less");
    pbt::label(sh.arbitrary ? "streams_arbitrary" : "streams_sorted");
    pbt::label(sh.order == 0 ? "insert_order=ascending" : "insert_order=other");
    if (!unguarded) pbt::label(sh.storage == 0 || sh.variant == 0 ? "keys_in_stable_storage_or_copied" : sh.storage == 1 ? "keys_in_refilled_slots" : "keys_on_heap_freed");
    if (st.started_exhausted) pbt::label("player_starts_exhausted");
    if (st.exhausted_at_start * 2 > k) pbt::label("most_players_start_exhausted");
    if (st.all_exhausted_at_start) pbt::label("all_exhausted_at_start");
    if (st.tie_at_winner) pbt::label("tie_at_winner");
    if (st.tie_lower_index_exists) pbt::label("stable_tie_decided");
    if (st.replay_after_exhaustion) pbt::label("replay_after_exhaustion");
    if (st.replays_after_exhaustion_n >= 100) pbt::label("replays_after_exhaustion>=100");
    if (st.replays_after_exhaustion_n >= 1000) pbt::label("replays_after_exhaustion>=1000");
    if (k >= 64 && st.replays_after_exhaustion_n >= 4 * k) pbt::label("k>=64_replays_after_exhaustion>=4k");
    if (st.drained) pbt::label("drained_completely");
    if (maxstream >= 1000) pbt::label("longest_stream>=1000");
    pbt::label(total < 1000 ? "total_keys<1000" : total < 10000 ? "total_keys=1e3..1e4" : "total_keys=1e4..1e5");
    pbt::label(st.replays < 100 ? "replays<100" : st.replays < 1000 ? "replays=100..999" : st.replays < 10000 ? "replays=1e3..1e4" : "replays>=1e4");
    if (unguarded && st.replays >= 100) pbt::label("unguarded:replays>=100");
    if (unguarded && st.replays >= 1000) pbt::label("unguarded:replays>=1000");
    if (unguarded && k >= 64 && st.replays >= 2 * k) pbt::label("unguarded:k>=64_replays>=2k");
    if (unguarded) {
        pbt::label(sclass == 0 ? "sentinel=strictly_above" : sclass == 1 ? "sentinel=equiv_greatest_key" : "sentinel=last_key_of_stream_0(restricted)");
        if (st.winner_equiv_sentinel) pbt::label("winner_equiv_sentinel_asserted");
        if (st.winner_equiv_sentinel && k > 20 && (k & (k - 1)) != 0) pbt::label("winner_equiv_sentinel_asserted:k>20_non_pow2");
        if (st.cut_by_sentinel) pbt::label("history_cut_by_sentinel_rule");
    }
    if (!unguarded && !st.drained && !st.all_exhausted_at_start) pbt::label("history_bound_hit");
    const bool dup = keymode == 1 || keymode == 6 || total > nv; // some key value occurs twice (pigeonhole for the drawn modes)
    bool dup2 = dup;
    if (!dup2) {
        std::vector<int> all;
        for (auto& s : sh.stream)
            for (auto& x : s) all.push_back(x.key);
        std::sort(all.begin(), all.end());
        for (size_t i = 1; i < all.size(); ++i) dup2 = dup2 || all[i] == all[i - 1];
    }
    if (k >= 3 && dup2 && (unguarded ? st.replays >= 1 : st.replay_after_exhaustion)) pbt::nontrivial();
}
