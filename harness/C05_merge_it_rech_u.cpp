// C05 — target merge_iters: RecH, unstable entry points, four (input iterator kind, output iterator kind) pairs (IT_PAIR_OF_TYPE), owning comparator
#include "C05_merge.hpp"

namespace c05 {
void run_it_rech_u(pbt::Source& src, const Cfg& cfg) { run_iters<RecH, false>(src, cfg); }
} // namespace c05
