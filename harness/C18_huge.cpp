// C18 — HUGE views (target string_view_huge): lengths around and beyond 2^31 and 2^32, where a size difference no
// longer fits an int and a size no longer fits 32 bits. One read-only anonymous mapping of 2^32 + 64 KiB bytes per
// process (MAP_NORESERVE: untouched zero pages take no memory; the first 64 KiB carry a non-zero pattern). Only queries
// that read a bounded number of bytes are issued (the common length of a comparison is kept <= 64 KiB unless one operand
// is short), so a case costs microseconds to milliseconds. Oracle: std::string_view on the same bytes.
#include "C18_common.hpp"

#include <sys/mman.h>

namespace {
using namespace c18;

const size_t PATTERN = 65536;
const size_t LIM = 65536; // no query reads more than about this many bytes
const size_t MAPLEN = ((size_t)1 << 32) + PATTERN;

const char* mapping() {
    static const char* base = []() -> const char* {
        void* p = mmap(nullptr, MAPLEN, PROT_READ | PROT_WRITE, MAP_PRIVATE | MAP_ANONYMOUS | MAP_NORESERVE, -1, 0);
        if (p == MAP_FAILED) return nullptr;
        char* c = static_cast<char*>(p);
        for (size_t i = 0; i < PATTERN; ++i) c[i] = (char)ALPHA[(i * 2654435761u >> 7) % sizeof(ALPHA)];
        mprotect(p, MAPLEN, PROT_READ);
        return c;
    }();
    return base;
}


//! a length from the classes that matter for 32-bit / int arithmetic
size_t gen_len(pbt::Source& src, size_t avail) {
    static const size_t B[] = {(size_t)1 << 31, (size_t)1 << 32, ((size_t)1 << 31) + ((size_t)1 << 30), (size_t)1 << 30};
    size_t n;
    switch (src.weighted({3, 5, 2, 1})) {
    case 0: n = (size_t)src.range(0, 40); break;
    case 1: n = B[src.range(0, 3)] + (size_t)src.range(0, 12) - 6; break; // boundary +- 6
    case 2: n = avail - (size_t)src.range(0, 40); break;                   // (almost) everything
    default: n = (size_t)src.bits(4) % (avail + 1);
    }
    return n > avail ? avail : n;
}

#define HCHECK(cond, lab, msgexpr) PBT_CHECK(cond, lab, msgexpr)

} // namespace

PBT_PROPERTY(string_view_huge) {
    const char* base = mapping();
    if (!base) {
        pbt::inconclusive(); // no address space for the mapping: nothing decided
        return;
    }
    // two views: same or different start inside the patterned / zero area
    size_t sa = (size_t)src.weighted({4, 2, 1}) == 0 ? 0 : (size_t)src.range(0, 70000);
    size_t sb = src.boolean() ? sa : (size_t)src.range(0, 70000);
    size_t la = gen_len(src, MAPLEN - sa), lb = gen_len(src, MAPLEN - sb);
    SV a(base + sa, la), b(base + sb, lb);
    STD ra(base + sa, la), rb(base + sb, lb);
    const size_t common = la < lb ? la : lb;
    const size_t big = (size_t)1 << 31;
    bool huge_diff = (la > lb ? la - lb : lb - la) >= big;
    if (la >= big || lb >= big) pbt::label("length>=2^31");
    if (la > 0xFFFFFFFFull || lb > 0xFFFFFFFFull) pbt::label("length>=2^32");
    if (huge_diff) pbt::label("length_difference>=2^31");
    PBT_LOG("a = [" << sa << ", +" << la << ")  b = [" << sb << ", +" << lb << ")\n");
    int op = (int)src.range(0, 9);
    // comparisons read the common length (or stop at the first difference): bound the work
    bool cmp_ok = common <= LIM; // memcmp gets the common length: keep it small also when the views differ early (ASan checks the whole range)
    switch (op) {
    case 0:
    case 1: {
        if (!cmp_ok) break;
        pbt::label("compare/relational");
        HCHECK(sgn(a.compare(b)) == sgn(ra.compare(rb)), "C18/huge/compare(v)", "compare: tlx " << a.compare(b) << " std " << ra.compare(rb) << " for lengths " << la << " and " << lb);
        HCHECK((a < b) == (ra < rb) && (a > b) == (ra > rb) && (a <= b) == (ra <= rb) && (a >= b) == (ra >= rb), "C18/huge/relational",
               "relational operators differ from std::string_view for lengths " << la << " and " << lb);
        HCHECK((a == b) == (ra == rb) && (a != b) == (ra != rb), "C18/huge/equality", "== / != differ from std::string_view for lengths " << la << " and " << lb);
        if (huge_diff && common == (la < lb ? la : lb)) pbt::nontrivial();
        break;
    }
    case 2: { // compare(pos, n, v) with positions anywhere
        size_t pos = src.boolean() ? gen_len(src, la) : (size_t)src.range(0, 50);
        size_t n = src.boolean() ? npos : gen_len(src, MAPLEN);
        size_t rl = pos <= la ? std::min(n, la - pos) : 0;
        if (std::min(rl, lb) > LIM) break;
        pbt::label("compare(pos,n,v)");
        bool t1 = false, t2 = false;
        int g = 0, w = 0;
        try { g = a.compare(pos, n, b); } catch (const std::out_of_range&) { t1 = true; }
        try { w = ra.compare(pos, n, rb); } catch (const std::out_of_range&) { t2 = true; }
        HCHECK(t1 == t2 && (t1 || sgn(g) == sgn(w)), "C18/huge/compare(pos,n,v)", "compare(" << pos << ", " << n << ", v): tlx " << (t1 ? "throws" : std::to_string(g)) << " std " << (t2 ? "throws" : std::to_string(w)));
        if (pos >= big || rl >= big) pbt::nontrivial();
        break;
    }
    case 3: { // substr / remove_prefix / remove_suffix: pure size arithmetic
        size_t pos = gen_len(src, la), n = src.boolean() ? npos : gen_len(src, MAPLEN);
        pbt::label("substr/remove");
        SV s = a.substr(pos, n);
        STD rs = ra.substr(pos, n);
        HCHECK(s.data() == rs.data() && s.size() == rs.size(), "C18/huge/substr", "substr(" << pos << ", " << n << ") of a " << la << "-byte view: size " << s.size() << " std " << rs.size());
        SV p = a;
        STD rp = ra;
        p.remove_prefix(pos), rp.remove_prefix(pos);
        size_t k = gen_len(src, rp.size());
        p.remove_suffix(k), rp.remove_suffix(k);
        HCHECK(p.data() == rp.data() && p.size() == rp.size() && p.empty() == rp.empty(), "C18/huge/remove", "remove_prefix(" << pos << ") / remove_suffix(" << k << ") of a " << la << "-byte view");
        if (pos >= big || la - pos >= big) pbt::nontrivial();
        break;
    }
    case 4: { // at / operator[] / front / back at huge positions
        size_t pos = gen_len(src, MAPLEN);
        pbt::label("at/index");
        bool t1 = false, t2 = false;
        char g = 0, w = 0;
        try { g = a.at(pos); } catch (const std::out_of_range&) { t1 = true; }
        try { w = ra.at(pos); } catch (const std::out_of_range&) { t2 = true; }
        HCHECK(t1 == t2 && g == w, "C18/huge/at", "at(" << pos << ") of a " << la << "-byte view: tlx " << (t1 ? "throws" : "returns") << " std " << (t2 ? "throws" : "returns"));
        if (la) HCHECK(&a.back() == &ra.back() && &a.front() == &ra.front() && (pos >= la || &a[pos] == &ra[pos]), "C18/huge/index", "front/back/[] address differs");
        HCHECK(a.size() == ra.size() && a.length() == ra.length() && a.end() - a.begin() == ra.end() - ra.begin(), "C18/huge/size", "size/length/iterator distance differ");
        if (pos >= big) pbt::nontrivial();
        break;
    }
    case 5: { // copy a few bytes from a huge position
        size_t pos = gen_len(src, MAPLEN), n = (size_t)src.range(0, 24);
        pbt::label("copy");
        char g[32], w[32];
        memset(g, 0x55, sizeof g), memset(w, 0x55, sizeof w);
        bool t1 = false, t2 = false;
        size_t cg = 0, cw = 0;
        try { cg = a.copy(g, n, pos); } catch (const std::out_of_range&) { t1 = true; }
        try { cw = ra.copy(w, n, pos); } catch (const std::out_of_range&) { t2 = true; }
        HCHECK(t1 == t2 && cg == cw && memcmp(g, w, sizeof g) == 0, "C18/huge/copy", "copy(buf, " << n << ", " << pos << ") of a " << la << "-byte view: tlx " << cg << " std " << cw);
        if (pos >= big) pbt::nontrivial();
        break;
    }
    case 6: { // find family started so close to the end that at most 1 MiB is scanned
        size_t back = (size_t)src.range(0, (int64_t)LIM);
        size_t pos = la > back ? la - back : 0;
        if (src.chance(40)) pos = la + (size_t)src.range(0, 3); // at / beyond the end
        char c = (char)ALPHA[src.index(sizeof(ALPHA))];
        pbt::label("find_from_near_the_end");
        HCHECK(a.find(c, pos) == ra.find(c, pos), "C18/huge/find(c,pos)", "find(char, " << pos << "): tlx " << a.find(c, pos) << " std " << ra.find(c, pos));
        std::string nd(1 + (size_t)src.range(0, 2), c);
        HCHECK(a.find(SV(nd), pos) == ra.find(STD(nd), pos), "C18/huge/find(v,pos)", "find(view, " << pos << "): tlx " << a.find(SV(nd), pos) << " std " << ra.find(STD(nd), pos));
        HCHECK(a.find_first_of(SV(nd), pos) == ra.find_first_of(STD(nd), pos), "C18/huge/find_first_of", "find_first_of(view, " << pos << ")");
        HCHECK(a.find_first_not_of(c, pos) == ra.find_first_not_of(c, pos), "C18/huge/find_first_not_of", "find_first_not_of(char, " << pos << ")");
        if (pos >= big) pbt::nontrivial();
        break;
    }
    case 7: { // backward searches with a small start position (scan at most 70000 bytes)... or a hit right at the end
        char c = (char)ALPHA[src.index(sizeof(ALPHA))];
        size_t pos = src.boolean() ? (size_t)src.range(0, 70000) : npos;
        if (pos == npos && c != 0 && sa + la > PATTERN + LIM) break; // would scan the whole zero area
        pbt::label("rfind");
        HCHECK(a.rfind(c, pos) == ra.rfind(c, pos), "C18/huge/rfind(c,pos)", "rfind(char, " << pos << "): tlx " << a.rfind(c, pos) << " std " << ra.rfind(c, pos));
        HCHECK(a.find_last_of(c, pos) == ra.find_last_of(c, pos), "C18/huge/find_last_of", "find_last_of(char, " << pos << ")");
        if (c == 0 || pos != npos) HCHECK(a.find_last_not_of((char)1, pos) == ra.find_last_not_of((char)1, pos), "C18/huge/find_last_not_of", "find_last_not_of(char, " << pos << ")");
        if (la >= big && pos == npos) pbt::nontrivial();
        break;
    }
    case 8: { // starts_with / ends_with with a short operand
        size_t k = (size_t)src.range(0, 12);
        SV pre(base + sa, std::min(k, la)), suf(base + sa + la - std::min(k, la), std::min(k, la));
        pbt::label("starts/ends_with");
        HCHECK(a.starts_with(pre) && a.ends_with(suf), "C18/huge/starts_ends_with", "a " << la << "-byte view does not start/end with its own " << k << "-byte prefix/suffix");
        if (la <= LIM || lb < la) { // reads at most LIM bytes (or only the sizes)
            bool want = lb >= la && memcmp(base + sb, base + sa, la) == 0;
            HCHECK(b.starts_with(a) == want, "C18/huge/starts_with(v)", "starts_with(view of " << la << " bytes) on a " << lb << "-byte view: tlx " << b.starts_with(a) << " expected " << want);
            bool wante = lb >= la && memcmp(base + sb + lb - la, base + sa, la) == 0;
            HCHECK(b.ends_with(a) == wante, "C18/huge/ends_with(v)", "ends_with(view of " << la << " bytes) on a " << lb << "-byte view: tlx " << b.ends_with(a) << " expected " << wante);
        }
        if (la >= big) pbt::nontrivial();
        break;
    }
    default: { // conversions of a bounded slice
        size_t pos = gen_len(src, la), n = (size_t)src.range(0, 64);
        pbt::label("slice_to_string");
        SV s = a.substr(pos, n);
        HCHECK(s.to_string() == std::string(ra.substr(pos, n)), "C18/huge/to_string", "to_string of substr(" << pos << ", " << n << ")");
        if (pos >= big) pbt::nontrivial();
    }
    }
}
