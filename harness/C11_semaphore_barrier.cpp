// C11 — Semaphore conserves tokens and strands no waiter; both thread barriers
// release together, run the action once per generation and are reusable.
// All interleavings are owned by the deterministic scheduler (engine/sched).
#include "../engine/pbt.hpp"
#include "../engine/sched/vsched.hpp"

#include <tlx/semaphore.hpp>
#include <tlx/thread_barrier_mutex.hpp>
#include <tlx/thread_barrier_spin.hpp>

#include <vector>

namespace {

using Thread = tlx::std::thread;

#define SCHED_CHECK(cond, lab, msgexpr)                                   \
    do {                                                                  \
        if (!(cond)) {                                                    \
            ::std::ostringstream os_;                                     \
            os_ << msgexpr << " | threads:" << vsched::S().describe();    \
            ::pbt::fatal(lab, os_.str());                                 \
        }                                                                 \
    } while (0)

// ---------------------------------------------------------------- semaphore

enum OpKind { SIGNAL1, SIGNALN, WAIT, TRY };
struct Op {
    OpKind k;
    size_t delta, slack;
};
struct Pending { // the operation a thread is executing right now
    bool active = false;
    Op op;
    bool linearised = false;
    size_t expect_ret = 0;
    bool expect_ok = false;
};

struct SemState {
    size_t model = 0; // value after all linearised operations
    size_t initial = 0, signalled = 0, acquired = 0;
    std::vector<Pending> pend; // by logical thread id
    bool saw_two_blocked_different = false;
} sem;

const char* opname(OpKind k) {
    static const char* n[] = {"signal()", "signal(n)", "wait", "try_acquire"};
    return n[k];
}

//! end of a completed critical section of thread `tid`: the operation takes effect here
void sem_unlock_hook(const void*, int tid) {
    if ((size_t)tid >= sem.pend.size() || !sem.pend[(size_t)tid].active) return;
    Pending& p = sem.pend[(size_t)tid];
    SCHED_CHECK(!p.linearised, "harness/double-linearisation", "operation of T" << tid << " completed two critical sections");
    p.linearised = true;
    switch (p.op.k) {
    case SIGNAL1:
    case SIGNALN:
        sem.model += p.op.delta;
        sem.signalled += p.op.delta;
        p.expect_ret = sem.model;
        break;
    case WAIT:
        SCHED_CHECK(sem.model >= p.op.delta + p.op.slack, "C11/wait-returned-without-tokens",
                    "T" << tid << " wait(" << p.op.delta << "," << p.op.slack << ") proceeds although the value is " << sem.model);
        sem.model -= p.op.delta;
        sem.acquired += p.op.delta;
        p.expect_ret = sem.model;
        break;
    case TRY:
        p.expect_ok = sem.model >= p.op.delta + p.op.slack;
        if (p.expect_ok) {
            sem.model -= p.op.delta;
            sem.acquired += p.op.delta;
        }
        break;
    }
    // non-triviality: while a signal completes, two wait operations with different requests are pending
    // (called but not yet satisfied)
    if (p.op.k == SIGNAL1 || p.op.k == SIGNALN) {
        size_t first = 0;
        int pending = 0;
        for (size_t t = 0; t < sem.pend.size(); ++t) {
            const Pending& q = sem.pend[t];
            if (!q.active || q.linearised || q.op.k != WAIT) continue;
            size_t need = q.op.delta + q.op.slack;
            if (pending++ == 0) first = need;
            else if (need != first) sem.saw_two_blocked_different = true;
        }
    }
}

void run_op(tlx::Semaphore& s, int tid, const Op& op) {
    Pending& p = sem.pend[(size_t)tid];
    p = Pending();
    p.op = op;
    p.active = true;
    switch (op.k) {
    case SIGNAL1: {
        vsched::note("signal", 1);
        size_t r = s.signal();
        SCHED_CHECK(p.linearised && r == p.expect_ret, "C11/signal-return", "signal() returned " << r << ", model " << p.expect_ret);
        break;
    }
    case SIGNALN: {
        vsched::note("signal", (long)op.delta);
        size_t r = s.signal(op.delta);
        SCHED_CHECK(p.linearised && r == p.expect_ret, "C11/signal-return", "signal(" << op.delta << ") returned " << r << ", model " << p.expect_ret);
        break;
    }
    case WAIT: {
        vsched::note("wait", (long)op.delta, (long)op.slack);
        size_t r = s.wait(op.delta, op.slack);
        SCHED_CHECK(p.linearised && r == p.expect_ret && r >= op.slack, "C11/wait-return",
                    "wait(" << op.delta << "," << op.slack << ") returned " << r << ", model " << p.expect_ret);
        break;
    }
    case TRY: {
        vsched::note("try_acquire", (long)op.delta, (long)op.slack);
        bool ok = s.try_acquire(op.delta, op.slack);
        SCHED_CHECK(p.linearised && ok == p.expect_ok, "C11/try_acquire-result",
                    "try_acquire(" << op.delta << "," << op.slack << ") returned " << ok << " but the value at its critical section made it " << p.expect_ok);
        break;
    }
    }
    p.active = false;
    vsched::note("");
}

tlx::Semaphore* g_sem = nullptr;

//! no runnable thread: legitimate only if every blocked waiter's request exceeds the value
void sem_deadlock_handler() {
    size_t val = g_sem->value();
    SCHED_CHECK(val == sem.model, "C11/value-mismatch", "value()=" << val << " but initial+signalled-acquired=" << sem.model);
    for (auto& t : vsched::S().threads)
        if (t->st == vsched::St::BlockedCv && t->note[0] == 'w') {
            size_t need = (size_t)t->note_a + (size_t)t->note_b;
            SCHED_CHECK(need > val, "C11/stranded-waiter",
                        "all threads at rest, T" << t->id << " blocked in wait(" << t->note_a << "," << t->note_b << ") although the value is " << val);
        }
    for (auto& t : vsched::S().threads)
        SCHED_CHECK(t->st != vsched::St::BlockedMutex, "C11/deadlock-on-mutex", "thread blocked on the semaphore mutex with nobody running");
    pbt::label("rest_with_unsatisfiable_waiter");
    if (sem.saw_two_blocked_different) pbt::nontrivial();
    PBT_LOG("[threads at rest; every blocked waiter needs more than value=" << val << ": legitimate]\n");
    pbt::finish_case_early();
}

//! when exploring exhaustively the scenario must be deadlock-free in every schedule
void sem_explore_deadlock() { pbt::fatal("C11/stranded-waiter", "threads at rest in a template that is satisfiable in every schedule:" + vsched::S().describe()); }

//! run one semaphore scenario; the caller has started the scheduler run
void sem_execute(size_t initial, const std::vector<std::vector<Op>>& scripts, const std::vector<int>& main_script, bool exploring) {
    const int nthreads = (int)scripts.size();
    sem = SemState();
    tlx::Semaphore s(initial);
    g_sem = &s;
    sem.model = sem.initial = initial;
    sem.pend.assign((size_t)nthreads + 1, Pending());
    vsched::S().unlock_hook = sem_unlock_hook;
    if (exploring) vsched::S().deadlock_handler = sem_explore_deadlock;
    else vsched::S().deadlock_handler = sem_deadlock_handler;
    {
        std::vector<Thread> th((size_t)nthreads);
        for (int t = 0; t < nthreads; ++t)
            th[(size_t)t] = Thread([&, t]() {
                for (const Op& op : scripts[(size_t)t]) run_op(s, t + 1, op);
            });
        // main script: -1 = one signal() (single-token signals are where a wrong wake-up policy hurts),
        // k >= 0 = join thread k now (a phase boundary: that thread must be able to finish with the tokens so far)
        for (int a : main_script) {
            if (a < 0) run_op(s, 0, Op{SIGNAL1, 1, 0});
            else if (th[(size_t)a].joinable()) {
                vsched::note("join");
                th[(size_t)a].join();
                vsched::note("");
            }
        }
        vsched::note("join");
        for (auto& t : th)
            if (t.joinable()) t.join();
        vsched::note("");
    }
    size_t val = s.value();
    SCHED_CHECK(val == sem.model && val == sem.initial + sem.signalled - sem.acquired, "C11/value-mismatch",
                "final value()=" << val << " but initial+signalled-acquired=" << sem.initial + sem.signalled - sem.acquired);
    g_sem = nullptr;
}

} // namespace

PBT_PROPERTY(semaphore) {
    sem = SemState();
    bool spurious = src.chance(48);
    bool equal_delta = src.chance(64);
    bool waiters_first = src.chance(150); // every thread starts with a wait: several waiters blocked at once
    int nthreads = (int)src.range(2, 4);
    size_t initial = (size_t)src.range(0, 3);
    std::vector<std::vector<Op>> scripts((size_t)nthreads);
    size_t total_sig = initial, total_req = 0;
    for (auto& sc : scripts) {
        int nops = (int)src.range(1, 4);
        for (int i = 0; i < nops; ++i) {
            Op op;
            op.k = (i == 0 && waiters_first) ? WAIT : (OpKind)src.weighted({3, 2, 4, 2});
            op.delta = equal_delta ? 1 : (size_t)src.range(1, 3);
            op.slack = (op.k == WAIT || op.k == TRY) ? (size_t)src.weighted({4, 1, 1}) : 0;
            if (op.k == SIGNAL1) op.delta = 1;
            if (op.k == SIGNAL1 || op.k == SIGNALN) total_sig += op.delta;
            if (op.k == WAIT || op.k == TRY) total_req += op.delta;
            sc.push_back(op);
        }
    }
    // most cases are made satisfiable in total: the main thread tops up the difference at the end
    size_t topup = 0;
    bool satisfiable = !src.chance(40);
    if (satisfiable && total_req + 2 > total_sig) topup = total_req + 2 - total_sig;
    if (pbt::verbose()) {
        PBT_LOG("semaphore initial=" << initial << " spurious=" << spurious << " topup=" << topup << "\n");
        for (size_t t = 0; t < scripts.size(); ++t) {
            PBT_LOG(" T" << t + 1 << ":");
            for (auto& op : scripts[t]) PBT_LOG(" " << opname(op.k) << "(" << op.delta << "," << op.slack << ")");
            PBT_LOG("\n");
        }
    }
    pbt::label(equal_delta ? "equal_delta" : "mixed_delta");
    if (waiters_first) pbt::label("waiters_first");
    if (spurious) pbt::label("spurious_wakeups");

    vsched::Options opt;
    opt.spurious_wakeups = spurious;
    vsched::Run run(src, opt);
    sem_execute(initial, scripts, std::vector<int>(topup, -1), /*exploring=*/false);
    if (sem.saw_two_blocked_different) {
        pbt::nontrivial();
        pbt::label("two_waiters_different_requests");
    }
    PBT_LOG("steps=" << vsched::S().steps << " preemptions=" << vsched::S().preemptions << "\n");
}

// ------------------------------------------------------------------ barriers

namespace {

struct BarState {
    int n = 0, G = 0;
    std::vector<int> arrivals, actions, leaves; // per generation
    std::vector<int> gen_of;                    // per thread: generation it is in / will enter next
    std::vector<char> inside;                   // per thread: between arrive and leave
    bool overlap = false;
} bar;

//! step(): ThreadBarrierSpin documents a generation COUNTER that is stepped after the action ("After lambda, step the
//! generation counter"), ThreadBarrierMutex a generation BIT (0 or 1) without saying when it flips relative to the action
inline void check_step_in_action(const tlx::ThreadBarrierSpin& b, int g) {
    SCHED_CHECK(b.step() == (size_t)g, "C11/barrier-step", "ThreadBarrierSpin::step() = " << b.step() << " inside the action of generation " << g);
}
inline void check_step_in_action(const tlx::ThreadBarrierMutex& b, int g) {
    SCHED_CHECK(b.step() <= 1, "C11/barrier-step", "ThreadBarrierMutex::step() = " << b.step() << " inside the action of generation " << g);
}
inline void check_step_at_end(const tlx::ThreadBarrierSpin& b, int G) {
    SCHED_CHECK(b.step() == (size_t)G, "C11/barrier-step", "ThreadBarrierSpin::step() = " << b.step() << " after " << G << " generations");
}
inline void check_step_at_end(const tlx::ThreadBarrierMutex& b, int G) {
    SCHED_CHECK(b.step() == (size_t)(G & 1), "C11/barrier-step", "ThreadBarrierMutex::step() = " << b.step() << " after " << G << " generations");
}

//! which entry point a thread uses in a generation (per thread x generation), and whether the generation's
//! calls carry an action (per generation: the action that runs is the LAST ARRIVER's, so all calls of one
//! generation carry it or none does)
struct BarPlan {
    std::vector<std::vector<char>> use_yield; // [thread][generation]
    std::vector<char> with_action;            // [generation]
    static BarPlan uniform(int n, int G, bool y, bool a) {
        BarPlan p;
        p.use_yield.assign((size_t)n, std::vector<char>((size_t)G, (char)y));
        p.with_action.assign((size_t)G, (char)a);
        return p;
    }
};

template <class Barrier>
void barrier_execute(int n, int G, const BarPlan& plan, int extra);

template <class Barrier>
void barrier_execute(int n, int G, bool use_yield, bool with_action, int extra) {
    barrier_execute<Barrier>(n, G, BarPlan::uniform(n, G, use_yield, with_action), extra);
}

template <class Barrier>
void barrier_execute(int n, int G, const BarPlan& plan, int extra) {
    bar = BarState();
    bar.n = n;
    bar.G = G;
    bar.arrivals.assign((size_t)G, 0);
    bar.actions.assign((size_t)G, 0);
    bar.leaves.assign((size_t)G, 0);
    bar.gen_of.assign((size_t)n, 0);
    bar.inside.assign((size_t)n, 0);
    Barrier b((size_t)n);
    vsched::Atomic<int> dummy(0);
    auto body = [&](int me) {
        for (int g = 0; g < G; ++g) {
            for (int e = 0; e < extra; ++e) (void)dummy.load();
            // entering generation g
            vsched::obs("arrive");
            for (int u = 0; u < n; ++u)
                if (u != me && bar.gen_of[(size_t)u] < g) bar.overlap = true; // somebody has not left g-1 yet
            bar.arrivals[(size_t)g]++;
            bar.inside[(size_t)me] = 1;
            vsched::note("barrier", g);
            auto action = [&, g, me]() {
                vsched::obs("action");
                SCHED_CHECK(bar.arrivals[(size_t)g] == n, "C11/barrier-action-early",
                            "action of generation " << g << " runs after only " << bar.arrivals[(size_t)g] << " of " << n << " arrivals");
                SCHED_CHECK(bar.leaves[(size_t)g] == 0, "C11/barrier-action-late", "action of generation " << g << " runs after a thread was released");
                SCHED_CHECK(bar.inside[(size_t)me], "harness/action-thread", "action on a thread that is not inside the barrier");
                bar.actions[(size_t)g]++;
                SCHED_CHECK(bar.actions[(size_t)g] == 1, "C11/barrier-action-twice", "action of generation " << g << " ran twice");
                check_step_in_action(b, g);
            };
            const bool use_yield = plan.use_yield[(size_t)me][(size_t)g] != 0, with_action = plan.with_action[(size_t)g] != 0;
            if (with_action) {
                if (use_yield) b.wait_yield(action);
                else b.wait(action);
            } else {
                if (use_yield) b.wait_yield();
                else b.wait();
            }
            // left generation g
            vsched::obs("leave");
            SCHED_CHECK(bar.arrivals[(size_t)g] == n, "C11/barrier-early-release",
                        "T" << me << " left generation " << g << " after only " << bar.arrivals[(size_t)g] << " of " << n << " arrivals");
            if (plan.with_action[(size_t)g])
                SCHED_CHECK(bar.actions[(size_t)g] == 1, "C11/barrier-release-before-action",
                            "T" << me << " left generation " << g << " but the action ran " << bar.actions[(size_t)g] << " times");
            bar.leaves[(size_t)g]++;
            bar.inside[(size_t)me] = 0;
            bar.gen_of[(size_t)me] = g + 1;
            vsched::note("");
        }
    };
    {
        std::vector<Thread> th;
        for (int t = 1; t < n; ++t) th.emplace_back([&, t]() { body(t); });
        body(0);
        for (auto& t : th) t.join();
    }
    check_step_at_end(b, G);
    for (int g = 0; g < G; ++g) {
        SCHED_CHECK(bar.leaves[(size_t)g] == n, "C11/barrier-lost-thread", "generation " << g << ": " << bar.leaves[(size_t)g] << " of " << n << " left");
        if (plan.with_action[(size_t)g]) SCHED_CHECK(bar.actions[(size_t)g] == 1, "C11/barrier-action-count", "generation " << g << ": action ran " << bar.actions[(size_t)g] << " times");
    }
}

template <class Barrier>
void barrier_scenario(pbt::Source& src, const char* kind) {
    int n = (int)src.range(1, 4);
    int G = (int)src.range(1, 5);
    bool use_yield = src.boolean();
    bool with_action = !src.chance(40);
    int extra = (int)src.range(0, 1);
    bool spurious = src.chance(48);
    if (spurious) pbt::label("spurious_wakeups");
    PBT_LOG(kind << " n=" << n << " generations=" << G << " wait_yield=" << use_yield << " action=" << with_action << "\n");
    pbt::label(use_yield ? "wait_yield" : "wait");
    vsched::Options opt;
    opt.spurious_wakeups = spurious;
    vsched::Run run(src, opt);
    barrier_execute<Barrier>(n, G, use_yield, with_action, extra);
    if (n >= 2 && G >= 2 && bar.overlap) {
        pbt::nontrivial();
        pbt::label("next_generation_entered_before_all_left");
    }
    PBT_LOG("steps=" << vsched::S().steps << " preemptions=" << vsched::S().preemptions << "\n");
}

} // namespace

//! MIXED entry points: every thread chooses wait() or wait_yield() anew in every generation (the two are documented
//! as interchangeable ways of crossing the same barrier), and generations with and without action alternate
template <class Barrier>
void barrier_mixed_scenario(pbt::Source& src, const char* kind) {
    int n = (int)src.range(2, 4);
    int G = (int)src.range(1, 5);
    BarPlan plan = BarPlan::uniform(n, G, false, true);
    bool mixed_gen = false;
    for (int g = 0; g < G; ++g) {
        plan.with_action[(size_t)g] = (char)!src.chance(64);
        int ny = 0;
        for (int t = 0; t < n; ++t) ny += (plan.use_yield[(size_t)t][(size_t)g] = (char)src.boolean());
        if (ny != 0 && ny != n) mixed_gen = true;
    }
    int extra = (int)src.range(0, 1);
    bool spurious = src.chance(48);
    if (spurious) pbt::label("spurious_wakeups");
    if (pbt::verbose()) {
        PBT_LOG(kind << " n=" << n << " generations=" << G << " plan (y = wait_yield, w = wait, per thread):");
        for (int t = 0; t < n; ++t) {
            PBT_LOG(" T" << t << "=");
            for (int g = 0; g < G; ++g) PBT_LOG((plan.use_yield[(size_t)t][(size_t)g] ? 'y' : 'w'));
        }
        PBT_LOG("\n");
    }
    vsched::Options opt;
    opt.spurious_wakeups = spurious;
    vsched::Run run(src, opt);
    barrier_execute<Barrier>(n, G, plan, extra);
    if (mixed_gen) {
        pbt::nontrivial();
        pbt::label("generation_with_both_entry_points");
    }
    if (bar.overlap) pbt::label("next_generation_entered_before_all_left");
}

PBT_PROPERTY(barrier_mixed) {
    if (src.boolean()) {
        pbt::label("spin");
        barrier_mixed_scenario<tlx::ThreadBarrierSpin>(src, "ThreadBarrierSpin");
    } else {
        pbt::label("mutex");
        barrier_mixed_scenario<tlx::ThreadBarrierMutex>(src, "ThreadBarrierMutex");
    }
}

//! SPIN BURSTS (vsched::Options::spin_burst): a waiter of the spin barrier runs B spin iterations back to back before it
//! starts to give way, B drawn around powers of two and uniformly up to 10000 — reaches whatever a spin loop does after
//! N rounds (back-off, yield fall-back, re-read), with a scheduling point exactly at the end of the burst
PBT_PROPERTY(barrier_spin_burst) {
    int n = (int)src.range(2, 3);
    int G = (int)src.range(1, 3);
    unsigned B;
    if (src.boolean()) B = (1u << src.range(1, 16)) + (unsigned)src.range(0, 4) - 2;
    else B = (unsigned)src.range(1, 10000);
    BarPlan plan = BarPlan::uniform(n, G, false, true);
    for (int g = 0; g < G; ++g)
        for (int t = 0; t < n; ++t) plan.use_yield[(size_t)t][(size_t)g] = (char)src.chance(64);
    int extra = (int)src.range(0, 1);
    PBT_LOG("ThreadBarrierSpin n=" << n << " generations=" << G << " spin_burst=" << B << "\n");
    pbt::label(B >= 4096 ? "burst>=4096" : B >= 256 ? "burst>=256" : "burst<256");
    vsched::Options opt;
    opt.spin_burst = B;
    opt.max_steps = 400000;
    vsched::Run run(src, opt);
    barrier_execute<tlx::ThreadBarrierSpin>(n, G, plan, extra);
    if (vsched::S().preemptions >= 1) pbt::nontrivial();
}

PBT_PROPERTY(barrier_mutex) { barrier_scenario<tlx::ThreadBarrierMutex>(src, "ThreadBarrierMutex"); }
PBT_PROPERTY(barrier_spin) { barrier_scenario<tlx::ThreadBarrierSpin>(src, "ThreadBarrierSpin"); }

// ---------------------------------------------------------------------------------------------
// Scale classes (own targets, so the mappings of semaphore / barrier_* stay valid)

//! barriers with many threads and many generations (narrow counters, parity tricks)
PBT_PROPERTY(barrier_scale) {
    bool spin = src.boolean();
    bool use_yield = src.boolean();
    int cls = (int)src.range(0, 2);
    int n, G;
    if (cls == 0) n = (int)src.range(5, 12), G = (int)src.range(1, 6);           // many threads
    else if (cls == 1) n = (int)src.range(2, 3), G = (int)src.range(250, 600);   // many generations (> 255, > 512)
    else n = (int)src.range(4, 8), G = (int)src.range(20, 70);
    pbt::label(spin ? "spin" : "mutex");
    pbt::label(cls == 0 ? "threads>=5" : cls == 1 ? "generations>=250" : "mid");
    PBT_LOG((spin ? "ThreadBarrierSpin" : "ThreadBarrierMutex") << " n=" << n << " generations=" << G << " wait_yield=" << use_yield << "\n");
    vsched::Options opt;
    opt.max_steps = 3000000;
    vsched::Run run(src, opt);
    if (spin) barrier_execute<tlx::ThreadBarrierSpin>(n, G, use_yield, true, 0);
    else barrier_execute<tlx::ThreadBarrierMutex>(n, G, use_yield, true, 0);
    if (bar.overlap) pbt::nontrivial();
}

//! semaphore with many threads and large token counts: every delta/slack/initial value of a small
//! script is multiplied by a factor around the limits of narrow integer types
PBT_PROPERTY(semaphore_scale) {
    static const size_t FACT[] = {1, 255, 256, 65535, 65536, (size_t)1 << 31, ((size_t)1 << 32) + 1, (size_t)1 << 40};
    size_t F = FACT[src.range(0, 7)];
    int nthreads = (int)src.range(2, 8);
    bool waiters_first = src.chance(150);
    size_t initial = (size_t)src.range(0, 3) * F;
    std::vector<std::vector<Op>> scripts((size_t)nthreads);
    size_t total_sig = initial, total_req = 0;
    for (auto& sc : scripts) {
        int nops = (int)src.range(1, 3);
        for (int i = 0; i < nops; ++i) {
            Op op;
            op.k = (i == 0 && waiters_first) ? WAIT : (OpKind)src.weighted({1, 4, 4, 2});
            op.delta = (size_t)src.range(1, 3) * F;
            op.slack = (op.k == WAIT || op.k == TRY) ? (size_t)src.weighted({4, 1, 1}) * F : 0;
            if (op.k == SIGNAL1) op.delta = 1;
            if (op.k == SIGNAL1 || op.k == SIGNALN) total_sig += op.delta;
            if (op.k == WAIT || op.k == TRY) total_req += op.delta;
            sc.push_back(op);
        }
    }
    // top up with ONE signal(n) by an extra thread script so that the scenario is satisfiable in total
    size_t need = total_req + 2 * F > total_sig ? total_req + 2 * F - total_sig : 0;
    if (need) scripts.push_back({Op{SIGNALN, need, 0}});
    pbt::label(F == 1 ? "factor=1" : F < 65536 ? "factor<2^16" : F < ((size_t)1 << 32) ? "factor<2^32" : "factor>=2^32");
    pbt::label(nthreads >= 5 ? "threads>=5" : "threads<=4");
    if (pbt::verbose()) {
        PBT_LOG("semaphore_scale factor=" << F << " initial=" << initial << "\n");
        for (size_t t = 0; t < scripts.size(); ++t) {
            PBT_LOG(" T" << t + 1 << ":");
            for (auto& op : scripts[t]) PBT_LOG(" " << opname(op.k) << "(" << op.delta << "," << op.slack << ")");
            PBT_LOG("\n");
        }
    }
    vsched::Run run(src);
    sem_execute(initial, scripts, std::vector<int>(), /*exploring=*/false);
    if (sem.saw_two_blocked_different || F > 1) pbt::nontrivial();
}

// ---------------------------------------------------------------------------------------------
// Bounded-exhaustive exploration (thorough tier): every schedule with at most `bound` preemptions
// of small fixed templates. Semaphore templates are satisfiable in every schedule, so any rest
// state with a blocked thread is a violation.
#include "../engine/sched/explore.hpp"

namespace {
struct SemTemplate {
    const char* name;
    unsigned bound;
    size_t initial;
    std::vector<int> main_script; // -1 = signal(), k = join thread k
    std::vector<std::vector<Op>> scripts;
};
const std::vector<SemTemplate>& sem_templates() {
    static const std::vector<SemTemplate> T = {
        {"wait(2) | wait(1) | main: signal(); join T2; 2 x signal()", 3, 0, {-1, 1, -1, -1}, {{{WAIT, 2, 0}}, {{WAIT, 1, 0}}}},
        {"wait(1,slack 1) | wait(1) | main: signal(); join T2; 2 x signal()", 3, 0, {-1, 1, -1, -1}, {{{WAIT, 1, 1}}, {{WAIT, 1, 0}}}},
        {"wait(1);signal() | wait(1);signal() | main: signal()", 3, 0, {-1}, {{{WAIT, 1, 0}, {SIGNAL1, 1, 0}}, {{WAIT, 1, 0}, {SIGNAL1, 1, 0}}}},
        {"wait(3) | signal(2) | main: 2 x signal()", 3, 0, {-1, -1}, {{{WAIT, 3, 0}}, {{SIGNALN, 2, 0}}}},
        {"wait(2) | wait(1) | wait(1) | main: 4 x signal()", 2, 0, {-1, -1, -1, -1}, {{{WAIT, 2, 0}}, {{WAIT, 1, 0}}, {{WAIT, 1, 0}}}},
        {"try_acquire(1) | wait(1) | main: 2 x signal() (initial 1)", 3, 1, {-1, -1}, {{{TRY, 1, 0}}, {{WAIT, 1, 0}}}},
        {"wait(3) | wait(1) | signal(2) | main: join T2; 2 x signal()", 3, 0, {1, -1, -1}, {{{WAIT, 3, 0}}, {{WAIT, 1, 0}}, {{SIGNALN, 2, 0}}}},
    };
    return T;
}
struct BarTemplate {
    const char* name;
    unsigned bound;
    bool spin, yield;
    int n, G;
    bool mixed = false; // thread t uses wait_yield() in generation g iff (t + g) is odd
};
const BarTemplate BAR_TEMPLATES[] = {
    {"mutex barrier n=2 G=2", 3, false, false, 2, 2}, {"mutex barrier n=3 G=2", 2, false, false, 3, 2},
    {"spin barrier wait n=2 G=2", 3, true, false, 2, 2}, {"spin barrier wait_yield n=2 G=3", 3, true, true, 2, 3},
    {"spin barrier wait n=3 G=2", 2, true, false, 3, 2}, {"mutex barrier n=2 G=3", 3, false, false, 2, 3},
    {"mutex barrier mixed wait/wait_yield n=2 G=2", 3, false, false, 2, 2, true}, {"spin barrier mixed wait/wait_yield n=2 G=2", 3, true, false, 2, 2, true},
    {"mutex barrier mixed wait/wait_yield n=3 G=2", 2, false, false, 3, 2, true},
};
const size_t N_BAR = sizeof(BAR_TEMPLATES) / sizeof(BAR_TEMPLATES[0]);
} // namespace

PBT_PROPERTY(sync_exhaustive) {
    uint64_t idx = src.bits(8), total = src.bits(8);
    const size_t NS = sem_templates().size(), NT = NS + N_BAR;
    if (total == 0) total = NT, idx = 0;
    uint8_t none = 0;
    bool was_verbose = pbt::ctx().verbose;
    for (uint64_t t = idx; t < NT; t += total) {
        unsigned bound = t < NS ? sem_templates()[t].bound : BAR_TEMPLATES[t - NS].bound;
        const char* name = t < NS ? sem_templates()[t].name : BAR_TEMPLATES[t - NS].name;
        vsched::Explorer ex(bound, 30000000);
        pbt::ctx().verbose = false;
        uint64_t n = ex.explore([&](vsched::Explorer& e) {
            pbt::Source dummy(&none, 0);
            vsched::Run run(dummy);
            e.install();
            if (t < NS) {
                const SemTemplate& T = sem_templates()[t];
                sem_execute(T.initial, T.scripts, T.main_script, /*exploring=*/true);
            } else {
                const BarTemplate& B = BAR_TEMPLATES[t - NS];
                if (B.mixed) {
                    BarPlan plan = BarPlan::uniform(B.n, B.G, false, true);
                    for (int th = 0; th < B.n; ++th)
                        for (int g = 0; g < B.G; ++g) plan.use_yield[(size_t)th][(size_t)g] = (char)((th + g) & 1);
                    if (B.spin) barrier_execute<tlx::ThreadBarrierSpin>(B.n, B.G, plan, 0);
                    else barrier_execute<tlx::ThreadBarrierMutex>(B.n, B.G, plan, 0);
                } else if (B.spin) barrier_execute<tlx::ThreadBarrierSpin>(B.n, B.G, B.yield, true, 0);
                else barrier_execute<tlx::ThreadBarrierMutex>(B.n, B.G, B.yield, true, 0);
            }
        });
        pbt::ctx().verbose = was_verbose;
        pbt::count(n);
        PBT_LOG("template " << t << " (" << name << "): " << n << " schedules with <= " << bound << " preemptions, complete=" << ex.complete << "\n");
        if (!ex.complete) pbt::inconclusive();
    }
    pbt::label("template");
    pbt::nontrivial();
}
