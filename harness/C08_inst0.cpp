// C08 oracle instantiation: int / std::less<int>
#include "C08_common.hpp"
namespace c08 {
void run_cfg0(int rsel, bool ptr, const std::vector<std::vector<int>>& keys, bool dp, bool ds, Stats& st) {
    disp_rank<int, std::less<int>, true>(rsel, ptr, keys, dp, ds, st);
}
} // namespace c08
