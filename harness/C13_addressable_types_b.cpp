// C13 (types) — DAryAddressableIntHeap with state-owning comparators, arity 5..8
#include "C13_addressable_types_impl.hpp"
namespace c13 {
IAddr* make_addr_x_hi(unsigned arity, unsigned ck, const std::vector<int>* prio) {
    switch (arity) {
    case 5: return make_addr_x<5>(ck, prio);
    case 6: return make_addr_x<6>(ck, prio);
    case 7: return make_addr_x<7>(ck, prio);
    default: return make_addr_x<8>(ck, prio);
    }
}
} // namespace c13
