// C05 — sequential multiway merge: shared generator + oracle (templated on the
// element type, the iterator kind and the comparator). One TU per element type
// instantiates run_case<> so that the template matrix compiles in parallel.
//
// Elements are (key, seq, pos) records compared BY KEY ONLY, so that "which
// element went where" and stability are observable. Reference = stable merge
// by (key, seq, pos) (= std::stable_sort of the concatenation in sequence
// order).
#pragma once
#include "../engine/pbt.hpp"

#include <algorithm>
#include <cstdint>
#include <cstring>
#include <deque>
#include <functional>
#include <iterator>
#include <string>
#include <tlx/algorithm/multiway_merge.hpp>
#include <utility>
#include <vector>

namespace c05 {

//! selectors drawn first by the dispatcher in C05_merge_main.cpp
struct Cfg {
    int entry; // bit 0 = stable; entry>>1: 0 front-end, 1 front-end *_sentinels, 2 base<Stable,false>, 3 base<Stable,true>
               // (0 multiway_merge, 1 stable_multiway_merge, 2 multiway_merge_sentinels, 3 stable_multiway_merge_sentinels,
               //  4..7 multiway_merge_base<Stable,Sentinels> called directly)
    int alg;   // 0 default argument, 1 LOSER_TREE, 2 LOSER_TREE_COMBINED, 3 LOSER_TREE_SENTINEL, 4 BUBBLE
    bool desc; // comparator direction (greater)
    bool scale = false; // target merge_scale: shape from gen_scale() instead of gen_base()
    // target merge_iters only (drawn by its dispatcher AFTER the selectors above)
    bool iters = false; // shape from gen_iters(), sequence-of-pairs held in a std::deque
    int pair = 0;       // (input iterator kind, output iterator kind), see IT_PAIR_LABEL
};
inline bool entry_stable(int e) { return e & 1; }
inline bool entry_sentinels(int e) { return (e & 2) != 0; }

// one TU each (the template matrix is split so that it compiles in parallel)
void run_int_u(pbt::Source& src, const Cfg& cfg);
void run_int_s(pbt::Source& src, const Cfg& cfg);
void run_rec8_u(pbt::Source& src, const Cfg& cfg);
void run_rec8_s(pbt::Source& src, const Cfg& cfg);
void run_rec40_u(pbt::Source& src, const Cfg& cfg);
void run_rec40_s(pbt::Source& src, const Cfg& cfg);
// target merge_iters (C05_merge_it_*.cpp): non-contiguous / reverse / strided iterators, owning element types and comparator
void run_it_rec8_u(pbt::Source& src, const Cfg& cfg);
void run_it_rec8_s(pbt::Source& src, const Cfg& cfg);
void run_it_rech_u(pbt::Source& src, const Cfg& cfg);
void run_it_rech_s(pbt::Source& src, const Cfg& cfg);
void run_it_recs_u(pbt::Source& src, const Cfg& cfg);
void run_it_recs_s(pbt::Source& src, const Cfg& cfg);
// ... pairs 4..7 of the 8-byte record (second half of its template matrix, own TUs: C05_merge_it_rec8_*_b.cpp)
void run_it_rec8_u_b(pbt::Source& src, const Cfg& cfg);
void run_it_rec8_s_b(pbt::Source& src, const Cfg& cfg);

// ---------------------------------------------------------------- element types

//! 8 bytes -> copy-based loser trees (sizeof <= 2*sizeof(size_t))
struct Rec8 {
    int32_t key;
    uint32_t sp; // seq (12 bits) << 20 | pos (20 bits)
};
static_assert(sizeof(Rec8) == 8, "Rec8 must be 8 bytes");
//! 40 bytes -> pointer-based loser trees
struct Rec40 {
    int32_t key;
    int32_t seq;
    int32_t pos;
    unsigned char pad[28];
};
static_assert(sizeof(Rec40) == 40, "Rec40 must be 40 bytes");
static_assert(sizeof(Rec40) > 2 * sizeof(size_t), "Rec40 must select the pointer trees");
static_assert(sizeof(Rec8) <= 2 * sizeof(size_t), "Rec8 must select the copy trees");

//! 16 bytes, NOT trivially copyable (owns a heap cell holding a checksum of its fields) -> copy-based loser trees with a
//! type whose copy/assignment/destructor must really run; the moved-from state has a key no generator produces
struct RecH {
    int32_t key = 0;
    uint32_t sp = 0; // seq (12 bits) << 20 | pos (20 bits)
    uint64_t* chk = nullptr;
    static const int32_t kMovedFromKey = -1431655766;
    static uint64_t sum(int32_t k, uint32_t s) { return ((uint64_t)(uint32_t)k << 32 | s) ^ 0x9E3779B97F4A7C15ull; }
    RecH() : chk(new uint64_t(sum(0, 0))) {}
    RecH(int32_t k, uint32_t s) : key(k), sp(s), chk(new uint64_t(sum(k, s))) {}
    RecH(const RecH& o) : key(o.key), sp(o.sp), chk(new uint64_t(*o.chk)) {}
    RecH(RecH&& o) noexcept : key(o.key), sp(o.sp), chk(o.chk) { o.chk = nullptr, o.key = kMovedFromKey, o.sp = 0xFFFFFFFFu; }
    RecH& operator=(const RecH& o) {
        if (this != &o) {
            uint64_t* n = new uint64_t(*o.chk);
            delete chk;
            chk = n, key = o.key, sp = o.sp;
        }
        return *this;
    }
    RecH& operator=(RecH&& o) noexcept {
        if (this != &o) {
            delete chk;
            chk = o.chk, key = o.key, sp = o.sp;
            o.chk = nullptr, o.key = kMovedFromKey, o.sp = 0xFFFFFFFFu;
        }
        return *this;
    }
    ~RecH() { delete chk; }
    bool intact() const { return chk != nullptr && *chk == sum(key, sp); }
};
static_assert(sizeof(RecH) == 16 && sizeof(RecH) <= 2 * sizeof(size_t), "RecH must select the copy trees");
//! 48 bytes, owns a std::string longer than the small-string buffer (destructive move) -> pointer-based loser trees
struct RecS {
    int32_t key = 0;
    int32_t seq = 0;
    int32_t pos = 0;
    std::string tag;
};
static_assert(sizeof(RecS) > 2 * sizeof(size_t), "RecS must select the pointer trees");

static const int POISON_KEY = -2000000007;

template <class E>
struct Tr;
template <>
struct Tr<int> {
    static constexpr bool ident = false;
    static constexpr const char* name = "int";
    static int make(int key, int, int) { return key; }
    static int key(const int& e) { return e; }
    static int seq(const int&) { return -1; }
    static int pos(const int&) { return -1; }
    static bool same(const int& a, const int& b) { return a == b; }
};
template <>
struct Tr<Rec8> {
    static constexpr bool ident = true;
    static constexpr const char* name = "rec8";
    static Rec8 make(int key, int seq, int pos) {
        Rec8 r;
        r.key = key;
        r.sp = ((uint32_t)seq << 20) | ((uint32_t)pos & 0xFFFFFu);
        return r;
    }
    static int key(const Rec8& e) { return e.key; }
    static int seq(const Rec8& e) { return (int)(e.sp >> 20); }
    static int pos(const Rec8& e) { return (int)(e.sp & 0xFFFFFu); }
    static bool same(const Rec8& a, const Rec8& b) { return a.key == b.key && a.sp == b.sp; }
};
template <>
struct Tr<Rec40> {
    static constexpr bool ident = true;
    static constexpr const char* name = "rec40";
    static Rec40 make(int key, int seq, int pos) {
        Rec40 r;
        r.key = key;
        r.seq = seq;
        r.pos = pos;
        for (int i = 0; i < 28; ++i) r.pad[i] = (unsigned char)(seq * 31 + pos * 7 + i);
        return r;
    }
    static int key(const Rec40& e) { return e.key; }
    static int seq(const Rec40& e) { return e.seq; }
    static int pos(const Rec40& e) { return e.pos; }
    static bool same(const Rec40& a, const Rec40& b) {
        return a.key == b.key && a.pos == b.pos && a.seq == b.seq && memcmp(a.pad, b.pad, 28) == 0;
    }
};

template <>
struct Tr<RecH> {
    static constexpr bool ident = true;
    static constexpr const char* name = "rech";
    static RecH make(int key, int seq, int pos) { return RecH(key, ((uint32_t)seq << 20) | ((uint32_t)pos & 0xFFFFFu)); }
    static int key(const RecH& e) { return e.key; }
    static int seq(const RecH& e) { return (int)(e.sp >> 20); }
    static int pos(const RecH& e) { return (int)(e.sp & 0xFFFFFu); }
    static bool same(const RecH& a, const RecH& b) { return a.intact() && b.intact() && a.key == b.key && a.sp == b.sp; }
};
template <>
struct Tr<RecS> {
    static constexpr bool ident = true;
    static constexpr const char* name = "recs";
    static std::string tag_of(int key, int seq, int pos) {
        return "key=" + std::to_string(key) + ";seq=" + std::to_string(seq) + ";pos=" + std::to_string(pos) + ";pad-beyond-the-sso-buffer";
    }
    static RecS make(int key, int seq, int pos) {
        RecS r;
        r.key = key, r.seq = seq, r.pos = pos;
        r.tag = tag_of(key, seq, pos);
        return r;
    }
    static int key(const RecS& e) { return e.key; }
    static int seq(const RecS& e) { return e.seq; }
    static int pos(const RecS& e) { return e.pos; }
    static bool same(const RecS& a, const RecS& b) { return a.key == b.key && a.seq == b.seq && a.pos == b.pos && a.tag == b.tag; }
};

//! stateful comparator by key only (direction is run-time state: a merge that
//! default-constructs its comparator instead of using the one passed is caught)
//! comparison budget: a merge that stops making progress (possible in the bubble merge, whose loops have no other
//! exit) would otherwise block a worker until the wall-clock case timeout and end as a hang (= inconclusive). The
//! budget is a deterministic, replayable work bound far above what any correct merge needs (the most expensive
//! legitimate algorithm, the bubble merge, needs <= ~2 comparisons per queue entry and emitted element plus k^2 for
//! the set-up, i.e. < 2*(total+k+1)*(k+1); the budget is 64*(total+k+1)*(k+1)+10000). Exceeding it means the call
//! would not return "the end of the written range" in any reasonable sense: labelled failure C05/runaway-comparisons
//! (work/STRENGTHEN.txt: non-termination is turned into a labelled failure by a sound, generous work bound).
struct StepBound {};
inline long g_cmp_calls = 0;
inline long g_cmp_budget = 0;

template <class E>
struct DirCmp {
    bool desc;
    int salt; // must stay != 0 in every copy the library makes
    explicit DirCmp(bool d) : desc(d), salt(0x5a17) {}
    DirCmp() : desc(false), salt(0) {}
    bool operator()(const E& a, const E& b) const {
        if (salt != 0x5a17) pbt::fail("C05/comparator-lost", "merge used a comparator that is not a copy of the one passed");
        if (++g_cmp_calls > g_cmp_budget) throw StepBound();
        return desc ? Tr<E>::key(b) < Tr<E>::key(a) : Tr<E>::key(a) < Tr<E>::key(b);
    }
};

//! comparator OWNING state with non-trivial copy / move: the direction lives in a heap vector, the key projection in
//! a std::function, and a std::string longer than the small-string buffer is a canary. A library that keeps using a
//! moved-from copy (empty string / empty vector / empty function) or a default-constructed one is caught
//! (C05/comparator-lost); copies are counted only for the label histogram.
template <class E>
struct OwnCmp {
    std::string canary;
    std::vector<signed char> dir; // {desc}
    std::function<int(const E&)> proj;
    static const char* expected() { return "C05-owning-comparator-canary-longer-than-sso"; }
    explicit OwnCmp(bool d) : canary(expected()), dir(1, (signed char)d), proj([](const E& e) { return Tr<E>::key(e); }) {}
    OwnCmp() = default; // default-constructible like std::less, but unusable: must never be called
    bool operator()(const E& a, const E& b) const {
        if (canary != expected() || dir.size() != 1 || !proj)
            pbt::fail("C05/comparator-lost", "merge used a comparator that is not a (live) copy of the one passed: moved-from or default-constructed");
        if (++g_cmp_calls > g_cmp_budget) throw StepBound();
        return dir[0] ? proj(b) < proj(a) : proj(a) < proj(b);
    }
};

// ---------------------------------------------------------------- the call

template <bool Stable, class SeqIt, class OutIt, class Cmp>
OutIt call_merge(const Cfg& cfg, bool omit_cmp, SeqIt sb, SeqIt se, OutIt t, std::ptrdiff_t len, Cmp cmp) {
    using namespace tlx;
    static const MultiwayMergeAlgorithm A[5] = {MWMA_ALGORITHM_DEFAULT, MWMA_LOSER_TREE, MWMA_LOSER_TREE_COMBINED,
                                                MWMA_LOSER_TREE_SENTINEL, MWMA_BUBBLE};
    const bool def = cfg.alg == 0;
    const MultiwayMergeAlgorithm a = A[cfg.alg];
    const int e = cfg.entry >> 1; // 0 front-end, 1 front-end with sentinels, 2 base<Stable,false>, 3 base<Stable,true>
    if constexpr (std::is_same<Cmp, DirCmp<int>>::value) {
        if (omit_cmp && def && !cfg.desc) { // int, ascending: defaulted comparator (std::less<int>) and algorithm arguments
            if constexpr (Stable) {
                switch (e) {
                case 0: return stable_multiway_merge(sb, se, t, len);
                case 1: return stable_multiway_merge_sentinels(sb, se, t, len);
                case 2: return multiway_merge_base<true, false>(sb, se, t, len);
                default: return multiway_merge_base<true, true>(sb, se, t, len);
                }
            } else {
                switch (e) {
                case 0: return multiway_merge(sb, se, t, len);
                case 1: return multiway_merge_sentinels(sb, se, t, len);
                case 2: return multiway_merge_base<false, false>(sb, se, t, len);
                default: return multiway_merge_base<false, true>(sb, se, t, len);
                }
            }
        }
    }
    if constexpr (Stable) {
        switch (e) {
        case 0: return def ? stable_multiway_merge(sb, se, t, len, cmp) : stable_multiway_merge(sb, se, t, len, cmp, a);
        case 1: return def ? stable_multiway_merge_sentinels(sb, se, t, len, cmp) : stable_multiway_merge_sentinels(sb, se, t, len, cmp, a);
        case 2: return def ? multiway_merge_base<true, false>(sb, se, t, len, cmp) : multiway_merge_base<true, false>(sb, se, t, len, cmp, a);
        default: return def ? multiway_merge_base<true, true>(sb, se, t, len, cmp) : multiway_merge_base<true, true>(sb, se, t, len, cmp, a);
        }
    } else {
        switch (e) {
        case 0: return def ? multiway_merge(sb, se, t, len, cmp) : multiway_merge(sb, se, t, len, cmp, a);
        case 1: return def ? multiway_merge_sentinels(sb, se, t, len, cmp) : multiway_merge_sentinels(sb, se, t, len, cmp, a);
        case 2: return def ? multiway_merge_base<false, false>(sb, se, t, len, cmp) : multiway_merge_base<false, false>(sb, se, t, len, cmp, a);
        default: return def ? multiway_merge_base<false, true>(sb, se, t, len, cmp) : multiway_merge_base<false, true>(sb, se, t, len, cmp, a);
        }
    }
}

template <class E, bool RawPtr>
struct ItKind;
template <class E>
struct ItKind<E, true> {
    using It = E*;
    static It begin(std::vector<E>& v) { return v.data(); }
};
template <class E>
struct ItKind<E, false> {
    using It = typename std::vector<E>::iterator;
    static It begin(std::vector<E>& v) { return v.begin(); }
};

// ---------------------------------------------------------------- storage / iterator kinds (target merge_iters)
//
// A kind holds `m` LOGICAL cells (cell j is what *(begin + j) refers to) in some container and hands out a legal
// random-access iterator to cell 0. The oracle reads the cells back through at(j) and compares iterator DISTANCES,
// never addresses. `salt` only selects the lay-out (deque front offset, stride).

//! std::vector storage, raw pointer or vector iterator (the two kinds of targets merge / merge_scale)
template <class E, bool RawPtr>
struct VecKind {
    using It = typename ItKind<E, RawPtr>::It;
    static constexpr const char* name = RawPtr ? "pointer" : "vector";
    std::vector<E> v;
    void fill(const std::vector<E>& logical, uint64_t) { v = logical; } // exact-size heap block: ASan red zone right behind it
    It begin() { return ItKind<E, RawPtr>::begin(v); }
    const E& at(size_t j) const { return v[j]; }
    size_t extra_cells() const { return 0; }
    const E& extra(size_t) const { return v[0]; }
    bool mid_block() const { return false; }
};
//! std::deque storage (512-byte blocks in libstdc++), begin usually NOT at a block start: `off` elements are pushed first
//! and popped from the front afterwards (or the cells are pushed to the front in reverse order)
template <class E>
struct DequeKind {
    using It = typename std::deque<E>::iterator;
    static constexpr const char* name = "deque";
    std::deque<E> d;
    size_t off = 0;
    void fill(const std::vector<E>& logical, uint64_t salt) {
        const size_t blk = std::max<size_t>(1, 512 / sizeof(E));
        off = (size_t)(salt % (blk + 3));
        if ((salt >> 20) & 1) { // built from the back to the front
            for (size_t j = logical.size(); j-- > 0;) d.push_front(logical[j]);
            for (size_t j = 0; j < off; ++j) d.push_front(logical.empty() ? E() : logical[0]);
        } else {
            for (size_t j = 0; j < off; ++j) d.push_back(logical.empty() ? E() : logical[0]);
            for (const E& e : logical) d.push_back(e);
        }
        for (size_t j = 0; j < off; ++j) d.pop_front();
    }
    It begin() { return d.begin(); }
    const E& at(size_t j) const { return d[j]; }
    size_t extra_cells() const { return 0; }
    const E& extra(size_t) const { return d[0]; }
    bool mid_block() const { return off % std::max<size_t>(1, 512 / sizeof(E)) != 0; }
};
//! std::reverse_iterator over a vector / deque that holds the cells back to front (i.e. the container is sorted
//! DEscending w.r.t. the comparator, the iterators see it ascending); logical cell m-1 (a sentinel) is physical cell 0
template <class E, bool Deque>
struct ReverseKind {
    using Cont = typename std::conditional<Deque, std::deque<E>, std::vector<E>>::type;
    using It = std::reverse_iterator<typename Cont::iterator>;
    static constexpr const char* name = Deque ? "reverse_deque" : "reverse_vector";
    Cont c;
    size_t off = 0;
    void fill(const std::vector<E>& logical, uint64_t salt) {
        if (Deque) { // back offset: cells behind the logical range start at the physical back; remove them again
            const size_t blk = std::max<size_t>(1, 512 / sizeof(E));
            off = (size_t)(salt % (blk + 3));
        }
        for (size_t j = logical.size(); j-- > 0;) c.push_back(logical[j]);
        for (size_t j = 0; j < off; ++j) c.push_back(logical.empty() ? E() : logical[0]);
        for (size_t j = 0; j < off; ++j) c.pop_back();
        if (!Deque) Cont(c).swap(c); // exact-size heap block
    }
    It begin() { return It(c.end()); }
    const E& at(size_t j) const { return c[c.size() - 1 - j]; }
    size_t extra_cells() const { return 0; }
    const E& extra(size_t) const { return c[0]; }
    bool mid_block() const { return Deque; }
};
//! own random-access iterator: cell j is element off + j*stride of a vector (stride 2, 3 or -2; the cells in between
//! hold a filler value that must never be read or written). Index-based, so no out-of-range pointer is ever formed.
template <class E>
struct StrideIt {
    using iterator_category = std::random_access_iterator_tag;
    using value_type = E;
    using difference_type = std::ptrdiff_t;
    using pointer = E*;
    using reference = E&;
    E* base = nullptr;
    std::ptrdiff_t off = 0, stride = 1, idx = 0;
    reference operator*() const { return base[off + idx * stride]; }
    pointer operator->() const { return &base[off + idx * stride]; }
    reference operator[](difference_type n) const { return base[off + (idx + n) * stride]; }
    StrideIt& operator++() { return ++idx, *this; }
    StrideIt& operator--() { return --idx, *this; }
    StrideIt operator++(int) { StrideIt t = *this; return ++idx, t; }
    StrideIt operator--(int) { StrideIt t = *this; return --idx, t; }
    StrideIt& operator+=(difference_type n) { return idx += n, *this; }
    StrideIt& operator-=(difference_type n) { return idx -= n, *this; }
    friend StrideIt operator+(StrideIt a, difference_type n) { return a += n; }
    friend StrideIt operator+(difference_type n, StrideIt a) { return a += n; }
    friend StrideIt operator-(StrideIt a, difference_type n) { return a -= n; }
    friend difference_type operator-(const StrideIt& a, const StrideIt& b) { return a.idx - b.idx; }
    friend bool operator==(const StrideIt& a, const StrideIt& b) { return a.idx == b.idx; }
    friend bool operator!=(const StrideIt& a, const StrideIt& b) { return a.idx != b.idx; }
    friend bool operator<(const StrideIt& a, const StrideIt& b) { return a.idx < b.idx; }
    friend bool operator>(const StrideIt& a, const StrideIt& b) { return a.idx > b.idx; }
    friend bool operator<=(const StrideIt& a, const StrideIt& b) { return a.idx <= b.idx; }
    friend bool operator>=(const StrideIt& a, const StrideIt& b) { return a.idx >= b.idx; }
};
template <class E>
struct StrideKind {
    using It = StrideIt<E>;
    static constexpr const char* name = "stride";
    std::vector<E> v;
    E fillv = Tr<E>::make(POISON_KEY + 1, 251, 60001);
    std::ptrdiff_t stride = 2, off = 0;
    size_t m = 0;
    void fill(const std::vector<E>& logical, uint64_t salt) {
        static const int S[3] = {2, 3, -2};
        stride = S[salt % 3];
        m = logical.size();
        const size_t a = (size_t)(stride < 0 ? -stride : stride);
        v.assign(m == 0 ? 0 : (m - 1) * a + 1, fillv);
        off = stride < 0 && m > 0 ? (std::ptrdiff_t)((m - 1) * a) : 0;
        for (size_t j = 0; j < m; ++j) v[(size_t)(off + (std::ptrdiff_t)j * stride)] = logical[j];
    }
    It begin() {
        It it;
        it.base = v.data(), it.off = off, it.stride = stride, it.idx = 0;
        return it;
    }
    const E& at(size_t j) const { return v[(size_t)(off + (std::ptrdiff_t)j * stride)]; }
    //! the filler cells between the logical ones (must stay untouched)
    size_t extra_cells() const { return v.size() - m; }
    const E& extra(size_t x) const {
        const size_t a = (size_t)(stride < 0 ? -stride : stride);
        return v[x / (a - 1) * a + 1 + x % (a - 1)];
    }
    const E& filler() const { return fillv; }
    bool mid_block() const { return false; }
};
template <class K>
struct IsStride : std::false_type {};
template <class E>
struct IsStride<StrideKind<E>> : std::true_type {};

static const char* const IT_PAIR_LABEL[8] = {"in=deque,out=vector",          "in=reverse_vector,out=vector", "in=stride,out=deque",
                                             "in=vector,out=deque",          "in=pointer,out=reverse_vector", "in=deque,out=deque",
                                             "in=reverse_deque,out=stride",  "in=reverse_vector,out=reverse_deque"};

static const char* const ENTRY_NAME[8] = {"multiway_merge",
                                          "stable_multiway_merge",
                                          "multiway_merge_sentinels",
                                          "stable_multiway_merge_sentinels",
                                          "multiway_merge_base<false,false>",
                                          "multiway_merge_base<true,false>",
                                          "multiway_merge_base<false,true>",
                                          "multiway_merge_base<true,true>"};
static const char* const ALG_NAME[5] = {"(default)", "MWMA_LOSER_TREE", "MWMA_LOSER_TREE_COMBINED", "MWMA_LOSER_TREE_SENTINEL",
                                        "MWMA_BUBBLE"};
static const char* const ALG_LABEL[5] = {"alg=default", "alg=loser_tree", "alg=combined", "alg=sentinel", "alg=bubble"};

inline int draw_k(pbt::Source& src) {
    // a zero byte (also: bytes used up) gives k = 4 (24 order states; its overhang phase is the 3-way routine)
    static const int K[13] = {4, 3, 5, 2, 1, 0, 6, 7, 8, 9, 10, 11, 12};
    size_t c = src.weighted({20, 16, 10, 5, 3, 2, 6, 6, 6, 4, 3, 3, 3, 5});
    if (c < 13) return K[c];
    return (int)src.range(13, 40);
}

// ---------------------------------------------------------------- one case

//! what a generator produces: the tuple of sorted key sequences, the merge length, and how to place sentinels
struct Shape {
    int k = 0;
    std::vector<int> n;                 // sequence sizes
    std::vector<std::vector<int>> keys; // sorted by the comparator
    std::ptrdiff_t total = 0, length = 0;
    std::ptrdiff_t ub_unstable = -1, ub_stable = -1; // unguarded-phase boundary (what prepare_unguarded computes); -1: an empty sequence
    int sentvary = 0;
    bool omit_cmp = false;
    bool dominant = false;
    int nvals = 1;
    // scale target only (labels)
    int prof = -1, keymode = -1;
    // iters target only: lay-out salt (deque offsets, strides) and labels
    uint64_t salt = 0;
    int sizemode = -1;
};

//! unguarded-phase boundary (what prepare_unguarded computes), for labels and the length bias
inline void compute_boundary(Shape& sh, bool desc) {
    auto kless = [desc](int a, int b) { return desc ? b < a : a < b; };
    const int k = sh.k;
    sh.ub_unstable = sh.ub_stable = -1;
    bool has_empty = false;
    for (int i = 0; i < k; ++i) has_empty = has_empty || sh.n[i] == 0;
    if (k > 0 && !has_empty) {
        int m = sh.keys[0].back(), mseq = 0;
        for (int i = 1; i < k; ++i)
            if (kless(sh.keys[i].back(), m)) m = sh.keys[i].back(), mseq = i;
        sh.ub_unstable = sh.ub_stable = 0;
        for (int i = 0; i < k; ++i)
            for (int x : sh.keys[i]) {
                if (kless(x, m)) ++sh.ub_unstable, ++sh.ub_stable;
                else if (!kless(m, x) && i <= mseq) ++sh.ub_stable;
            }
    }
}

//! target `merge`: small shapes, every detail drawn from the choice bytes (the draw order is frozen: stored
//! witnesses and the fuzz corpus depend on it)
inline void gen_base(pbt::Source& src, const Cfg& cfg, Shape& sh) {
    const bool desc = cfg.desc;
    auto kless = [desc](int a, int b) { return desc ? b < a : a < b; };
    const int k = sh.k = draw_k(src);
    const int vsel = (int)src.range(0, 9); // 0..7 -> 1..8 distinct values (heavy ties); 8,9 -> wide
    const int nvals = sh.nvals = vsel < 8 ? vsel + 1 : 1001;
    const size_t lenmode = src.weighted({6, 5, 4, 1, 2, 2, 6}); // full, total-uniform, uniform, 0, 1, total-1, unguarded boundary
    sh.sentvary = (int)src.range(0, 2);
    sh.dominant = src.chance(32);
    sh.omit_cmp = src.boolean();
    // empty sequences: none (so that the unguarded phase of the combined algorithms is reached) / few / many
    const size_t emptymode = src.weighted({5, 3, 2});
    const unsigned emptyp = emptymode == 0 ? 0 : emptymode == 1 ? 12 : 72;
    std::vector<int>& n = sh.n;
    n.assign(k, 0);
    for (int i = 0; i < k; ++i) {
        unsigned t = src.u8();
        if (t < emptyp) n[i] = 0;
        else {
            n[i] = t < 120 ? 1 + (int)(t % 4) : (int)((t - 120) % 31);
            if (emptymode == 0 && n[i] == 0) n[i] = 1;
        }
    }
    if (sh.dominant && k > 0) {
        size_t d = src.index((size_t)k);
        n[d] = (int)src.range(0, 300);
    }
    std::ptrdiff_t total = 0;
    for (int i = 0; i < k; ++i) total += n[i];
    sh.total = total;

    // ---- keys: drawn, then sorted by the comparator
    sh.keys.assign(k, std::vector<int>());
    for (int i = 0; i < k; ++i) {
        sh.keys[i].resize(n[i]);
        for (int j = 0; j < n[i]; ++j) sh.keys[i][j] = (int)src.range(0, nvals - 1);
        std::sort(sh.keys[i].begin(), sh.keys[i].end(), kless);
    }
    compute_boundary(sh, desc);

    // ---- length
    std::ptrdiff_t length = total;
    switch (lenmode) {
    case 0: length = total; break;
    case 1: length = total - (std::ptrdiff_t)src.range(0, total); break; // choice bytes are biased to small values:
    case 2: length = (std::ptrdiff_t)src.range(0, total); break;         // cover both ends of 0..total
    case 3: length = 0; break;
    case 4: length = std::min<std::ptrdiff_t>(1, total); break;
    case 5: length = std::max<std::ptrdiff_t>(0, total - 1); break;
    default: {
        std::ptrdiff_t base = src.boolean() ? sh.ub_stable : sh.ub_unstable;
        std::ptrdiff_t l = base + (std::ptrdiff_t)src.range(0, 2) - 1;
        if (sh.ub_unstable < 0 || l < 0 || l > total) length = total - (std::ptrdiff_t)src.range(0, total);
        else length = l;
        break;
    }
    }
    sh.length = length;
}

//! local PRNG for the scale shapes (splitmix64): a case stays a pure function of its choice bytes
struct Rng {
    uint64_t s;
    uint64_t next() {
        uint64_t z = (s += 0x9E3779B97F4A7C15ull);
        z = (z ^ (z >> 30)) * 0xBF58476D1CE4E5B9ull;
        z = (z ^ (z >> 27)) * 0x94D049BB133111EBull;
        return z ^ (z >> 31);
    }
    //! uniform in 0..n-1 (0 for n = 0)
    long below(long n) { return n <= 0 ? 0 : (long)(next() % (uint64_t)n); }
};

static const char* const PROF_LABEL[5] = {"prof=uniform", "prof=equal_len", "prof=few_long", "prof=skewed", "prof=tiny_seqs"};
static const char* const KEYMODE_LABEL[7] = {"keys=1..8_values",     "keys=all_equal",         "keys=moderate", "keys=wide",
                                             "keys=disjoint_by_seq", "keys=disjoint_reversed", "keys=identical_ramps"};

//! target `merge_scale`: SCALE classes. The statement quantifies over any number of sequences of any size; gen_base
//! stays at k <= 40 and sequences <= 30 (one <= 300). Here the selectors (classes and the exact k) come from the
//! choice bytes and the bulk (sizes, keys) is expanded from a drawn 32-bit seed:
//!   k        4,3,2,5..8,1 (with LONG sequences) | 2^j-1, 2^j, 2^j+1 for j = 5..8 | 9..40 | 41..300 | 511..513 |
//!            1023..1025 | 301..1100
//!   total    <= 1 500 (most) | <= 6 000 | <= 25 000 | <= 100 000 (rare); bubble merge: total * k <= 2e7
//!   sizes    uniform 1..2*avg | all equal (often 2^j-1, 2^j, 2^j+1) | 1..4 long sequences holding ~80 % | skewed
//!            (cubic) | tiny 1..4; then none / few / a third of the sequences emptied
//!   keys     1..8 values | all equal | ~total/8 values | wide | disjoint ranges in sequence order (the unguarded phase
//!            ends with sequence 0) | disjoint in reverse order | identical ramps 0,1,2,.. in every sequence
//!   length   total | near total | uniform | 0 | 1 | total-1 | unguarded-phase boundary of the stable or the unstable
//!            routine -1/+0/+1 (weight 9 of 24)
//! All inside the documented preconditions (sorted by the comparator, length <= total); same oracle as `merge`.
inline void gen_scale(pbt::Source& src, const Cfg& cfg, Shape& sh) {
    const bool desc = cfg.desc;
    auto kless = [desc](int a, int b) { return desc ? b < a : a < b; };
    // ---- seed first, then the selectors. A selector whose byte is present is decoded from it (zero = simplest: k = 4,
    // smallest budget, uniform sizes, few key values, full length); once the bytes are used up the remaining selectors
    // are taken from the seeded PRNG, so that short byte strings do not all collapse onto the simplest class.
    Rng rng{(src.bits(4) * 0x2545F4914F6CDD1Dull + 0x1234567ull) ^ ((uint64_t)(cfg.entry * 10 + cfg.alg * 2 + cfg.desc) << 40) ^ ((uint64_t)src.size() << 52)};
    auto weighted = [&](std::initializer_list<unsigned> w) -> size_t {
        if (!src.exhausted()) return src.weighted(w);
        unsigned tot = 0;
        for (unsigned x : w) tot += x;
        unsigned r = (unsigned)rng.below((long)tot);
        size_t i = 0;
        for (unsigned x : w) {
            if (r < x) return i;
            r -= x;
            ++i;
        }
        return w.size() - 1;
    };
    auto range = [&](int lo, int hi) -> int { return !src.exhausted() ? (int)src.range(lo, hi) : lo + (int)rng.below(hi - lo + 1); };
    int k;
    switch (weighted({5, 5, 4, 4, 2, 1, 2})) {
    case 0: {
        static const int K[8] = {4, 3, 2, 5, 6, 8, 7, 1};
        k = K[range(0, 7)];
        break;
    }
    case 1: k = (1 << range(5, 8)) + range(0, 2) - 1; break; // 31,32,33 .. 255,256,257
    case 2: k = range(9, 40); break;
    case 3: k = range(41, 300); break;
    case 4: k = 511 + range(0, 2); break;
    case 5: k = 1023 + range(0, 2); break;
    default: k = range(301, 1100); break;
    }
    static const long BUDGET[4] = {1500, 6000, 25000, 100000};
    const long budget = BUDGET[weighted({16, 5, 2, 1})];
    int prof = (int)weighted({4, 3, 3, 3, 3});
    const int keymode = (int)weighted({5, 2, 3, 3, 2, 2, 3});
    const size_t lenmode = weighted({5, 3, 3, 1, 1, 2, 9});
    const size_t emptymode = weighted({6, 2, 2});
    const int lensel = range(0, 5);
    sh.sentvary = range(0, 2);
    sh.omit_cmp = range(0, 1) != 0;

    sh.k = k;
    // ---- sizes
    long T = budget / 4 + rng.below(3 * budget / 4 + 1);
    const int eff_alg = cfg.alg == 0 ? 2 : (cfg.alg == 3 && !entry_sentinels(cfg.entry)) ? 2 : cfg.alg;
    if (eff_alg == 4 && k >= 5) T = std::min(T, 20000000L / k); // the bubble merge is O(k) per element
    if (T < k) T = k;
    const long avg = std::max(1L, T / k);
    if (prof == 4 && k <= 12) prof = 0; // tiny sequences with small k: that is target `merge`
    std::vector<int>& n = sh.n;
    n.assign(k, 1);
    switch (prof) {
    case 0: // uniform 1..2*avg
        for (int i = 0; i < k; ++i) n[i] = 1 + (int)rng.below(2 * avg);
        break;
    case 1: { // all the same size; for sizes >= 8 mostly next to a power of two
        long L = avg;
        if (L >= 8 && rng.below(4) != 0) {
            long p = 8;
            while (2 * p <= L) p *= 2;
            L = p + rng.below(3) - 1;
        }
        for (int i = 0; i < k; ++i) n[i] = (int)L;
        break;
    }
    case 2: { // 1..4 long sequences with ~80 % of the elements, the others short
        const int m = 1 + (int)rng.below(std::min(4, k));
        const long rest = std::max(1L, (T / 5) / k);
        for (int i = 0; i < k; ++i) n[i] = 1 + (int)rng.below(2 * rest);
        for (int j = 0; j < m; ++j) n[(size_t)rng.below(k)] = (int)std::max(1L, (4 * T / 5) / m - rng.below(3));
        break;
    }
    case 3: // skewed: many small, a few large (4*avg*u^3, mean = avg)
        for (int i = 0; i < k; ++i) {
            double u = (double)rng.below(1000001) / 1e6;
            n[i] = 1 + (int)(4.0 * (double)avg * u * u * u);
        }
        break;
    default: // tiny 1..4
        for (int i = 0; i < k; ++i) n[i] = 1 + (int)rng.below(4);
        break;
    }
    if (emptymode > 0) {
        const long one_in = emptymode == 1 ? 20 : 3;
        for (int i = 0; i < k; ++i)
            if (rng.below(one_in) == 0) n[i] = 0;
        if (emptymode == 1 && k > 0 && rng.below(2)) n[(size_t)rng.below(k)] = 0; // few: make one more likely for small k
    }
    std::ptrdiff_t total = 0;
    for (int i = 0; i < k; ++i) total += n[i];
    sh.total = total;

    // ---- keys (non-negative, < 2^30), then sorted by the comparator
    sh.keys.assign(k, std::vector<int>());
    const long nv = keymode == 0 ? 1 + rng.below(8) : keymode == 2 ? std::max<long>(2, total / 8) : 1000001;
    const long W = 1 + rng.below(keymode >= 4 ? 600 : 1); // width of a disjoint range (neighbours share the boundary value)
    sh.nvals = keymode == 0 ? (int)nv : keymode == 1 ? 1 : 1001;
    for (int i = 0; i < k; ++i) {
        std::vector<int>& v = sh.keys[i];
        v.resize(n[i]);
        // rank of sequence i in comparator order for the disjoint modes
        const long r = keymode == 4 ? i : k - 1 - i;
        const long rr = desc ? k - 1 - r : r;
        for (int j = 0; j < n[i]; ++j) {
            switch (keymode) {
            case 1: v[j] = 7; break;
            case 4:
            case 5: v[j] = (int)(rr * W + rng.below(W + 1)); break;
            case 6: v[j] = desc ? 1000000 - j : j; break;
            default: v[j] = (int)rng.below(nv); break;
            }
        }
        std::sort(v.begin(), v.end(), kless);
    }
    compute_boundary(sh, desc);

    // ---- length
    std::ptrdiff_t length = total;
    switch (lenmode) {
    case 0: length = total; break;
    case 1: length = total - (std::ptrdiff_t)rng.below(std::min<long>(total, 40) + 1); break;
    case 2: length = (std::ptrdiff_t)rng.below(total + 1); break;
    case 3: length = 0; break;
    case 4: length = std::min<std::ptrdiff_t>(1, total); break;
    case 5: length = std::max<std::ptrdiff_t>(0, total - 1); break;
    default: {
        std::ptrdiff_t base = (lensel & 1) ? sh.ub_stable : sh.ub_unstable;
        std::ptrdiff_t l = base + (lensel >> 1) - 1;
        if (sh.ub_unstable < 0 || l < 0 || l > total) length = total - (std::ptrdiff_t)rng.below(total + 1);
        else length = l;
        break;
    }
    }
    sh.length = length;
    sh.prof = prof;
    sh.keymode = keymode;
}

static const char* const ITERS_SIZE_LABEL[4] = {"sizes=1-2_long_rest_short", "sizes=around_block_multiples", "sizes=uniform_0..3_blocks", "sizes=short_0..8"};
static const char* const ITERS_KEY_LABEL[5] = {"keys=1..8_values", "keys=moderate", "keys=wide", "keys=disjoint_by_seq(random_rank)", "keys=identical_ramps"};

//! target `merge_iters`: shapes for the iterator-kind dimension. What matters here is how the sequences lie relative to
//! the 512-byte blocks of a std::deque (`blk` = elements per block for the element type) and that one input runs out
//! while another still has a long tail (the bulk-copy paths of merge_advance / the k = 1 copy): selectors from the
//! choice bytes, sizes and keys expanded from a drawn 24-bit seed.
//!   k        2, 3, 4, 5, 1, 6..10, 12, 0 | 13..40
//!   sizes    1-2 long sequences (1..5 blocks) and short others | every sequence m*blk-1/+0/+1 (m = 1..3) | uniform
//!            0..3 blocks | short 0..8; total capped at ~2500; then none / few / a third of the sequences emptied
//!   keys     1..8 values | ~total/4 values | wide | disjoint ranges, sequences in a random rank order (one input is
//!            exhausted long before the other: long tails) | identical ramps
//!   length   as in `merge`: total | near total | uniform | 0 | 1 | total-1 | unguarded boundary -1/+0/+1
inline void gen_iters(pbt::Source& src, const Cfg& cfg, Shape& sh, int blk) {
    const bool desc = cfg.desc;
    auto kless = [desc](int a, int b) { return desc ? b < a : a < b; };
    static const int K[12] = {2, 3, 4, 5, 1, 6, 7, 8, 9, 10, 12, 0};
    const size_t kc = src.weighted({10, 9, 6, 4, 1, 2, 2, 2, 1, 1, 1, 1, 3});
    const int k = sh.k = kc < 12 ? K[kc] : (int)src.range(13, 40);
    const int sizemode = sh.sizemode = (int)src.weighted({5, 4, 3, 3});
    const int keymode = sh.keymode = (int)src.weighted({4, 3, 3, 4, 2});
    const size_t lenmode = src.weighted({6, 4, 4, 1, 1, 2, 5});
    const size_t emptymode = src.weighted({6, 3, 1});
    const int lensel = (int)src.range(0, 5);
    sh.sentvary = (int)src.range(0, 2);
    const uint64_t seed = src.bits(3);
    Rng rng{seed * 0x2545F4914F6CDD1Dull + 0x7654321ull + ((uint64_t)(cfg.entry * 80 + cfg.alg * 16 + cfg.pair * 2 + cfg.desc) << 44)};
    sh.salt = rng.next();

    // ---- sizes
    const long cap = std::max<long>(8, 2500 / std::max(1, k)); // per-sequence cap
    std::vector<int>& n = sh.n;
    n.assign(k, 0);
    for (int i = 0; i < k; ++i) {
        long L;
        switch (sizemode) {
        case 0: L = 1 + rng.below(6); break;
        case 1: L = blk * (1 + rng.below(3)) + rng.below(3) - 1; break;
        case 2: L = rng.below(3L * blk + 1); break;
        default: L = rng.below(9); break;
        }
        n[i] = (int)std::min(L, cap);
    }
    if (sizemode == 0 && k > 0) {
        const int m = 1 + (int)rng.below(2);
        for (int j = 0; j < m; ++j) n[(size_t)rng.below(k)] = (int)std::min<long>(blk * (1 + rng.below(4)) + rng.below(blk), std::max<long>(cap, 5L * blk));
    }
    if (emptymode > 0) {
        const long one_in = emptymode == 1 ? 8 : 3;
        for (int i = 0; i < k; ++i)
            if (rng.below(one_in) == 0) n[i] = 0;
    }
    std::ptrdiff_t total = 0;
    for (int i = 0; i < k; ++i) total += n[i];
    sh.total = total;

    // ---- keys (non-negative), then sorted by the comparator
    sh.keys.assign(k, std::vector<int>());
    const long nv = keymode == 0 ? 1 + rng.below(8) : keymode == 1 ? std::max<long>(2, total / 4) : 1000001;
    sh.nvals = keymode == 0 ? (int)nv : 1001;
    std::vector<int> rank(k);
    for (int i = 0; i < k; ++i) rank[i] = i;
    for (int i = k - 1; i > 0; --i) std::swap(rank[i], rank[(size_t)rng.below(i + 1)]);
    const long W = 1 + rng.below(50);
    for (int i = 0; i < k; ++i) {
        std::vector<int>& v = sh.keys[i];
        v.resize(n[i]);
        for (int j = 0; j < n[i]; ++j) {
            switch (keymode) {
            case 3: v[j] = (int)(rank[i] * W + rng.below(W + 1)); break; // neighbouring ranges share the boundary value
            case 4: v[j] = j; break;
            default: v[j] = (int)rng.below(nv); break;
            }
        }
        std::sort(v.begin(), v.end(), kless);
    }
    compute_boundary(sh, desc);

    // ---- length
    std::ptrdiff_t length = total;
    switch (lenmode) {
    case 0: length = total; break;
    case 1: length = total - (std::ptrdiff_t)rng.below(std::min<long>(total, 12) + 1); break;
    case 2: length = (std::ptrdiff_t)rng.below(total + 1); break;
    case 3: length = 0; break;
    case 4: length = std::min<std::ptrdiff_t>(1, total); break;
    case 5: length = std::max<std::ptrdiff_t>(0, total - 1); break;
    default: {
        std::ptrdiff_t base = (lensel & 1) ? sh.ub_stable : sh.ub_unstable;
        std::ptrdiff_t l = base + (lensel >> 1) - 1;
        if (sh.ub_unstable < 0 || l < 0 || l > total) length = total - (std::ptrdiff_t)rng.below(total + 1);
        else length = l;
        break;
    }
    }
    sh.length = length;
}

template <class E, class InK, class OutK, bool DequeSeqs, bool Stable, class Cmp>
void run_case_x(pbt::Source& src, const Cfg& cfg, Cmp cmp) {
    using T = Tr<E>;
    using It = typename InK::It;
    using OIt = typename OutK::It;
    const bool stable = Stable, sent = entry_sentinels(cfg.entry), desc = cfg.desc;
    auto kless = [desc](int a, int b) { return desc ? b < a : a < b; };

    // ---- shape
    Shape sh;
    if (cfg.iters) gen_iters(src, cfg, sh, (int)std::max<size_t>(1, 512 / sizeof(E)));
    else if (cfg.scale) gen_scale(src, cfg, sh);
    else gen_base(src, cfg, sh);
    const bool scale = cfg.scale;
    const int k = sh.k;
    const std::vector<int>& n = sh.n;
    const std::vector<std::vector<int>>& keys = sh.keys;
    const std::ptrdiff_t total = sh.total, length = sh.length;
    const std::ptrdiff_t ub_unstable = sh.ub_unstable, ub_stable = sh.ub_stable;
    const int sentvary = sh.sentvary, nvals = sh.nvals;
    const bool omit_cmp = sh.omit_cmp, dominant = sh.dominant;
    int kmax = 0, kmin = 0, maxseq = 0;
    {
        bool any = false;
        for (int i = 0; i < k; ++i) {
            maxseq = std::max(maxseq, n[i]);
            for (int x : keys[i]) {
                if (!any || x > kmax) kmax = x;
                if (!any || x < kmin) kmin = x;
                any = true;
            }
        }
    }

    // ---- build the inputs: the logical cells of each sequence, then one store per sequence (vector kinds: one
    // exact-size heap block, ASan red zone right behind it; the other kinds: see "storage / iterator kinds")
    std::vector<std::vector<E>> orig_(k);
    for (int i = 0; i < k; ++i) {
        orig_[i].resize((size_t)n[i] + (sent ? 1 : 0));
        for (int j = 0; j < n[i]; ++j) orig_[i][j] = T::make(keys[i][j], i, j);
        if (sent) {
            // documented precondition of the *_sentinels entry points: one more element behind each
            // sequence that is strictly greater (w.r.t. the comparator) than every real element
            int off = (i * sentvary) % 3;
            int sk = desc ? kmin - 1 - off : kmax + 1 + off;
            orig_[i][n[i]] = T::make(sk, i, n[i]);
        }
    }
    const std::vector<std::vector<E>>& orig = orig_;
    Rng layout{sh.salt ^ 0x5bd1e995u};
    std::vector<InK> bufs(k);
    for (int i = 0; i < k; ++i) bufs[i].fill(orig[i], layout.next() >> 8);
    // the sequence of iterator pairs: std::vector, or (merge_iters) a std::deque whose begin is not at a block start
    using SeqCont = typename std::conditional<DequeSeqs, std::deque<std::pair<It, It>>, std::vector<std::pair<It, It>>>::type;
    SeqCont seqs;
    std::vector<It> base(k);
    const size_t seqs_off = DequeSeqs ? (size_t)(layout.next() % 11) : 0;
    for (size_t j = 0; j < seqs_off; ++j) seqs.push_back(std::pair<It, It>());
    for (int i = 0; i < k; ++i) {
        base[i] = bufs[i].begin();
        seqs.push_back(std::make_pair(base[i], base[i] + n[i]));
    }
    if constexpr (DequeSeqs)
        for (size_t j = 0; j < seqs_off; ++j) seqs.pop_front();
    const std::vector<std::pair<It, It>> seqs0(seqs.begin(), seqs.end());

    // ---- output with guard cells (anything further out is an ASan red zone for the vector kinds)
    const std::ptrdiff_t G = 2;
    const E poison = T::make(POISON_KEY, 250, 60000);
    OutK out;
    out.fill(std::vector<E>((size_t)(length + 2 * G), poison), layout.next() >> 8);
    OIt target = out.begin() + G;

    // ---- labels / non-triviality
    int nonempty = 0;
    for (int i = 0; i < k; ++i) nonempty += n[i] > 0;
    bool shared_key = false;
    {
        std::vector<std::pair<int, int>> ks; // (key, seq)
        for (int i = 0; i < k; ++i)
            for (int x : keys[i])
                if (ks.empty() || ks.back() != std::make_pair(x, i)) ks.emplace_back(x, i);
        std::sort(ks.begin(), ks.end());
        for (size_t i = 1; i < ks.size(); ++i) shared_key = shared_key || ks[i].first == ks[i - 1].first;
    }
    pbt::label(k == 0    ? "k=0"
               : k == 1  ? "k=1"
               : k == 2  ? "k=2"
               : k == 3  ? "k=3"
               : k == 4  ? "k=4"
               : k <= 12 ? "k=5..12"
               : k <= 40 ? "k=13..40"
               : k <= 128 ? "k=41..128"
               : k <= 300 ? "k=129..300"
               : k <= 600 ? "k=301..600"
                          : "k=601..1100");
    pbt::label(ALG_LABEL[cfg.alg]);
    pbt::label(stable ? "stable" : "unstable");
    pbt::label(sent ? "sentinels" : "no_sentinels");
    pbt::label(cfg.entry >= 4 ? "entry=base" : "entry=frontend");
    pbt::label(desc ? "cmp=greater" : "cmp=less");
    pbt::label(std::is_same<E, int>::value    ? "type=int"
               : std::is_same<E, Rec8>::value ? "type=rec8"
               : std::is_same<E, Rec40>::value ? "type=rec40"
               : std::is_same<E, RecH>::value  ? "type=rech_owning_16B"
                                               : "type=recs_owning_string");
    if (cfg.iters) {
        pbt::label(IT_PAIR_LABEL[cfg.pair]);
        pbt::label("cmp_owning_state");
        pbt::label("seqs_in_deque");
        pbt::label(ITERS_SIZE_LABEL[sh.sizemode]);
        pbt::label(ITERS_KEY_LABEL[sh.keymode]);
        const size_t blk = std::max<size_t>(1, 512 / sizeof(E));
        bool midblk = false;
        for (int i = 0; i < k; ++i) midblk = midblk || (n[i] > 0 && bufs[i].mid_block());
        if (midblk) pbt::label("in_begin_mid_block");
        if ((size_t)maxseq > blk) pbt::label("seq_longer_than_512B_block");
        if ((size_t)maxseq > 2 * blk) pbt::label("seq_longer_than_2_blocks");
        int nlong = 0;
        for (int i = 0; i < k; ++i) nlong += (size_t)n[i] > blk;
        if (nlong >= 2) pbt::label("2+_seqs_longer_than_block");
        if ((size_t)length > blk) pbt::label("output_longer_than_512B_block");
        if (k == 2) pbt::label(length == total ? "k=2_full(merge_advance_tail)" : "k=2_partial");
    }
    if (length < total) pbt::label("partial");
    if (length == 0) pbt::label("length=0");
    else if (length == 1) pbt::label("length=1");
    if (length == total && total > 0) pbt::label("length=total");
    if (length == total - 1 && total > 1) pbt::label("length=total-1");
    if (k >= 2 && n[0] == 0) pbt::label("empty_seq_first");
    if (k >= 2 && n[k - 1] == 0) pbt::label("empty_seq_last");
    for (int i = 1; i + 1 < k; ++i)
        if (n[i] == 0) {
            pbt::label("empty_seq_middle");
            break;
        }
    if (k >= 1 && nonempty == 0) pbt::label("all_seqs_empty");
    if (dominant && k > 0) pbt::label("dominant_seq");
    if (!scale) {
        if (nvals > 8) pbt::label("keys_wide");
        else if (nvals == 1) pbt::label("keys_all_equal");
        else pbt::label("keys_2..8_values");
    }
    // which internal path the switch in multiway_merge_base takes
    const int eff_alg = cfg.alg == 0 ? 2 : (cfg.alg == 3 && !sent) ? 2 : cfg.alg;
    std::ptrdiff_t ung_len = 0, ovh_len = 0; // sizes of the two phases of the combined algorithms
    if (k >= 3 && eff_alg == 2) {
        std::ptrdiff_t ub = (k <= 4 || stable) ? ub_stable : ub_unstable;
        if (ub < 0) pbt::label("combined:empty_seq_guarded_only");
        else {
            std::ptrdiff_t ung = std::min(length, ub);
            ung_len = ung;
            ovh_len = length - ung;
            if (ung > 0) pbt::label("unguarded_phase_nonempty");
            if (length - ung > 0) pbt::label("overhang_nonempty");
            if (ung > 0 && length - ung > 0) pbt::label("unguarded+overhang");
            if (length == ub) pbt::label("length=unguarded_boundary");
            if (length == ub - 1) pbt::label("length=unguarded_boundary-1");
            if (length == ub + 1) pbt::label("length=unguarded_boundary+1");
        }
    }
    if (k >= 5 && (eff_alg == 1 || eff_alg == 2 || eff_alg == 3)) {
        pbt::label(sizeof(E) > 2 * sizeof(size_t) ? "pointer_tree" : "copy_tree");
        if (eff_alg == 3) pbt::label("sentinel_tree_k>=5");
    }
    if (k >= 5 && eff_alg == 4) pbt::label("bubble_k>=5");
    if ((k == 3 || k == 4) && eff_alg == 3) pbt::label("unguarded_3/4way_with_sentinels");
    if ((k == 3 || k == 4) && (eff_alg == 1 || eff_alg == 4)) pbt::label("guarded_3/4way");
    if (shared_key) pbt::label("key_in_2+_seqs");
    if (scale) {
        // the size dimensions
        pbt::label(PROF_LABEL[sh.prof]);
        pbt::label(KEYMODE_LABEL[sh.keymode]);
        if (k >= 31 && ((k + 1) & k) == 0) pbt::label("k=2^j-1");
        if (k >= 31 && (k & (k - 1)) == 0) pbt::label("k=2^j");
        if (k >= 31 && ((k - 1) & (k - 2)) == 0) pbt::label("k=2^j+1");
        if (nonempty > 16) pbt::label("nonempty_seqs>16");
        if (nonempty > 256) pbt::label("nonempty_seqs>256");
        pbt::label(total < 1000 ? "total<1000" : total < 10000 ? "total=1e3..1e4" : "total=1e4..1e5");
        if (maxseq >= 1000) pbt::label("maxseq>=1000");
        if (k <= 4 && total >= 1000) pbt::label("k<=4_total>=1000");
        if (ung_len >= 1000) pbt::label("unguarded_phase>=1000");
        if (ovh_len >= 1000) pbt::label("overhang>=1000");
        if (length >= 1000) pbt::label("length>=1000");
        if (k > 16 && eff_alg == 4) pbt::label("bubble_k>16");
        if (k >= 64 && eff_alg == 4) pbt::label("bubble_k>=64");
        if (k >= 64 && eff_alg != 4) pbt::label("tree_k>=64");
        if (k >= 64 && eff_alg != 4 && length >= 4 * k) pbt::label("tree_k>=64_length>=4k");
    }
    if (k >= 3 && nonempty >= 2 && shared_key && length > 0) pbt::nontrivial();

    if (pbt::verbose()) {
        PBT_LOG("tlx::" << ENTRY_NAME[cfg.entry] << " alg=" << ALG_NAME[cfg.alg] << " elem=" << T::name << " (" << sizeof(E)
                        << " bytes) cmp=" << (desc ? "greater" : "less") << (omit_cmp && cfg.alg == 0 && !desc && std::is_same<E, int>::value ? " [comparator and algorithm arguments omitted: std::less<int>]" : "")
                        << " k=" << k << " length=" << length << " of total=" << total << "\n");
        if (scale)
            PBT_LOG("  scale shape: " << PROF_LABEL[sh.prof] << " " << KEYMODE_LABEL[sh.keymode] << " non-empty sequences=" << nonempty
                                      << " longest=" << maxseq << " unguarded boundary (unstable/stable)=" << ub_unstable << "/" << ub_stable
                                      << "\n");
        for (int i = 0; i < k; ++i) {
            if (scale && i >= 40 && i + 4 < k) {
                if (i == 40) PBT_LOG("  ...\n");
                continue;
            }
            PBT_LOG("  seq[" << i << "] n=" << n[i] << " keys:");
            for (int j = 0; j < n[i] && j < (scale ? 24 : 64); ++j) PBT_LOG(" " << keys[i][j]);
            if (n[i] > (scale ? 24 : 64)) PBT_LOG(" ... " << keys[i].back());
            if (sent) PBT_LOG(" | sentinel " << T::key(orig[i][n[i]]));
            PBT_LOG("\n");
        }
    }

    // ---- the call under test
    g_cmp_calls = 0;
    g_cmp_budget = 64 * ((long)total + k + 1) * (k + 1) + 10000; // >> k comparisons per element + set-up
    OIt ret;
    try {
        ret = call_merge<Stable>(cfg, omit_cmp, seqs.begin(), seqs.end(), target, length, cmp);
    } catch (const StepBound&) {
        pbt::label("step_bound_hit");
        PBT_CHECK(false, "C05/runaway-comparisons",
                  "the merge made more than " << g_cmp_budget << " comparator calls (64*(total+k+1)*(k+1)+10000 with total=" << total
                                              << ", k=" << k << ") without returning: it does not terminate / makes no progress");
    }

    if (g_cmp_calls * 16 > g_cmp_budget) pbt::label("cmp_calls>budget/16"); // margin check of the work bound (expected: never)

    // ---- oracle
    PBT_CHECK(ret - target == length, "C05/return",
              "returned iterator is target+" << (ret - target) << ", expected target+" << length);
    for (std::ptrdiff_t g = 0; g < G; ++g) {
        PBT_CHECK(T::same(out.at((size_t)g), poison), "C05/overwrite", "cell target-" << (G - g) << " (before the output range) was written");
        PBT_CHECK(T::same(out.at((size_t)(G + length + g)), poison), "C05/overwrite",
                  "cell target+" << (length + g) << " (past the requested length " << length << ") was written");
    }
    if constexpr (IsStride<OutK>::value)
        for (size_t x = 0; x < out.extra_cells(); ++x)
            PBT_CHECK(T::same(out.extra(x), out.filler()), "C05/overwrite", "a cell BETWEEN the cells of the strided output iterator was written");
    // reference: stable merge by (key, seq, pos)
    struct RefE {
        int key, seq, pos;
    };
    std::vector<RefE> ref;
    ref.reserve((size_t)total);
    for (int i = 0; i < k; ++i)
        for (int j = 0; j < n[i]; ++j) ref.push_back(RefE{keys[i][j], i, j});
    std::stable_sort(ref.begin(), ref.end(), [&](const RefE& a, const RefE& b) { return kless(a.key, b.key); });

    if (pbt::verbose()) {
        PBT_LOG("  output:");
        for (std::ptrdiff_t j = 0; j < length && j < 96; ++j) {
            const E& e = out.at((size_t)(G + j));
            if (T::ident) PBT_LOG(" " << T::key(e) << "@" << T::seq(e) << "." << T::pos(e));
            else PBT_LOG(" " << T::key(e));
        }
        PBT_LOG("\n  advanced by:");
        for (int i = 0; i < k; ++i) PBT_LOG(" " << (seqs[i].first - base[i]));
        PBT_LOG("\n");
    }

    std::vector<std::ptrdiff_t> taken(k, 0);
    if (T::ident) {
        for (std::ptrdiff_t j = 0; j < length; ++j) {
            const E& e = out.at((size_t)(G + j));
            PBT_CHECK(!T::same(e, poison), "C05/unwritten", "output slot " << j << " of " << length << " was never written");
            int s = T::seq(e), p = T::pos(e);
            PBT_CHECK(s >= 0 && s < k && p >= 0 && p < n[s] && T::same(e, orig[s][p]), "C05/not-an-input",
                      "output slot " << j << " holds (key " << T::key(e) << ", seq " << s << ", pos " << p
                                     << ") which is not an element of the inputs");
        }
        for (std::ptrdiff_t j = 0; j < length; ++j) {
            const E& e = out.at((size_t)(G + j));
            PBT_CHECK(T::key(e) == ref[(size_t)j].key, "C05/keys",
                      "output slot " << j << " has key " << T::key(e) << ", the " << j << "-th smallest key is " << ref[(size_t)j].key);
        }
        for (std::ptrdiff_t j = 0; j < length; ++j) {
            const E& e = out.at((size_t)(G + j));
            int s = T::seq(e), p = T::pos(e);
            PBT_CHECK(p == taken[s], "C05/prefix",
                      "output slot " << j << " is element " << p << " of sequence " << s << " but element " << taken[s]
                                     << " of that sequence has not been emitted (not a prefix in order)");
            ++taken[s];
        }
        for (int i = 0; i < k; ++i)
            PBT_CHECK(seqs[i].first - base[i] == taken[i], "C05/advance",
                      "sequence " << i << ": begin advanced by " << (seqs[i].first - base[i]) << " but " << taken[i]
                                  << " of its elements were emitted");
        if (stable)
            for (std::ptrdiff_t j = 0; j < length; ++j) {
                const E& e = out.at((size_t)(G + j));
                PBT_CHECK(T::seq(e) == ref[(size_t)j].seq && T::pos(e) == ref[(size_t)j].pos, "C05/stable-order",
                          "stable merge: output slot " << j << " is (key " << T::key(e) << ", seq " << T::seq(e) << ", pos "
                                                       << T::pos(e) << "), the stable merge has (key " << ref[(size_t)j].key
                                                       << ", seq " << ref[(size_t)j].seq << ", pos " << ref[(size_t)j].pos << ") there");
            }
    } else {
        for (std::ptrdiff_t j = 0; j < length; ++j) {
            const E& e = out.at((size_t)(G + j));
            PBT_CHECK(!T::same(e, poison), "C05/unwritten", "output slot " << j << " of " << length << " was never written");
            PBT_CHECK(T::key(e) == ref[(size_t)j].key, "C05/keys",
                      "output slot " << j << " has key " << T::key(e) << ", the " << j << "-th smallest key is " << ref[(size_t)j].key);
        }
        // elements are indistinguishable: the consumed prefixes must add up to the output as a multiset
        std::ptrdiff_t sum = 0;
        std::vector<int> pre;
        for (int i = 0; i < k; ++i) {
            std::ptrdiff_t c = seqs[i].first - base[i];
            PBT_CHECK(c >= 0 && c <= n[i], "C05/advance", "sequence " << i << ": begin advanced by " << c << ", its size is " << n[i]);
            sum += c;
            for (std::ptrdiff_t j = 0; j < c; ++j) pre.push_back(keys[i][(size_t)j]);
        }
        PBT_CHECK(sum == length, "C05/advance", "inputs advanced by " << sum << " elements in total, " << length << " were emitted");
        std::sort(pre.begin(), pre.end(), kless);
        for (std::ptrdiff_t j = 0; j < length; ++j)
            PBT_CHECK(pre[(size_t)j] == ref[(size_t)j].key, "C05/advance",
                      "the consumed input prefixes are not the emitted elements (" << j << "-th smallest consumed key " << pre[(size_t)j]
                                                                                   << ", emitted " << ref[(size_t)j].key << ")");
    }
    for (int i = 0; i < k; ++i) {
        for (size_t j = 0; j < orig[i].size(); ++j)
            PBT_CHECK(T::same(bufs[i].at(j), orig[i][j]), "C05/input-modified", "input sequence " << i << " element " << j << " was modified");
        if constexpr (IsStride<InK>::value)
            for (size_t x = 0; x < bufs[i].extra_cells(); ++x)
                PBT_CHECK(T::same(bufs[i].extra(x), bufs[i].filler()), "C05/input-modified",
                          "input sequence " << i << ": a cell between the cells of the strided iterator was modified");
    }
    if (pbt::verbose())
        for (int i = 0; i < k; ++i)
            if (seqs[i].second != seqs0[i].second) PBT_LOG("  note: end iterator of sequence " << i << " changed (not asserted)\n");
}

//! targets merge / merge_scale: std::vector storage, raw pointers or vector iterators, pairs in a std::vector
template <class E, bool RawPtr, bool Stable, class Cmp>
void run_case(pbt::Source& src, const Cfg& cfg, Cmp cmp) {
    run_case_x<E, VecKind<E, RawPtr>, VecKind<E, RawPtr>, false, Stable>(src, cfg, cmp);
}

//! target merge_iters: dispatch on the (input kind, output kind) pair. To bound the compile time the 8-byte record is
//! instantiated with all eight pairs (two TUs per stability: pairs 0..3 / 4..7), the two owning element types with
//! four pairs each (every kind occurs with every type on the input or the output side): the dispatcher maps the drawn
//! pair with IT_PAIR_OF_TYPE before calling.
static const int IT_PAIR_OF_TYPE[3][8] = {{0, 1, 2, 3, 4, 5, 6, 7},  // rec8
                                          {5, 7, 2, 3, 3, 5, 2, 7},  // rech: stride->deque, vector->deque, deque->deque, reverse_vector->reverse_deque
                                          {0, 1, 6, 4, 4, 0, 6, 1}}; // recs: deque->vector, reverse_vector->vector, pointer->reverse_vector, reverse_deque->stride
template <class E, bool Stable>
void run_iters(pbt::Source& src, const Cfg& cfg) {
    OwnCmp<E> cmp(cfg.desc);
    if constexpr (std::is_same<E, Rec8>::value) {
        switch (cfg.pair) {
        case 0: run_case_x<E, DequeKind<E>, VecKind<E, false>, true, Stable>(src, cfg, cmp); break;
        case 1: run_case_x<E, ReverseKind<E, false>, VecKind<E, false>, true, Stable>(src, cfg, cmp); break;
        case 2: run_case_x<E, StrideKind<E>, DequeKind<E>, true, Stable>(src, cfg, cmp); break;
        default: run_case_x<E, VecKind<E, false>, DequeKind<E>, true, Stable>(src, cfg, cmp); break;
        }
    } else if constexpr (std::is_same<E, RecH>::value) {
        switch (cfg.pair) {
        case 2: run_case_x<E, StrideKind<E>, DequeKind<E>, true, Stable>(src, cfg, cmp); break;
        case 3: run_case_x<E, VecKind<E, false>, DequeKind<E>, true, Stable>(src, cfg, cmp); break;
        case 5: run_case_x<E, DequeKind<E>, DequeKind<E>, true, Stable>(src, cfg, cmp); break;
        default: run_case_x<E, ReverseKind<E, false>, ReverseKind<E, true>, true, Stable>(src, cfg, cmp); break;
        }
    } else {
        switch (cfg.pair) {
        case 0: run_case_x<E, DequeKind<E>, VecKind<E, false>, true, Stable>(src, cfg, cmp); break;
        case 1: run_case_x<E, ReverseKind<E, false>, VecKind<E, false>, true, Stable>(src, cfg, cmp); break;
        case 4: run_case_x<E, VecKind<E, true>, ReverseKind<E, false>, true, Stable>(src, cfg, cmp); break;
        default: run_case_x<E, ReverseKind<E, true>, StrideKind<E>, true, Stable>(src, cfg, cmp); break;
        }
    }
}
//! pairs 4..7 of the 8-byte record
template <class E, bool Stable>
void run_iters_b(pbt::Source& src, const Cfg& cfg) {
    OwnCmp<E> cmp(cfg.desc);
    switch (cfg.pair) {
    case 4: run_case_x<E, VecKind<E, true>, ReverseKind<E, false>, true, Stable>(src, cfg, cmp); break;
    case 5: run_case_x<E, DequeKind<E>, DequeKind<E>, true, Stable>(src, cfg, cmp); break;
    case 6: run_case_x<E, ReverseKind<E, true>, StrideKind<E>, true, Stable>(src, cfg, cmp); break;
    default: run_case_x<E, ReverseKind<E, false>, ReverseKind<E, true>, true, Stable>(src, cfg, cmp); break;
    }
}

} // namespace c05
