// C05 — sequential multiway merge: shared generator + oracle (templated on the
// element type, the iterator kind and the comparator). One TU per element type
// instantiates run_case<> so that the template matrix compiles in parallel.
//
// Elements are (key, seq, pos) records compared BY KEY ONLY, so that "which
// element went where" and stability are observable. Reference = stable merge
// by (key, seq, pos) (= std::stable_sort of the concatenation in sequence
// order).
#pragma once
#include "../engine/pbt.hpp"

#include <algorithm>
#include <cstdint>
#include <cstring>
#include <functional>
#include <tlx/algorithm/multiway_merge.hpp>
#include <utility>
#include <vector>

namespace c05 {

//! selectors drawn first by the dispatcher in C05_merge_main.cpp
struct Cfg {
    int entry; // bit 0 = stable; entry>>1: 0 front-end, 1 front-end *_sentinels, 2 base<Stable,false>, 3 base<Stable,true>
               // (0 multiway_merge, 1 stable_multiway_merge, 2 multiway_merge_sentinels, 3 stable_multiway_merge_sentinels,
               //  4..7 multiway_merge_base<Stable,Sentinels> called directly)
    int alg;   // 0 default argument, 1 LOSER_TREE, 2 LOSER_TREE_COMBINED, 3 LOSER_TREE_SENTINEL, 4 BUBBLE
    bool desc; // comparator direction (greater)
};
inline bool entry_stable(int e) { return e & 1; }
inline bool entry_sentinels(int e) { return (e & 2) != 0; }

// one TU each (the template matrix is split so that it compiles in parallel)
void run_int_u(pbt::Source& src, const Cfg& cfg);
void run_int_s(pbt::Source& src, const Cfg& cfg);
void run_rec8_u(pbt::Source& src, const Cfg& cfg);
void run_rec8_s(pbt::Source& src, const Cfg& cfg);
void run_rec40_u(pbt::Source& src, const Cfg& cfg);
void run_rec40_s(pbt::Source& src, const Cfg& cfg);

// ---------------------------------------------------------------- element types

//! 8 bytes -> copy-based loser trees (sizeof <= 2*sizeof(size_t))
struct Rec8 {
    int32_t key;
    uint16_t pos;
    uint8_t seq;
    uint8_t tag;
};
static_assert(sizeof(Rec8) == 8, "Rec8 must be 8 bytes");
//! 40 bytes -> pointer-based loser trees
struct Rec40 {
    int32_t key;
    int32_t seq;
    int32_t pos;
    unsigned char pad[28];
};
static_assert(sizeof(Rec40) == 40, "Rec40 must be 40 bytes");
static_assert(sizeof(Rec40) > 2 * sizeof(size_t), "Rec40 must select the pointer trees");
static_assert(sizeof(Rec8) <= 2 * sizeof(size_t), "Rec8 must select the copy trees");

static const int POISON_KEY = -2000000007;

template <class E>
struct Tr;
template <>
struct Tr<int> {
    static constexpr bool ident = false;
    static constexpr const char* name = "int";
    static int make(int key, int, int) { return key; }
    static int key(const int& e) { return e; }
    static int seq(const int&) { return -1; }
    static int pos(const int&) { return -1; }
    static bool same(const int& a, const int& b) { return a == b; }
};
template <>
struct Tr<Rec8> {
    static constexpr bool ident = true;
    static constexpr const char* name = "rec8";
    static Rec8 make(int key, int seq, int pos) {
        Rec8 r;
        r.key = key;
        r.pos = (uint16_t)pos;
        r.seq = (uint8_t)seq;
        r.tag = (uint8_t)(seq * 31 + pos * 7 + 1);
        return r;
    }
    static int key(const Rec8& e) { return e.key; }
    static int seq(const Rec8& e) { return e.seq; }
    static int pos(const Rec8& e) { return e.pos; }
    static bool same(const Rec8& a, const Rec8& b) { return a.key == b.key && a.pos == b.pos && a.seq == b.seq && a.tag == b.tag; }
};
template <>
struct Tr<Rec40> {
    static constexpr bool ident = true;
    static constexpr const char* name = "rec40";
    static Rec40 make(int key, int seq, int pos) {
        Rec40 r;
        r.key = key;
        r.seq = seq;
        r.pos = pos;
        for (int i = 0; i < 28; ++i) r.pad[i] = (unsigned char)(seq * 31 + pos * 7 + i);
        return r;
    }
    static int key(const Rec40& e) { return e.key; }
    static int seq(const Rec40& e) { return e.seq; }
    static int pos(const Rec40& e) { return e.pos; }
    static bool same(const Rec40& a, const Rec40& b) {
        return a.key == b.key && a.pos == b.pos && a.seq == b.seq && memcmp(a.pad, b.pad, 28) == 0;
    }
};

//! stateful comparator by key only (direction is run-time state: a merge that
//! default-constructs its comparator instead of using the one passed is caught)
//! comparison budget: a merge that stops making progress (possible in the bubble merge, whose loops
//! have no other exit) ends the case as *inconclusive* (DESIGN §3.5: step bounds are never violations)
//! instead of blocking a worker until the wall-clock case timeout
struct StepBound {};
inline long g_cmp_calls = 0;
inline long g_cmp_budget = 0;

template <class E>
struct DirCmp {
    bool desc;
    int salt; // must stay != 0 in every copy the library makes
    explicit DirCmp(bool d) : desc(d), salt(0x5a17) {}
    DirCmp() : desc(false), salt(0) {}
    bool operator()(const E& a, const E& b) const {
        if (salt != 0x5a17) pbt::fail("C05/comparator-lost", "merge used a comparator that is not a copy of the one passed");
        if (++g_cmp_calls > g_cmp_budget) throw StepBound();
        return desc ? Tr<E>::key(b) < Tr<E>::key(a) : Tr<E>::key(a) < Tr<E>::key(b);
    }
};

// ---------------------------------------------------------------- the call

template <bool Stable, class SeqIt, class OutIt, class Cmp>
OutIt call_merge(const Cfg& cfg, bool omit_cmp, SeqIt sb, SeqIt se, OutIt t, std::ptrdiff_t len, Cmp cmp) {
    using namespace tlx;
    static const MultiwayMergeAlgorithm A[5] = {MWMA_ALGORITHM_DEFAULT, MWMA_LOSER_TREE, MWMA_LOSER_TREE_COMBINED,
                                                MWMA_LOSER_TREE_SENTINEL, MWMA_BUBBLE};
    const bool def = cfg.alg == 0;
    const MultiwayMergeAlgorithm a = A[cfg.alg];
    const int e = cfg.entry >> 1; // 0 front-end, 1 front-end with sentinels, 2 base<Stable,false>, 3 base<Stable,true>
    if constexpr (std::is_same<Cmp, DirCmp<int>>::value) {
        if (omit_cmp && def && !cfg.desc) { // int, ascending: defaulted comparator (std::less<int>) and algorithm arguments
            if constexpr (Stable) {
                switch (e) {
                case 0: return stable_multiway_merge(sb, se, t, len);
                case 1: return stable_multiway_merge_sentinels(sb, se, t, len);
                case 2: return multiway_merge_base<true, false>(sb, se, t, len);
                default: return multiway_merge_base<true, true>(sb, se, t, len);
                }
            } else {
                switch (e) {
                case 0: return multiway_merge(sb, se, t, len);
                case 1: return multiway_merge_sentinels(sb, se, t, len);
                case 2: return multiway_merge_base<false, false>(sb, se, t, len);
                default: return multiway_merge_base<false, true>(sb, se, t, len);
                }
            }
        }
    }
    if constexpr (Stable) {
        switch (e) {
        case 0: return def ? stable_multiway_merge(sb, se, t, len, cmp) : stable_multiway_merge(sb, se, t, len, cmp, a);
        case 1: return def ? stable_multiway_merge_sentinels(sb, se, t, len, cmp) : stable_multiway_merge_sentinels(sb, se, t, len, cmp, a);
        case 2: return def ? multiway_merge_base<true, false>(sb, se, t, len, cmp) : multiway_merge_base<true, false>(sb, se, t, len, cmp, a);
        default: return def ? multiway_merge_base<true, true>(sb, se, t, len, cmp) : multiway_merge_base<true, true>(sb, se, t, len, cmp, a);
        }
    } else {
        switch (e) {
        case 0: return def ? multiway_merge(sb, se, t, len, cmp) : multiway_merge(sb, se, t, len, cmp, a);
        case 1: return def ? multiway_merge_sentinels(sb, se, t, len, cmp) : multiway_merge_sentinels(sb, se, t, len, cmp, a);
        case 2: return def ? multiway_merge_base<false, false>(sb, se, t, len, cmp) : multiway_merge_base<false, false>(sb, se, t, len, cmp, a);
        default: return def ? multiway_merge_base<false, true>(sb, se, t, len, cmp) : multiway_merge_base<false, true>(sb, se, t, len, cmp, a);
        }
    }
}

template <class E, bool RawPtr>
struct ItKind;
template <class E>
struct ItKind<E, true> {
    using It = E*;
    static It begin(std::vector<E>& v) { return v.data(); }
};
template <class E>
struct ItKind<E, false> {
    using It = typename std::vector<E>::iterator;
    static It begin(std::vector<E>& v) { return v.begin(); }
};

static const char* const ENTRY_NAME[8] = {"multiway_merge",
                                          "stable_multiway_merge",
                                          "multiway_merge_sentinels",
                                          "stable_multiway_merge_sentinels",
                                          "multiway_merge_base<false,false>",
                                          "multiway_merge_base<true,false>",
                                          "multiway_merge_base<false,true>",
                                          "multiway_merge_base<true,true>"};
static const char* const ALG_NAME[5] = {"(default)", "MWMA_LOSER_TREE", "MWMA_LOSER_TREE_COMBINED", "MWMA_LOSER_TREE_SENTINEL",
                                        "MWMA_BUBBLE"};
static const char* const ALG_LABEL[5] = {"alg=default", "alg=loser_tree", "alg=combined", "alg=sentinel", "alg=bubble"};

inline int draw_k(pbt::Source& src) {
    // a zero byte (also: bytes used up) gives k = 4 (24 order states; its overhang phase is the 3-way routine)
    static const int K[13] = {4, 3, 5, 2, 1, 0, 6, 7, 8, 9, 10, 11, 12};
    size_t c = src.weighted({20, 16, 10, 5, 3, 2, 6, 6, 6, 4, 3, 3, 3, 5});
    if (c < 13) return K[c];
    return (int)src.range(13, 40);
}

// ---------------------------------------------------------------- one case

template <class E, bool RawPtr, bool Stable, class Cmp>
void run_case(pbt::Source& src, const Cfg& cfg, Cmp cmp) {
    using T = Tr<E>;
    using It = typename ItKind<E, RawPtr>::It;
    const bool stable = Stable, sent = entry_sentinels(cfg.entry), desc = cfg.desc;
    auto kless = [desc](int a, int b) { return desc ? b < a : a < b; };

    // ---- shape
    const int k = draw_k(src);
    const int vsel = (int)src.range(0, 9); // 0..7 -> 1..8 distinct values (heavy ties); 8,9 -> wide
    const int nvals = vsel < 8 ? vsel + 1 : 1001;
    const size_t lenmode = src.weighted({6, 5, 4, 1, 2, 2, 6}); // full, total-uniform, uniform, 0, 1, total-1, unguarded boundary
    const int sentvary = (int)src.range(0, 2);
    const bool dominant = src.chance(32);
    const bool omit_cmp = src.boolean();
    // empty sequences: none (so that the unguarded phase of the combined algorithms is reached) / few / many
    const size_t emptymode = src.weighted({5, 3, 2});
    const unsigned emptyp = emptymode == 0 ? 0 : emptymode == 1 ? 12 : 72;
    std::vector<int> n(k, 0);
    for (int i = 0; i < k; ++i) {
        unsigned t = src.u8();
        if (t < emptyp) n[i] = 0;
        else {
            n[i] = t < 120 ? 1 + (int)(t % 4) : (int)((t - 120) % 31);
            if (emptymode == 0 && n[i] == 0) n[i] = 1;
        }
    }
    if (dominant && k > 0) {
        size_t d = src.index((size_t)k);
        n[d] = (int)src.range(0, 300);
    }
    std::ptrdiff_t total = 0;
    for (int i = 0; i < k; ++i) total += n[i];

    // ---- keys: drawn, then sorted by the comparator
    std::vector<std::vector<int>> keys(k);
    int kmax = 0, kmin = 0;
    bool any = false;
    for (int i = 0; i < k; ++i) {
        keys[i].resize(n[i]);
        for (int j = 0; j < n[i]; ++j) keys[i][j] = (int)src.range(0, nvals - 1);
        std::sort(keys[i].begin(), keys[i].end(), kless);
        for (int x : keys[i]) {
            if (!any || x > kmax) kmax = x;
            if (!any || x < kmin) kmin = x;
            any = true;
        }
    }

    // ---- unguarded-phase boundary (what prepare_unguarded computes), for labels and the length bias
    std::ptrdiff_t ub_unstable = -1, ub_stable = -1;
    bool has_empty = false;
    for (int i = 0; i < k; ++i) has_empty = has_empty || n[i] == 0;
    if (k > 0 && !has_empty) {
        int m = keys[0].back(), mseq = 0;
        for (int i = 1; i < k; ++i)
            if (kless(keys[i].back(), m)) m = keys[i].back(), mseq = i;
        ub_unstable = ub_stable = 0;
        for (int i = 0; i < k; ++i)
            for (int x : keys[i]) {
                if (kless(x, m)) ++ub_unstable, ++ub_stable;
                else if (!kless(m, x) && i <= mseq) ++ub_stable;
            }
    }

    // ---- length
    std::ptrdiff_t length = total;
    switch (lenmode) {
    case 0: length = total; break;
    case 1: length = total - (std::ptrdiff_t)src.range(0, total); break; // choice bytes are biased to small values:
    case 2: length = (std::ptrdiff_t)src.range(0, total); break;         // cover both ends of 0..total
    case 3: length = 0; break;
    case 4: length = std::min<std::ptrdiff_t>(1, total); break;
    case 5: length = std::max<std::ptrdiff_t>(0, total - 1); break;
    default: {
        std::ptrdiff_t base = src.boolean() ? ub_stable : ub_unstable;
        std::ptrdiff_t l = base + (std::ptrdiff_t)src.range(0, 2) - 1;
        if (ub_unstable < 0 || l < 0 || l > total) length = total - (std::ptrdiff_t)src.range(0, total);
        else length = l;
        break;
    }
    }

    // ---- build the inputs: one exact-size heap block per sequence (ASan red zone right behind it)
    std::vector<std::vector<E>> bufs(k);
    for (int i = 0; i < k; ++i) {
        bufs[i].resize((size_t)n[i] + (sent ? 1 : 0));
        for (int j = 0; j < n[i]; ++j) bufs[i][j] = T::make(keys[i][j], i, j);
        if (sent) {
            // documented precondition of the *_sentinels entry points: one more element behind each
            // sequence that is strictly greater (w.r.t. the comparator) than every real element
            int off = (i * sentvary) % 3;
            int sk = desc ? kmin - 1 - off : kmax + 1 + off;
            bufs[i][n[i]] = T::make(sk, i, n[i]);
        }
    }
    const std::vector<std::vector<E>> orig = bufs;
    std::vector<std::pair<It, It>> seqs(k);
    std::vector<It> base(k);
    for (int i = 0; i < k; ++i) {
        base[i] = ItKind<E, RawPtr>::begin(bufs[i]);
        seqs[i] = std::make_pair(base[i], base[i] + n[i]);
    }
    const std::vector<std::pair<It, It>> seqs0 = seqs;

    // ---- output with guard cells (anything further out is an ASan red zone)
    const std::ptrdiff_t G = 2;
    const E poison = T::make(POISON_KEY, 250, 60000);
    std::vector<E> out((size_t)(length + 2 * G), poison);
    It target = ItKind<E, RawPtr>::begin(out) + G;

    // ---- labels / non-triviality
    int nonempty = 0;
    for (int i = 0; i < k; ++i) nonempty += n[i] > 0;
    bool shared_key = false;
    {
        std::vector<std::pair<int, int>> ks; // (key, seq)
        for (int i = 0; i < k; ++i)
            for (int x : keys[i])
                if (ks.empty() || ks.back() != std::make_pair(x, i)) ks.emplace_back(x, i);
        std::sort(ks.begin(), ks.end());
        for (size_t i = 1; i < ks.size(); ++i) shared_key = shared_key || ks[i].first == ks[i - 1].first;
    }
    pbt::label(k == 0 ? "k=0" : k == 1 ? "k=1" : k == 2 ? "k=2" : k == 3 ? "k=3" : k == 4 ? "k=4" : k <= 12 ? "k=5..12" : "k=13..40");
    pbt::label(ALG_LABEL[cfg.alg]);
    pbt::label(stable ? "stable" : "unstable");
    pbt::label(sent ? "sentinels" : "no_sentinels");
    pbt::label(cfg.entry >= 4 ? "entry=base" : "entry=frontend");
    pbt::label(desc ? "cmp=greater" : "cmp=less");
    pbt::label(std::is_same<E, int>::value ? "type=int" : std::is_same<E, Rec8>::value ? "type=rec8" : "type=rec40");
    if (length < total) pbt::label("partial");
    if (length == 0) pbt::label("length=0");
    else if (length == 1) pbt::label("length=1");
    if (length == total && total > 0) pbt::label("length=total");
    if (length == total - 1 && total > 1) pbt::label("length=total-1");
    if (k >= 2 && n[0] == 0) pbt::label("empty_seq_first");
    if (k >= 2 && n[k - 1] == 0) pbt::label("empty_seq_last");
    for (int i = 1; i + 1 < k; ++i)
        if (n[i] == 0) pbt::label("empty_seq_middle");
    if (k >= 1 && nonempty == 0) pbt::label("all_seqs_empty");
    if (dominant && k > 0) pbt::label("dominant_seq");
    if (nvals > 8) pbt::label("keys_wide");
    else if (nvals == 1) pbt::label("keys_all_equal");
    else pbt::label("keys_2..8_values");
    // which internal path the switch in multiway_merge_base takes
    const int eff_alg = cfg.alg == 0 ? 2 : (cfg.alg == 3 && !sent) ? 2 : cfg.alg;
    if (k >= 3 && eff_alg == 2) {
        std::ptrdiff_t ub = (k <= 4 || stable) ? ub_stable : ub_unstable;
        if (ub < 0) pbt::label("combined:empty_seq_guarded_only");
        else {
            std::ptrdiff_t ung = std::min(length, ub);
            if (ung > 0) pbt::label("unguarded_phase_nonempty");
            if (length - ung > 0) pbt::label("overhang_nonempty");
            if (ung > 0 && length - ung > 0) pbt::label("unguarded+overhang");
            if (length == ub) pbt::label("length=unguarded_boundary");
        }
    }
    if (k >= 5 && (eff_alg == 1 || eff_alg == 2 || eff_alg == 3)) {
        pbt::label(sizeof(E) > 2 * sizeof(size_t) ? "pointer_tree" : "copy_tree");
        if (eff_alg == 3) pbt::label("sentinel_tree_k>=5");
    }
    if (k >= 5 && eff_alg == 4) pbt::label("bubble_k>=5");
    if ((k == 3 || k == 4) && eff_alg == 3) pbt::label("unguarded_3/4way_with_sentinels");
    if ((k == 3 || k == 4) && (eff_alg == 1 || eff_alg == 4)) pbt::label("guarded_3/4way");
    if (shared_key) pbt::label("key_in_2+_seqs");
    if (k >= 3 && nonempty >= 2 && shared_key && length > 0) pbt::nontrivial();

    if (pbt::verbose()) {
        PBT_LOG("tlx::" << ENTRY_NAME[cfg.entry] << " alg=" << ALG_NAME[cfg.alg] << " elem=" << T::name << " (" << sizeof(E)
                        << " bytes) cmp=" << (desc ? "greater" : "less") << (omit_cmp && cfg.alg == 0 && !desc && std::is_same<E, int>::value ? " [comparator and algorithm arguments omitted: std::less<int>]" : "")
                        << " k=" << k << " length=" << length << " of total=" << total << "\n");
        for (int i = 0; i < k; ++i) {
            PBT_LOG("  seq[" << i << "] n=" << n[i] << " keys:");
            for (int j = 0; j < n[i] && j < 64; ++j) PBT_LOG(" " << keys[i][j]);
            if (n[i] > 64) PBT_LOG(" ...");
            if (sent) PBT_LOG(" | sentinel " << T::key(bufs[i][n[i]]));
            PBT_LOG("\n");
        }
    }

    // ---- the call under test
    g_cmp_calls = 0;
    g_cmp_budget = 64 * ((long)total + k + 1) * (k + 1) + 10000; // >> k comparisons per element + set-up
    It ret;
    try {
        ret = call_merge<Stable>(cfg, omit_cmp, seqs.begin(), seqs.end(), target, length, cmp);
    } catch (const StepBound&) {
        PBT_LOG("  comparison budget " << g_cmp_budget << " exhausted: merge does not terminate in reasonable time (inconclusive)\n");
        pbt::label("step_bound_hit");
        pbt::inconclusive();
        return;
    }

    // ---- oracle
    PBT_CHECK(ret - target == length, "C05/return",
              "returned iterator is target+" << (ret - target) << ", expected target+" << length);
    for (std::ptrdiff_t g = 0; g < G; ++g) {
        PBT_CHECK(T::same(out[(size_t)g], poison), "C05/overwrite", "cell target-" << (G - g) << " (before the output range) was written");
        PBT_CHECK(T::same(out[(size_t)(G + length + g)], poison), "C05/overwrite",
                  "cell target+" << (length + g) << " (past the requested length " << length << ") was written");
    }
    // reference: stable merge by (key, seq, pos)
    struct RefE {
        int key, seq, pos;
    };
    std::vector<RefE> ref;
    ref.reserve((size_t)total);
    for (int i = 0; i < k; ++i)
        for (int j = 0; j < n[i]; ++j) ref.push_back(RefE{keys[i][j], i, j});
    std::stable_sort(ref.begin(), ref.end(), [&](const RefE& a, const RefE& b) { return kless(a.key, b.key); });

    if (pbt::verbose()) {
        PBT_LOG("  output:");
        for (std::ptrdiff_t j = 0; j < length && j < 96; ++j) {
            const E& e = out[(size_t)(G + j)];
            if (T::ident) PBT_LOG(" " << T::key(e) << "@" << T::seq(e) << "." << T::pos(e));
            else PBT_LOG(" " << T::key(e));
        }
        PBT_LOG("\n  advanced by:");
        for (int i = 0; i < k; ++i) PBT_LOG(" " << (seqs[i].first - base[i]));
        PBT_LOG("\n");
    }

    std::vector<std::ptrdiff_t> taken(k, 0);
    if (T::ident) {
        for (std::ptrdiff_t j = 0; j < length; ++j) {
            const E& e = out[(size_t)(G + j)];
            PBT_CHECK(!T::same(e, poison), "C05/unwritten", "output slot " << j << " of " << length << " was never written");
            int s = T::seq(e), p = T::pos(e);
            PBT_CHECK(s >= 0 && s < k && p >= 0 && p < n[s] && T::same(e, orig[s][p]), "C05/not-an-input",
                      "output slot " << j << " holds (key " << T::key(e) << ", seq " << s << ", pos " << p
                                     << ") which is not an element of the inputs");
        }
        for (std::ptrdiff_t j = 0; j < length; ++j) {
            const E& e = out[(size_t)(G + j)];
            PBT_CHECK(T::key(e) == ref[(size_t)j].key, "C05/keys",
                      "output slot " << j << " has key " << T::key(e) << ", the " << j << "-th smallest key is " << ref[(size_t)j].key);
        }
        for (std::ptrdiff_t j = 0; j < length; ++j) {
            const E& e = out[(size_t)(G + j)];
            int s = T::seq(e), p = T::pos(e);
            PBT_CHECK(p == taken[s], "C05/prefix",
                      "output slot " << j << " is element " << p << " of sequence " << s << " but element " << taken[s]
                                     << " of that sequence has not been emitted (not a prefix in order)");
            ++taken[s];
        }
        for (int i = 0; i < k; ++i)
            PBT_CHECK(seqs[i].first - base[i] == taken[i], "C05/advance",
                      "sequence " << i << ": begin advanced by " << (seqs[i].first - base[i]) << " but " << taken[i]
                                  << " of its elements were emitted");
        if (stable)
            for (std::ptrdiff_t j = 0; j < length; ++j) {
                const E& e = out[(size_t)(G + j)];
                PBT_CHECK(T::seq(e) == ref[(size_t)j].seq && T::pos(e) == ref[(size_t)j].pos, "C05/stable-order",
                          "stable merge: output slot " << j << " is (key " << T::key(e) << ", seq " << T::seq(e) << ", pos "
                                                       << T::pos(e) << "), the stable merge has (key " << ref[(size_t)j].key
                                                       << ", seq " << ref[(size_t)j].seq << ", pos " << ref[(size_t)j].pos << ") there");
            }
    } else {
        for (std::ptrdiff_t j = 0; j < length; ++j) {
            const E& e = out[(size_t)(G + j)];
            PBT_CHECK(!T::same(e, poison), "C05/unwritten", "output slot " << j << " of " << length << " was never written");
            PBT_CHECK(T::key(e) == ref[(size_t)j].key, "C05/keys",
                      "output slot " << j << " has key " << T::key(e) << ", the " << j << "-th smallest key is " << ref[(size_t)j].key);
        }
        // elements are indistinguishable: the consumed prefixes must add up to the output as a multiset
        std::ptrdiff_t sum = 0;
        std::vector<int> pre;
        for (int i = 0; i < k; ++i) {
            std::ptrdiff_t c = seqs[i].first - base[i];
            PBT_CHECK(c >= 0 && c <= n[i], "C05/advance", "sequence " << i << ": begin advanced by " << c << ", its size is " << n[i]);
            sum += c;
            for (std::ptrdiff_t j = 0; j < c; ++j) pre.push_back(keys[i][(size_t)j]);
        }
        PBT_CHECK(sum == length, "C05/advance", "inputs advanced by " << sum << " elements in total, " << length << " were emitted");
        std::sort(pre.begin(), pre.end(), kless);
        for (std::ptrdiff_t j = 0; j < length; ++j)
            PBT_CHECK(pre[(size_t)j] == ref[(size_t)j].key, "C05/advance",
                      "the consumed input prefixes are not the emitted elements (" << j << "-th smallest consumed key " << pre[(size_t)j]
                                                                                   << ", emitted " << ref[(size_t)j].key << ")");
    }
    for (int i = 0; i < k; ++i)
        for (size_t j = 0; j < bufs[i].size(); ++j)
            PBT_CHECK(T::same(bufs[i][j], orig[i][j]), "C05/input-modified", "input sequence " << i << " element " << j << " was modified");
    if (pbt::verbose())
        for (int i = 0; i < k; ++i)
            if (seqs[i].second != seqs0[i].second) PBT_LOG("  note: end iterator of sequence " << i << " changed (not asserted)\n");
}

} // namespace c05
