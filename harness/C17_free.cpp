// C17 (part 5) — the FREE-FUNCTION API of tlx/container/splay_tree.hpp driven directly, with caller-owned nodes, as the
// header documents it (splay / splay_insert / splay_erase / splay_check (both overloads) / splay_traverse_preorder /
// splay_traverse_postorder), plus the two constructors taking an allocator and the splay_set / splay_multiset aliases.
//
// Targets
//   splay_free        small key universe, own node type FNode<K> {left, right, key, serial}; histories of
//                     insert (= splay + splay_insert, exactly as documented: splay_insert only after splay),
//                     splay_erase, splay (lookup), splay_check (2- and 4-argument form), both traversals, and
//                     "clear" through splay_traverse_postorder with a node-deleting functor; starting from the empty
//                     tree or from a HAND-BUILT valid search tree of distinct keys (left chain, right chain, zig-zag,
//                     balanced, random shape) that no history of SplayTree calls is needed to reach.
//   splay_free_scale  the same with 200..3000 nodes: list-shaped (degenerate) trees and a few operations on them.
//   alloc_api         SplayTree through the aliases splay_set / splay_multiset and LruCacheSet / LruCacheMap constructed
//                     with a STATEFUL allocator instance (verif::ArenaAllocator) that is destroyed before the first
//                     operation; short model-based history; every block the container holds must come from (and go
//                     back through) that instance.
//   splay_check_neg   splay_check on a hand-built tree whose order is broken must report false (documented: "check
//                     the tree order"); guarded by pbt::excluded("C17/splay_check-never-fails").
//
// Oracles (exact): std::multiset model of the keys; the harness owns every node, so it knows the set of nodes that
// are in the tree and reads the structure itself: an own iterative walk yields the in-order and post-order NODE
// sequences (identity, not only keys) which the tlx traversals must reproduce ("preorder (left, node, right)",
// "postorder (left, right, node)" as documented in the header). splay(k): "If it's there, it is splayed to the
// root. If it isn't there, then the node put at the root is the last one before nullptr that would have been
// reached in a normal binary search for i. (It's a neighbor of i in the tree.)" => root key == k if stored, else the
// in-order predecessor or successor of k; nullptr iff the tree is empty. splay_erase: returns the unlinked node
// (key equivalent to k, no longer reachable) or nullptr iff absent. splay_insert(nn, t): returns nn; nn's links are
// overwritten in every case, so a node with stale links (fresh garbage, or one returned by splay_erase) may be
// inserted. Key arguments may be of another type than the node key (the functions are templates over Key and
// Compare): long long probes against int keys incl. values outside the int range (always absent), int probes
// against Tracked keys, and references to a key stored in the tree itself.
#include "../engine/pbt.hpp"
#include "../engine/tracked.hpp"

#include <algorithm>
#include <functional>
#include <list>
#include <memory>
#include <mutex>
#include <set>
#include <sstream>
#include <string>
#include <stdexcept>
#include <unordered_set>
#include <utility>
#include <vector>

#include <tlx/container/lru_cache.hpp>
#include <tlx/container/splay_tree.hpp>

namespace {

using verif::Tracked;

inline long long kv(int x) { return x; }
inline long long kv(long long x) { return x; }
inline long long kv(const Tracked& t) { return t.value(); }

//! transparent comparators: any mix of int / long long / Tracked operands
struct LessT {
    template <class A, class B>
    bool operator()(const A& a, const B& b) const { return kv(a) < kv(b); }
};
struct GreaterT {
    template <class A, class B>
    bool operator()(const A& a, const B& b) const { return kv(a) > kv(b); }
};

template <class K>
struct FNode {
    FNode* left;
    FNode* right;
    K key;
    int serial;
    FNode(int k, int s, FNode* l, FNode* r) : left(l), right(r), key(k), serial(s) {}
};

std::string show(const std::vector<long long>& v) {
    std::ostringstream os;
    os << "{";
    for (size_t i = 0; i < v.size(); ++i) {
        if (i >= 40) {
            os << ",... (" << v.size() << " keys)";
            break;
        }
        os << (i ? "," : "") << v[i];
    }
    os << "}";
    return os.str();
}

template <class P>
struct Probe;
template <>
struct Probe<int> {
    static const bool wide = false;
    static int make(long long k) { return (int)k; }
};
template <>
struct Probe<long long> {
    static const bool wide = true;
    static long long make(long long k) { return k; }
};
template <>
struct Probe<Tracked> {
    static const bool wide = false;
    static Tracked make(long long k) { return Tracked((int)k); }
};

template <class K, class P, class Cmp>
struct FreeHist {
    typedef FNode<K> Node;
    pbt::Source& src;
    const bool dup, greater;
    const Cmp cmp;
    Node* t = nullptr;
    std::unordered_set<const Node*> live; // nodes that are in the tree
    std::vector<Node*> spare;             // nodes out of the tree (returned by splay_erase), links stale
    std::multiset<long long> model;
    int serial = 0;
    // result of the own walk
    std::vector<const Node*> in_nodes, post_nodes;
    size_t depth = 0;
    bool did_traverse = false, did_erase = false, did_stale = false;

    FreeHist(pbt::Source& s, bool d, bool g) : src(s), dup(d), greater(g), cmp() {}

    bool before(long long a, long long b) const { return greater ? a > b : a < b; }
    std::vector<long long> sorted_model() const {
        std::vector<long long> v(model.begin(), model.end());
        if (greater) std::reverse(v.begin(), v.end());
        return v;
    }
    bool has_dups() const {
        long long prev = 0;
        bool first = true;
        for (long long x : model) {
            if (!first && x == prev) return true;
            prev = x, first = false;
        }
        return false;
    }

    // ---- own structural walk (iterative): in-order and post-order node sequences, depth
    void walk(const char* after) {
        in_nodes.clear();
        post_nodes.clear();
        depth = 0;
        std::unordered_set<const Node*> seen;
        std::vector<std::pair<const Node*, int>> st;
        auto enter = [&](const Node* n) {
            if (!n) return;
            PBT_CHECK(live.count(n), "C17/free-structure", "after " << after << ": a reachable node is not one of the nodes in the tree (stale link to an erased / foreign node)");
            PBT_CHECK(seen.insert(n).second, "C17/free-structure", "after " << after << ": a node is reachable twice (shared subtree or cycle)");
            st.emplace_back(n, 0);
            if (st.size() > depth) depth = st.size();
        };
        enter(t);
        while (!st.empty()) {
            const Node* n = st.back().first;
            int state = st.back().second++;
            if (state == 0) enter(n->left);
            else if (state == 1) {
                in_nodes.push_back(n);
                enter(n->right);
            } else {
                post_nodes.push_back(n);
                st.pop_back();
            }
        }
    }

    void verify(const char* after) {
        walk(after);
        std::vector<long long> want = sorted_model();
        PBT_CHECK(in_nodes.size() == live.size(), "C17/free-structure", "after " << after << ": " << in_nodes.size() << " nodes reachable from the root but " << live.size() << " nodes are in the tree");
        std::vector<long long> got;
        got.reserve(in_nodes.size());
        for (const Node* n : in_nodes) got.push_back(kv(n->key));
        PBT_CHECK(got == want, "C17/free-inorder", "after " << after << ": in-order keys " << show(got) << " but model " << show(want));
        if (std::is_same<K, Tracked>::value)
            PBT_CHECK(verif::Ledger::get().live_count() == live.size() + spare.size(), "C17/free-keys-alive",
                      "after " << after << ": " << verif::Ledger::get().live_count() << " key objects alive but the caller owns " << live.size() + spare.size() << " nodes");
    }

    // ---- node supply: fresh node (links null or garbage = pointers to other nodes) or a node returned by splay_erase
    Node* make_node(long long k) {
        if (!spare.empty() && src.chance(128)) {
            Node* n = spare.back();
            spare.pop_back();
            n->key = K((int)k); // links stay stale
            pbt::label("free/reuse_erased_node");
            if (n->left || n->right) did_stale = true;
            return n;
        }
        Node* nn = new Node((int)k, serial++, nullptr, nullptr);
        if (src.chance(100)) { // uninitialised links: anything but a sensible value (here: the node itself / the root)
            nn->left = nn, nn->right = t ? t : nn;
            pbt::label("free/fresh_node_garbage_links");
            did_stale = true;
        }
        return nn;
    }

    // ---- hand-built search trees of distinct keys; ord = the keys in comparator order
    Node* build_range(const std::vector<Node*>& n, size_t lo, size_t hi) { // balanced
        if (lo >= hi) return nullptr;
        size_t mid = lo + (hi - lo) / 2;
        n[mid]->left = build_range(n, lo, mid);
        n[mid]->right = build_range(n, mid + 1, hi);
        return n[mid];
    }
    void build(const std::vector<long long>& ord, unsigned shape, uint64_t seed) {
        std::vector<Node*> n;
        for (long long k : ord) {
            n.push_back(new Node((int)k, serial++, nullptr, nullptr));
            live.insert(n.back());
            model.insert(k);
        }
        const size_t N = n.size();
        if (N == 0) return;
        switch (shape) {
        case 0: // left chain: root = last in order
            for (size_t i = N - 1; i > 0; --i) n[i]->left = n[i - 1];
            t = n[N - 1];
            pbt::label("free/shape_left_chain");
            break;
        case 1: // right chain
            for (size_t i = 0; i + 1 < N; ++i) n[i]->right = n[i + 1];
            t = n[0];
            pbt::label("free/shape_right_chain");
            break;
        case 2: { // zig-zag: first, last, second, last but one, ...
            size_t lo = 0, hi = N - 1;
            Node* cur = n[lo++];
            t = cur;
            bool take_hi = true;
            while (lo <= hi && hi != (size_t)-1) {
                if (take_hi) {
                    cur->right = n[hi];
                    cur = n[hi];
                    if (hi == 0) break;
                    --hi;
                } else {
                    cur->left = n[lo];
                    cur = n[lo];
                    ++lo;
                }
                take_hi = !take_hi;
            }
            pbt::label("free/shape_zigzag");
            break;
        }
        case 3:
            t = build_range(n, 0, N);
            pbt::label("free/shape_balanced");
            break;
        default:
            link_random(n, seed);
            break;
        }
    }
    //! plain BST insertion of the nodes n (in comparator order, serial == base + position) in a pseudo-random order
    void link_random(const std::vector<Node*>& n, uint64_t seed) {
        const size_t N = n.size();
        std::vector<size_t> perm(N);
        for (size_t i = 0; i < N; ++i) perm[i] = i;
        uint64_t x = seed * 0x9E3779B97F4A7C15ull + 0x1234567ull;
        for (size_t i = N - 1; i > 0; --i) {
            x ^= x << 13, x ^= x >> 7, x ^= x << 17;
            std::swap(perm[i], perm[x % (i + 1)]);
        }
        const int base = n[0]->serial;
        t = n[perm[0]];
        for (size_t j = 1; j < N; ++j) {
            size_t i = perm[j];
            Node* cur = t;
            for (;;) {
                Node*& next = i < size_t(cur->serial - base) ? cur->left : cur->right;
                if (!next) {
                    next = n[i];
                    break;
                }
                cur = next;
            }
        }
        pbt::label("free/shape_random");
    }

    // ---- the documented result of splay(k, t): checks the new root
    void check_root(long long k, const Node* r, const char* what) {
        if (model.empty()) {
            PBT_CHECK(r == nullptr, "C17/free-splay-root", what << "(" << k << ") on the empty tree returned a node");
            return;
        }
        PBT_CHECK(r != nullptr, "C17/free-splay-root", what << "(" << k << ") returned nullptr on a non-empty tree " << show(sorted_model()));
        PBT_CHECK(live.count(r), "C17/free-splay-root", what << "(" << k << ") returned a pointer that is not a node of the tree");
        long long rk = kv(r->key);
        if (model.count(k)) {
            PBT_CHECK(rk == k, "C17/free-splay-root", what << "(" << k << ") put key " << rk << " at the root although " << k << " is stored; model " << show(sorted_model()));
            return;
        }
        auto it = model.lower_bound(k); // first > k (k absent)
        bool ok = false;
        if (it != model.end() && *it == rk) ok = true;
        if (it != model.begin() && *std::prev(it) == rk) ok = true;
        PBT_CHECK(ok, "C17/free-splay-neighbor", what << "(" << k << "), key not stored: the node put at the root has key " << rk << ", which is not a neighbour (predecessor/successor) of " << k << " in " << show(sorted_model()));
        pbt::label("free/splay_absent_neighbor");
    }

    //! draw a key: a stored one, or any key of the universe [0, U], or (long long probes) one outside the int range
    long long draw_key(long long U, bool prefer_stored) {
        if (prefer_stored && !in_nodes.empty() && src.chance(128)) return kv(in_nodes[src.index(in_nodes.size())]->key);
        return src.range(0, U);
    }
    long long widen(long long k) {
        if (!Probe<P>::wide) return k;
        unsigned w = (unsigned)src.weighted({6, 1, 1});
        if (w == 0) return k;
        pbt::label("free/wide_probe");
        return w == 1 ? k + (1LL << 32) : k - (1LL << 32);
    }
    //! if P == K: possibly a reference to the equal key stored in the tree itself
    const Node* alias_node(long long k) {
        if (!std::is_same<P, K>::value || !model.count(k) || !src.chance(90)) return nullptr;
        for (const Node* n : in_nodes)
            if (kv(n->key) == k && src.chance(160)) return n;
        return nullptr;
    }

    template <class F>
    auto with_probe(long long k, const F& f) -> decltype(f(std::declval<const P&>())) {
        const Node* an = alias_node(k);
        if (an) {
            pbt::label("free/aliased_probe");
            return f(reinterpret_cast<const P&>(an->key)); // only taken when P == K
        }
        const P p = Probe<P>::make(k);
        return f(p);
    }

    void op_insert(long long k) {
        PBT_LOG("insert " << k << ": splay");
        t = with_probe(k, [&](const P& p) { return tlx::splay(p, t, cmp); });
        check_root(k, t, "splay");
        bool present = model.count(k) > 0;
        if (!dup && present) {
            PBT_LOG(" -> already there\n");
            pbt::label("free/insert_rejected");
            return;
        }
        const bool was_empty = t == nullptr;
        Node* nn = make_node(k);
        if (was_empty && (nn->left || nn->right)) pbt::label("free/stale_links_into_empty_tree");
        Node* r = tlx::splay_insert(nn, t, cmp);
        PBT_LOG(", splay_insert\n");
        PBT_CHECK(r == nn, "C17/free-insert", "splay_insert did not return the new node");
        t = r;
        live.insert(nn);
        model.insert(k);
        pbt::label(present ? "free/insert_duplicate" : "free/insert");
    }
    void op_erase(long long k0) {
        long long k = widen(k0);
        bool present = model.count(k) > 0;
        Node* r = with_probe(k, [&](const P& p) { return tlx::splay_erase(p, t, cmp); });
        PBT_LOG("splay_erase " << k << " -> " << (r ? "node" : "nullptr") << "\n");
        PBT_CHECK((r != nullptr) == present, "C17/free-erase", "splay_erase(" << k << ") returned " << (r ? "a node" : "nullptr") << "; model " << show(sorted_model()));
        if (r) {
            PBT_CHECK(live.count(r), "C17/free-erase", "splay_erase(" << k << ") returned a pointer that is not a node of the tree");
            PBT_CHECK(kv(r->key) == k, "C17/free-erase", "splay_erase(" << k << ") returned the node with key " << kv(r->key));
            live.erase(r);
            model.erase(model.find(k));
            if (src.boolean()) spare.push_back(r);
            else delete r;
            did_erase = true;
            pbt::label(model.count(k) ? "free/erase_one_of_duplicates" : "free/erase");
        } else pbt::label(live.empty() ? "free/erase_on_empty" : "free/erase_absent");
        if (live.empty()) PBT_CHECK(t == nullptr, "C17/free-erase", "root not null after the last node was erased");
    }
    void op_splay(long long k0) {
        long long k = widen(k0);
        t = with_probe(k, [&](const P& p) { return tlx::splay(p, t, cmp); });
        PBT_LOG("splay " << k << " -> " << (t ? std::to_string(kv(t->key)) : std::string("nullptr")) << "\n");
        check_root(k, t, "splay");
        pbt::label(model.empty() ? "free/splay_on_empty" : model.count(k) ? "free/splay_present" : "free/splay_absent");
    }
    void op_check() {
        if (has_dups()) { // splay_check is written for a strict order
            pbt::label("free/check_skipped_duplicates");
            return;
        }
        const Node* ct = t;
        PBT_LOG("splay_check\n");
        PBT_CHECK(tlx::splay_check(ct, cmp), "C17/free-check", "splay_check(t, cmp) false on a valid tree " << show(sorted_model()));
        const Node *tmin = nullptr, *tmax = nullptr;
        PBT_CHECK(tlx::splay_check(ct, tmin, tmax, cmp), "C17/free-check", "splay_check(t, tmin, tmax, cmp) false on a valid tree " << show(sorted_model()));
        pbt::label(t ? "free/check" : "free/check_on_empty");
    }
    void op_preorder() {
        std::vector<const Node*> got;
        const Node* ct = t;
        tlx::splay_traverse_preorder([&got](const Node* n) { got.push_back(n); }, ct);
        PBT_LOG("splay_traverse_preorder: " << got.size() << " nodes\n");
        PBT_CHECK(got == in_nodes, "C17/free-preorder", "splay_traverse_preorder did not visit the nodes in (left, node, right) order: visited " << got.size() << " nodes, tree has " << in_nodes.size() << mismatch(got, in_nodes));
        if (in_nodes.size() >= 3) did_traverse = true;
        pbt::label(t ? "free/preorder" : "free/traverse_on_empty");
    }
    void op_postorder(bool as_const) {
        std::vector<const Node*> got;
        if (as_const) {
            const Node* ct = t;
            tlx::splay_traverse_postorder([&got](const Node* n) { got.push_back(n); }, ct);
        } else tlx::splay_traverse_postorder([&got](Node* n) { got.push_back(n); }, t);
        PBT_LOG("splay_traverse_postorder: " << got.size() << " nodes\n");
        PBT_CHECK(got == post_nodes, "C17/free-postorder", "splay_traverse_postorder did not visit the nodes in (left, right, node) order: visited " << got.size() << " nodes, tree has " << post_nodes.size() << mismatch(got, post_nodes));
        if (post_nodes.size() >= 3) did_traverse = true;
        pbt::label(!t ? "free/traverse_on_empty" : as_const ? "free/postorder_const" : "free/postorder");
    }
    std::string mismatch(const std::vector<const Node*>& got, const std::vector<const Node*>& want) {
        std::ostringstream os;
        for (size_t i = 0; i < got.size() && i < want.size(); ++i)
            if (got[i] != want[i]) {
                os << "; first difference at position " << i << ": visited key " << kv(got[i]->key) << ", expected key " << kv(want[i]->key);
                break;
            }
        return os.str();
    }
    //! what SplayTree::clear() does: post-order traversal with a functor that frees the node it is given
    void op_clear_postorder() {
        PBT_LOG("clear by splay_traverse_postorder(delete)\n");
        size_t n = 0;
        tlx::splay_traverse_postorder([&n](Node* x) { ++n, delete x; }, t);
        PBT_CHECK(n == live.size(), "C17/free-postorder", "deleting post-order traversal visited " << n << " of " << live.size() << " nodes");
        t = nullptr;
        live.clear();
        model.clear();
        pbt::label("free/clear_postorder_delete");
    }
    void teardown(unsigned how) {
        if (how == 0) op_clear_postorder();
        else if (how == 1) { // erase every key through splay_erase, in model order or reverse
            std::vector<long long> keys(model.begin(), model.end());
            if (src.boolean()) std::reverse(keys.begin(), keys.end());
            for (long long k : keys) {
                const P p = Probe<P>::make(k);
                Node* r = tlx::splay_erase(p, t, cmp);
                PBT_CHECK(r && live.count(r) && kv(r->key) == k, "C17/free-erase", "final splay_erase(" << k << ") did not return a node with that key");
                live.erase(r);
                model.erase(model.find(k));
                delete r;
            }
            PBT_CHECK(t == nullptr, "C17/free-erase", "root not null after every key was erased");
            pbt::label("free/final_erase_all");
        } else { // the caller frees its nodes itself
            for (const Node* n : live) delete const_cast<Node*>(n);
            live.clear(), model.clear(), t = nullptr;
        }
        for (Node* n : spare) delete n;
        spare.clear();
    }

    // ---- small universe
    void run_small() {
        const long long U = src.range(1, 12);
        unsigned shape = (unsigned)src.range(0, 5); // 0 = start empty
        if (shape) {
            std::vector<long long> ord;
            uint64_t mask = src.bits(2);
            for (long long k = 0; k <= U; ++k)
                if (mask >> k & 1) ord.push_back(k);
            if (greater) std::reverse(ord.begin(), ord.end());
            build(ord, shape - 1, src.bits(1));
        } else pbt::label("free/start_empty");
        verify("construction");
        unsigned nops = 0;
        while (src.more() && nops < 120) {
            ++nops;
            unsigned op = (unsigned)src.weighted({10, 6, 5, 2, 3, 3, 2, 1});
            if (live.empty() && op != 0) pbt::label("free/op_on_empty");
            switch (op) {
            case 0: op_insert(draw_key(U, false)); break;
            case 1: op_erase(draw_key(U, true)); break;
            case 2: op_splay(draw_key(U, true)); break;
            case 3: op_check(); break;
            case 4: op_preorder(); break;
            case 5: op_postorder(false); break;
            case 6: op_postorder(true); break;
            default: op_clear_postorder(); break;
            }
            verify("op");
            if (live.size() >= 6) pbt::label("free/size>=6");
        }
        if (did_traverse && (did_erase || did_stale)) pbt::nontrivial();
        teardown((unsigned)src.range(0, 2));
    }

    // ---- a few thousand nodes, list-shaped trees
    void run_scale() {
        static const int SIZES[] = {200, 600, 1500, 3000};
        const int N = SIZES[src.range(0, 3)] + (int)src.range(0, 40);
        unsigned shape = (unsigned)src.range(0, 6);
        // keys 2*i: odd probes are absent
        std::vector<long long> ord;
        for (int i = 0; i < N; ++i) ord.push_back(2LL * i);
        if (greater) std::reverse(ord.begin(), ord.end());
        if (shape < 4) build(ord, shape, 0);
        else if (shape == 4) build(ord, 4, src.bits(2));
        else { // built by tlx itself: ascending / descending insertion, each key once or (multiset) twice
            bool desc = shape == 6;
            pbt::label(desc ? "free/shape_by_descending_insert" : "free/shape_by_ascending_insert");
            for (int rep = 0; rep < (dup ? 2 : 1); ++rep)
                for (int i = 0; i < N; ++i) {
                    long long k = 2LL * (desc ? N - 1 - i : i);
                    const P p = Probe<P>::make(k);
                    t = tlx::splay(p, t, cmp);
                    Node* nn = new Node((int)k, serial++, nullptr, nullptr);
                    t = tlx::splay_insert(nn, t, cmp);
                    live.insert(nn);
                    model.insert(k);
                }
        }
        verify("construction");
        if (depth > 512) pbt::label("free/depth>512");
        if (depth > 2048) pbt::label("free/depth>2048");
        size_t max_depth = depth;
        unsigned nops = 0;
        while (src.more() && nops < 24) {
            ++nops;
            unsigned op = (unsigned)src.weighted({3, 3, 4, 2, 4, 3, 2});
            // positions: the ends, the middle, or drawn
            long long pos;
            switch (src.range(0, 3)) {
            case 0: pos = 0; break;
            case 1: pos = N - 1; break;
            case 2: pos = N / 2; break;
            default: pos = (long long)(src.bits(2) % (uint64_t)N); break;
            }
            long long k = 2 * pos + (src.chance(80) ? 1 : 0);
            switch (op) {
            case 0: op_insert(k); break;
            case 1: op_erase(k); break;
            case 2: op_splay(k); break;
            case 3: op_check(); break;
            case 4: op_preorder(); break;
            case 5: op_postorder(false); break;
            default: op_postorder(true); break;
            }
            verify("op");
            if (depth > max_depth) max_depth = depth;
        }
        if (did_traverse && max_depth > 64) pbt::nontrivial();
        teardown((unsigned)src.range(0, 2));
    }
};

template <class K, class P>
void free_dispatch(pbt::Source& src, bool dup, bool greater, bool scale) {
    verif::Ledger::get().reset();
    verif::AllocLedger::get().reset();
    if (greater) {
        FreeHist<K, P, GreaterT> h(src, dup, true);
        scale ? h.run_scale() : h.run_small();
    } else {
        FreeHist<K, P, LessT> h(src, dup, false);
        scale ? h.run_scale() : h.run_small();
    }
    PBT_CHECK(verif::Ledger::get().live_count() == 0, "C17/free-keys-alive", verif::Ledger::get().live_count() << " key objects alive after every node was freed");
}

void free_target(pbt::Source& src, bool scale) {
    unsigned kind = (unsigned)src.range(0, 15);
    static const char* const L[] = {"free/int-node/int-probe", "free/int-node/longlong-probe", "free/Tracked-node/Tracked-probe", "free/Tracked-node/int-probe"};
    pbt::label(L[kind >> 2]);
    pbt::label(kind & 1 ? "free/multiset" : "free/set");
    pbt::label(kind & 2 ? "free/greater" : "free/less");
    PBT_LOG(L[kind >> 2] << (kind & 1 ? " multiset" : " set") << (kind & 2 ? " greater" : " less") << "\n");
    const bool dup = kind & 1, greater = kind & 2;
    switch (kind >> 2) {
    case 0: return free_dispatch<int, int>(src, dup, greater, scale);
    case 1: return free_dispatch<int, long long>(src, dup, greater, scale);
    case 2: return free_dispatch<Tracked, Tracked>(src, dup, greater, scale);
    default: return free_dispatch<Tracked, int>(src, dup, greater, scale);
    }
}

// =====================================================================================================================
// alloc_api: containers constructed with a stateful allocator instance
// =====================================================================================================================

inline int ival(int x) { return x; }
inline int ival(const Tracked& t) { return t.value(); }

//! every live block of the allocation ledger belongs to `arena`
void check_arena(int arena, const char* after) {
    verif::AllocLedger& l = verif::AllocLedger::get();
    std::lock_guard<std::mutex> g(l.m);
    for (auto& e : l.live) {
        auto it = l.arena_of.find(e.first);
        PBT_CHECK(it != l.arena_of.end() && it->second == arena, "C17/allocator-instance",
                  "after " << after << ": the container holds a block that was not obtained from the allocator instance passed to its constructor (arena "
                           << (it == l.arena_of.end() ? -1 : it->second) << ", expected " << arena << ")");
    }
}

template <class Tree, class K, class Cmp, bool Dup, bool WithCmp>
void splay_alloc_history(pbt::Source& src, bool greater) {
    typedef verif::ArenaAllocator<K> Alloc;
    verif::Ledger::get().reset();
    verif::AllocLedger::get().reset();
    const int U = (int)src.range(1, 10);
    {
        std::unique_ptr<Tree> tp;
        int arena;
        {
            Alloc decoy1;
            std::unique_ptr<Alloc> a(new Alloc());
            Alloc decoy2;
            arena = a->arena;
            if (WithCmp) tp.reset(new Tree(Cmp(), *a));
            else tp.reset(new Tree(*a));
            // the caller's allocator object goes away: the tree must have its own copy
        }
        Tree& t = *tp;
        const Tree& ct = t;
        std::multiset<int> model;
        auto sorted_model = [&]() {
            std::vector<int> v(model.begin(), model.end());
            if (greater) std::reverse(v.begin(), v.end());
            return v;
        };
        auto check = [&](const char* after) {
            PBT_CHECK(ct.size() == model.size() && ct.empty() == model.empty(), "C17/splay-size", "after " << after << ": size() " << ct.size() << " empty() " << ct.empty() << " but " << model.size() << " keys stored");
            PBT_CHECK(verif::AllocLedger::get().live_count() == model.size(), "C17/splay-nodes", "after " << after << ": " << verif::AllocLedger::get().live_count() << " nodes allocated but " << model.size() << " keys stored");
            check_arena(arena, after);
            std::vector<int> tr;
            ct.traverse_preorder([&tr](const K& k) { tr.push_back(ival(k)); });
            PBT_CHECK(tr == sorted_model(), "C17/splay-traverse", "after " << after << ": traverse_preorder differs from the model (" << tr.size() << " vs " << model.size() << " keys)");
            bool dups = false;
            for (int k : model) dups |= model.count(k) > 1;
            if (!dups) PBT_CHECK(ct.check(), "C17/splay-check", "after " << after << ": check() false");
        };
        check("construction");
        unsigned nops = 0;
        bool nt = false;
        while (src.more() && nops < 60) {
            ++nops;
            unsigned op = (unsigned)src.weighted({10, 5, 3, 3, 2, 1});
            int k = (int)src.range(0, U);
            bool present = model.count(k) > 0;
            switch (op) {
            case 0: {
                bool r = t.insert(K(k));
                PBT_LOG("insert(" << k << ") -> " << r << "\n");
                bool want = Dup || !present;
                PBT_CHECK(r == want, "C17/splay-insert", "insert(" << k << ") returned " << r << " (" << (Dup ? "splay_multiset" : "splay_set") << ", key " << (present ? "stored" : "not stored") << ")");
                if (want) model.insert(k);
                if (present) pbt::label(Dup ? "alloc/multiset_alias_keeps_duplicate" : "alloc/set_alias_rejects_duplicate"), nt = true;
                break;
            }
            case 1: {
                bool r = t.erase(K(k));
                PBT_LOG("erase(" << k << ") -> " << r << "\n");
                PBT_CHECK(r == present, "C17/splay-erase", "erase(" << k << ") returned " << r);
                if (present) model.erase(model.find(k));
                break;
            }
            case 2: {
                bool r = t.exists(K(k));
                PBT_CHECK(r == present, "C17/splay-exists", "exists(" << k << ") returned " << r);
                break;
            }
            case 3: {
                typename Tree::Node* n = t.find(K(k));
                PBT_CHECK((n != nullptr) == !model.empty(), "C17/splay-find", "find(" << k << ") returned " << (n ? "a node" : "nullptr") << " with " << model.size() << " keys stored");
                if (n) PBT_CHECK(model.count(ival(n->key)) > 0 && (!present || ival(n->key) == k), "C17/splay-find", "find(" << k << ") returned key " << ival(n->key));
                break;
            }
            case 4: {
                const typename Tree::Node* n = t.find(K(k));
                if (n) {
                    int key = ival(n->key);
                    PBT_CHECK(t.erase(n), "C17/splay-erase", "erase(node) returned false");
                    if (model.count(key)) model.erase(model.find(key));
                    else PBT_CHECK(false, "C17/splay-find", "find(" << k << ") returned key " << key << " which is not stored");
                }
                break;
            }
            default:
                PBT_LOG("clear()\n");
                t.clear();
                model.clear();
                break;
            }
            check("op");
        }
        if (nt) pbt::nontrivial();
    }
    PBT_CHECK(verif::AllocLedger::get().live_count() == 0, "C17/splay-nodes", verif::AllocLedger::get().live_count() << " nodes not freed by the destructor");
    PBT_CHECK(verif::Ledger::get().live_count() == 0, "C17/splay-keys-alive", verif::Ledger::get().live_count() << " key objects alive after destruction");
}

template <class K, bool IsMap>
struct ArenaCache;
template <class K>
struct ArenaCache<K, false> {
    typedef verif::ArenaAllocator<K> Alloc;
    typedef tlx::LruCacheSet<K, Alloc> Cache;
    static void put(Cache& c, int k, int) { c.put(K(k)); }
    static std::pair<int, int> pop(Cache& c, int v) {
        K k = c.pop();
        return std::make_pair(ival(k), v);
    }
    static int get(Cache&, int, bool) { return 0; }
};
template <class K>
struct ArenaCache<K, true> {
    typedef verif::ArenaAllocator<std::pair<K, K>> Alloc;
    typedef tlx::LruCacheMap<K, K, Alloc> Cache;
    static void put(Cache& c, int k, int v) { c.put(K(k), K(v)); }
    static std::pair<int, int> pop(Cache& c, int) {
        typename Cache::KeyValuePair p = c.pop();
        return std::make_pair(ival(p.first), ival(p.second));
    }
    static int get(Cache& c, int k, bool touch) { return touch ? ival(c.get_touch(K(k))) : ival(c.get(K(k))); }
};

template <class K, bool IsMap>
void lru_alloc_history(pbt::Source& src) {
    typedef ArenaCache<K, IsMap> Ops;
    typedef typename Ops::Cache Cache;
    typedef typename Ops::Alloc Alloc;
    typedef std::list<std::pair<int, int>> Ref;
    verif::Ledger::get().reset();
    verif::AllocLedger::get().reset();
    const int U = (int)src.range(1, 8);
    {
        std::unique_ptr<Cache> cp;
        int arena;
        {
            Alloc decoy1;
            std::unique_ptr<Alloc> a(new Alloc());
            Alloc decoy2;
            arena = a->arena;
            cp.reset(new Cache(*a));
        }
        Cache& c = *cp;
        const Cache& cc = c;
        Ref ref;
        bool reordered = false, nt = false;
        auto find = [&](int k) {
            auto it = ref.begin();
            while (it != ref.end() && it->first != k) ++it;
            return it;
        };
        auto to_front = [&](Ref::iterator it) {
            if (it != ref.begin()) reordered = true;
            ref.splice(ref.begin(), ref, it);
        };
        auto check = [&](const char* after) {
            PBT_CHECK(cc.size() == ref.size(), "C17/lru-size", "after " << after << ": size() " << cc.size() << " but the reference holds " << ref.size());
            for (int k = 0; k <= U; ++k) PBT_CHECK(cc.exists(K(k)) == (find(k) != ref.end()), "C17/lru-exists", "after " << after << ": exists(" << k << ") = " << cc.exists(K(k)));
            check_arena(arena, after);
        };
        check("construction");
        unsigned nops = 0;
        while (src.more() && nops < 60) {
            ++nops;
            unsigned op = (unsigned)src.weighted({12, 4, 3, 2, 2, 2, 2, 5, 1});
            int k = (int)src.range(0, U);
            if (k == U && op == 0) k = 0; // U is never stored
            auto it = find(k);
            bool present = it != ref.end();
            bool threw = false;
            switch (op) {
            case 0: {
                int v = IsMap ? (int)src.range(0, 9) : 0;
                PBT_LOG("put(" << k << "," << v << ")\n");
                Ops::put(c, k, v);
                if (present) {
                    if (it != ref.begin()) reordered = true;
                    ref.erase(it);
                }
                ref.emplace_front(k, v);
                break;
            }
            case 1:
                PBT_LOG("touch(" << k << ")\n");
                try {
                    c.touch(K(k));
                } catch (const std::range_error&) {
                    threw = true;
                }
                PBT_CHECK(threw == !present, "C17/lru-exception", "touch(" << k << ") " << (threw ? "threw" : "did not throw"));
                if (present) to_front(it);
                break;
            case 2: {
                bool r = c.touch_if_exists(K(k));
                PBT_CHECK(r == present, "C17/lru-touch_if_exists", "touch_if_exists(" << k << ") = " << r);
                if (present) to_front(it);
                break;
            }
            case 3:
                PBT_LOG("erase(" << k << ")\n");
                try {
                    c.erase(K(k));
                } catch (const std::range_error&) {
                    threw = true;
                }
                PBT_CHECK(threw == !present, "C17/lru-exception", "erase(" << k << ") " << (threw ? "threw" : "did not throw"));
                if (present) ref.erase(it);
                break;
            case 4: {
                bool r = c.erase_if_exists(K(k));
                PBT_CHECK(r == present, "C17/lru-erase_if_exists", "erase_if_exists(" << k << ") = " << r);
                if (present) ref.erase(it);
                break;
            }
            case 5:
            case 6: {
                if (!IsMap) continue;
                int v = 0;
                try {
                    v = Ops::get(c, k, op == 6);
                } catch (const std::range_error&) {
                    threw = true;
                }
                PBT_CHECK(threw == !present, "C17/lru-exception", "get/get_touch(" << k << ") " << (threw ? "threw" : "did not throw"));
                if (present) {
                    PBT_CHECK(v == it->second, "C17/lru-value", "get(" << k << ") = " << v << " but the latest value is " << it->second);
                    if (op == 6) to_front(it);
                }
                break;
            }
            case 7: {
                if (ref.empty()) continue;
                std::pair<int, int> want = ref.back(), got = Ops::pop(c, want.second);
                PBT_LOG("pop() -> " << got.first << "\n");
                PBT_CHECK(got == want, "C17/lru-pop-order", "pop() returned " << got.first << ":" << got.second << " but the least recently used entry is " << want.first << ":" << want.second);
                ref.pop_back();
                if (reordered) nt = true;
                break;
            }
            default:
                c.clear();
                ref.clear();
                break;
            }
            check("op");
        }
        if (nt) pbt::nontrivial();
        if (src.boolean()) // drain, else destroy non-empty
            while (!ref.empty()) {
                std::pair<int, int> want = ref.back(), got = Ops::pop(c, want.second);
                PBT_CHECK(got == want, "C17/lru-pop-order", "drain: pop() returned " << got.first << " but the least recently used key is " << want.first);
                ref.pop_back();
            }
    }
    PBT_CHECK(verif::Ledger::get().live_count() == 0, "C17/lru-leak", verif::Ledger::get().live_count() << " key/value objects alive after the cache was destroyed");
    PBT_CHECK(verif::AllocLedger::get().live_count() == 0, "C17/lru-leak", verif::AllocLedger::get().live_count() << " blocks not freed after the cache was destroyed");
}

// =====================================================================================================================
// splay_check on trees whose order is broken
// =====================================================================================================================

template <class Cmp>
void check_neg(pbt::Source& src, bool greater) {
    typedef FNode<int> Node;
    const int n = (int)src.range(2, 12);
    // distinct keys 0..n-1 inserted by plain BST insertion in a drawn order
    std::vector<int> order(n);
    for (int i = 0; i < n; ++i) order[i] = i;
    for (int i = n - 1; i > 0; --i) std::swap(order[i], order[src.index(i + 1)]);
    Cmp cmp;
    std::vector<Node*> nodes;
    Node* t = nullptr;
    for (int k : order) {
        Node* nn = new Node(k, k, nullptr, nullptr);
        nodes.push_back(nn);
        if (!t) {
            t = nn;
            continue;
        }
        Node* cur = t;
        for (;;) {
            Node*& next = cmp(k, cur->key) ? cur->left : cur->right;
            if (!next) {
                next = nn;
                break;
            }
            cur = next;
        }
    }
    struct Free {
        std::vector<Node*>& v;
        ~Free() {
            for (Node* x : v) delete x;
        }
    } guard{nodes};
    const Node* ct = t;
    const Node *tmin = nullptr, *tmax = nullptr;
    PBT_CHECK(tlx::splay_check(ct, cmp), "C17/free-check", "splay_check(t, cmp) false on a valid tree");
    PBT_CHECK(tlx::splay_check(ct, tmin, tmax, cmp), "C17/free-check", "splay_check(t, tmin, tmax, cmp) false on a valid tree");
    const bool known = pbt::excluded("C17/splay_check-never-fails");
    if (!known) {
        // "recursively calculate min and max elements": first and last key in comparator order
        int first = greater ? n - 1 : 0, last = greater ? 0 : n - 1;
        PBT_CHECK(tmin && tmax && tmin->key == first && tmax->key == last, "C17/splay_check-never-fails",
                  "splay_check(t, tmin, tmax, cmp) on a valid tree of keys 0.." << n - 1 << " did not report the minimum and maximum nodes (tmin "
                      << (tmin ? std::to_string(tmin->key) : std::string("nullptr")) << ", tmax " << (tmax ? std::to_string(tmax->key) : std::string("nullptr")) << ")");
    }
    // break the order: exchange the keys of two nodes (keys are distinct, so the in-order sequence is no longer sorted)
    int a = (int)src.index(n), b = (int)src.index(n - 1);
    if (b >= a) ++b;
    std::swap(nodes[a]->key, nodes[b]->key);
    PBT_LOG("tree of keys 0.." << n - 1 << ", keys of two nodes exchanged: " << nodes[a]->key << " <-> " << nodes[b]->key << "\n");
    pbt::label("check_neg/order_broken");
    pbt::nontrivial();
    if (known) return;
    PBT_CHECK(!tlx::splay_check(ct, cmp), "C17/splay_check-never-fails", "splay_check(t, cmp) returned true for a tree whose in-order key sequence is not sorted (keys " << nodes[a]->key << " and " << nodes[b]->key << " exchanged)");
    tmin = tmax = nullptr;
    PBT_CHECK(!tlx::splay_check(ct, tmin, tmax, cmp), "C17/splay_check-never-fails", "splay_check(t, tmin, tmax, cmp) returned true for a tree whose in-order key sequence is not sorted");
}

} // namespace

PBT_PROPERTY(splay_free) { free_target(src, false); }

PBT_PROPERTY(splay_free_scale) { free_target(src, true); }

PBT_PROPERTY(alloc_api) {
    unsigned kind = (unsigned)src.range(0, 7);
    switch (kind) {
    case 0:
        pbt::label("alloc/splay_set<int,less>(alloc)");
        return splay_alloc_history<tlx::splay_set<int, std::less<int>, verif::ArenaAllocator<int>>, int, std::less<int>, false, false>(src, false);
    case 1:
        pbt::label("alloc/splay_multiset<int,greater>(cmp,alloc)");
        return splay_alloc_history<tlx::splay_multiset<int, std::greater<int>, verif::ArenaAllocator<int>>, int, std::greater<int>, true, true>(src, true);
    case 2:
        pbt::label("alloc/splay_multiset<Tracked,less>(alloc)");
        return splay_alloc_history<tlx::splay_multiset<Tracked, std::less<Tracked>, verif::ArenaAllocator<Tracked>>, Tracked, std::less<Tracked>, true, false>(src, false);
    case 3:
        pbt::label("alloc/splay_set<Tracked,greater>(cmp,alloc)");
        return splay_alloc_history<tlx::splay_set<Tracked, std::greater<Tracked>, verif::ArenaAllocator<Tracked>>, Tracked, std::greater<Tracked>, false, true>(src, true);
    case 4: pbt::label("alloc/LruCacheSet<int>(alloc)"); return lru_alloc_history<int, false>(src);
    case 5: pbt::label("alloc/LruCacheMap<int,int>(alloc)"); return lru_alloc_history<int, true>(src);
    case 6: pbt::label("alloc/LruCacheSet<Tracked>(alloc)"); return lru_alloc_history<Tracked, false>(src);
    default: pbt::label("alloc/LruCacheMap<Tracked,Tracked>(alloc)"); return lru_alloc_history<Tracked, true>(src);
    }
}

PBT_PROPERTY(splay_check_neg) {
    if (src.boolean()) check_neg<GreaterT>(src, true);
    else check_neg<LessT>(src, false);
}
