// C20 — exhaustive / stratified sweeps of the integer helpers (enumerate steps).
//
//   sweep_small    every 8- and 16-bit value through the generic templates, every pair of 8-bit values through the
//                  two-argument helpers, every *structured* value (one/two-bit patterns, 2^j±{0,1,2}, extremes,
//                  replicated bytes) of the six overload types, rotations by every count -70..70; the full 10 x 10 matrix of
//                  mixed operand types of div_ceil / round_up on structured values; popcount(data, size) for every size 0..40
//                  at every start alignment
//   sweep32_sample 2^25 stratified 32-bit values (one per 256-block of the high and of the low 24 bits)   [quick]
//   sweep32_full   all 2^32 values of the int / unsigned overloads                                          [thorough]
//
// An enumerate step calls the target once per chunk with (chunk index, number of chunks).
#include "C20_ref.hpp"

#include <vector>

using namespace c20;

namespace {

//! structured W-bit patterns
std::vector<uint64_t> structured(unsigned W) {
    const uint64_t mask = W == 64 ? ~0ull : ((1ull << W) - 1);
    std::vector<uint64_t> v;
    for (unsigned i = 0; i < W; ++i) {
        uint64_t b = 1ull << i;
        v.push_back(b);
        v.push_back(~b & mask);
        for (unsigned j = 0; j < i; ++j) v.push_back(b | (1ull << j));
        for (int d = -2; d <= 2; ++d) v.push_back((b + (uint64_t)d) & mask);
    }
    for (uint64_t d = 0; d < 4; ++d) {
        v.push_back(d);                       // 0, 1, 2, 3
        v.push_back((mask - d) & mask);       // unsigned max … / -1, -2 …
        v.push_back(((mask >> 1) - d) & mask); // signed max …
        v.push_back(((mask >> 1) + 1 + d) & mask); // signed min …
    }
    for (uint64_t byte : {0x01ull, 0x55ull, 0xAAull, 0x80ull, 0x7Full, 0xFFull, 0x0Full, 0xF0ull}) {
        uint64_t r = 0;
        for (unsigned i = 0; i < W / 8; ++i) r |= byte << (8 * i);
        v.push_back(r);
        v.push_back(r & 0xFF00FF00FF00FF00ull & mask);
        v.push_back(r & 0x00FF00FF00FF00FFull & mask);
        v.push_back(r & 0xFFFFFFFF00000000ull & mask);
        v.push_back(r & 0x00000000FFFFFFFFull & mask);
    }
    return v;
}

//! second arguments for div_ceil / round_up / abs_diff
std::vector<uint64_t> divisors(unsigned W) {
    const uint64_t mask = W == 64 ? ~0ull : ((1ull << W) - 1);
    std::vector<uint64_t> v = {1, 2, 3, 5, 7, 10, 255, 256, 1000};
    for (unsigned i = 0; i < W; ++i) v.push_back(1ull << i), v.push_back(((1ull << i) - 1) & mask), v.push_back(((1ull << i) + 1) & mask);
    for (uint64_t d = 0; d < 3; ++d) v.push_back(mask - d), v.push_back((mask >> 1) - d), v.push_back((mask >> 1) + 1 + d), v.push_back((mask >> 2) + d);
    return v;
}

template <class T>
void structured_type() {
    const unsigned W = width<T>();
    typedef typename std::make_unsigned<T>::type U;
    std::vector<uint64_t> S = structured(W), D = divisors(W);
    for (uint64_t p : S) {
        T x = (T)(U)p;
        check_value<T>(x);
        for (uint64_t q : D) check_pair<T>(x, (T)(U)q);
    }
}

//! div_ceil / round_up with first operand type N and second operand type K on structured values of both widths
template <class N>
struct MixedCol {
    const std::vector<uint64_t>* S;
    template <class K>
    void run() {
        typedef typename std::make_unsigned<N>::type UN;
        typedef typename std::make_unsigned<K>::type UK;
        std::vector<uint64_t> D = divisors(width<K>());
        for (uint64_t p : *S)
            for (uint64_t q : D) check_mixed<N, K>((N)(UN)p, (K)(UK)q);
    }
};
struct MixedRow {
    int n_type;
    template <class N>
    void run() {
        std::vector<uint64_t> S = structured(width<N>());
        std::vector<uint64_t> D = divisors(width<N>());
        S.insert(S.end(), D.begin(), D.end());
        MixedCol<N> col;
        col.S = &S;
        for (int k = 0; k < N_INT_TYPES; ++k) with_type(k, col);
    }
};

void item_small(uint64_t t) {
    if (t == 0) {
        for (unsigned v = 0; v < 256; ++v) {
            check_value<uint8_t>((uint8_t)v);
            check_value<int8_t>((int8_t)(uint8_t)v);
            check_bits8((uint8_t)v);
        }
    } else if (t < 17) { // 16 slices of the 16-bit values
        for (unsigned v = (unsigned)(t - 1) * 4096; v < (unsigned)t * 4096; ++v) {
            check_value<uint16_t>((uint16_t)v);
            check_value<int16_t>((int16_t)(uint16_t)v);
            check_bits16((uint16_t)v);
        }
    } else if (t < 33) { // all pairs of 8-bit values, 16 slices of the first argument
        for (unsigned a = (unsigned)(t - 17) * 16; a < (unsigned)(t - 16) * 16; ++a)
            for (unsigned b = 0; b < 256; ++b) {
                check_pair<uint8_t>((uint8_t)a, (uint8_t)b);
                check_pair<int8_t>((int8_t)(uint8_t)a, (int8_t)(uint8_t)b);
                check_mixed<uint8_t, int8_t>((uint8_t)a, (int8_t)(uint8_t)b);
                check_mixed<int8_t, uint8_t>((int8_t)(uint8_t)a, (uint8_t)b);
            }
    } else if (t == 33) structured_type<int>();
    else if (t == 34) structured_type<unsigned>();
    else if (t == 35) structured_type<long>();
    else if (t == 36) structured_type<unsigned long>();
    else if (t == 37) structured_type<long long>();
    else if (t == 38) structured_type<unsigned long long>();
    else if (t == 39) structured_type<int16_t>(), structured_type<uint16_t>();
    else if (t == 40) {
        for (uint64_t p : structured(32)) {
            check_bits32((uint32_t)p);
            for (int s = -70; s <= 70; ++s) check_rot32((uint32_t)p, s);
        }
    } else if (t == 41) {
        for (uint64_t p : structured(64)) {
            check_bits64(p);
            for (int s = -70; s <= 70; ++s) check_rot64(p, s);
            check_rot64(p, INT32_MAX), check_rot64(p, INT32_MIN);
        }
    } else if (t == 42) { // mixed-type div_ceil / round_up on structured values
        std::vector<uint64_t> S = structured(32), D = divisors(64);
        for (uint64_t p : S)
            for (uint64_t q : D) {
                check_mixed<unsigned, unsigned long>((unsigned)p, (unsigned long)q);
                check_mixed<int, long>((int)(unsigned)p, (long)q);
                check_mixed<unsigned long, unsigned>((unsigned long)q, (unsigned)p);
                check_mixed<long long, int>((long long)q, (int)(unsigned)p);
            }
    } else if (t < 53) { // full matrix of mixed operand types for div_ceil / round_up: first operand type t - 43, every second type
        MixedRow row;
        row.n_type = (int)(t - 43);
        with_type(row.n_type, row);
    } else if (t == 53) { // popcount(data, size): every size 0..40 at every start alignment, solid / single-bit / mixed contents
        unsigned char buf[48];
        for (size_t size = 0; size <= 40; ++size)
            for (size_t mis = 0; mis < 8; ++mis) {
                for (unsigned fill : {0x00u, 0xFFu, 0x80u, 0x01u, 0xA5u}) {
                    for (size_t i = 0; i < size; ++i) buf[i] = (unsigned char)fill;
                    check_popcount_range(buf, size, mis);
                }
                for (size_t bit = 0; bit < 8 * size; ++bit) { // exactly one bit set / exactly one bit clear
                    for (size_t i = 0; i < size; ++i) buf[i] = 0;
                    buf[bit / 8] = (unsigned char)(1u << (bit % 8));
                    check_popcount_range(buf, size, mis);
                    for (size_t i = 0; i < size; ++i) buf[i] = 0xFF;
                    buf[bit / 8] = (unsigned char)~(1u << (bit % 8));
                    check_popcount_range(buf, size, mis);
                }
                for (size_t i = 0; i < size; ++i) buf[i] = (unsigned char)mix64(size * 64 + mis * 8 + i);
                check_popcount_range(buf, size, mis);
            }
    }
}
const uint64_t N_SMALL_ITEMS = 54;

//! everything that is checked for one 32-bit pattern
inline void one32(uint32_t u) {
    check_value<unsigned>(u);
    check_value<int>((int)u);
    check_bits32(u);
    uint64_t h = mix64(u);
    check_rot32(u, (int)(h & 31));
    check_rot32(u, (int)(int8_t)(h >> 8)); // -128..127
    // second argument: small / power of two / near the extremes / arbitrary
    uint32_t k;
    switch ((h >> 16) & 7) {
    case 0: k = 1 + (uint32_t)((h >> 20) & 15); break;
    case 1: k = 1u << ((h >> 20) & 31); break;
    case 2: k = 0xFFFFFFFFu - (uint32_t)((h >> 20) & 7); break;
    case 3: k = 0x7FFFFFFFu - (uint32_t)((h >> 20) & 7); break;
    case 4: k = u + (uint32_t)((h >> 20) & 3) - 1; break;
    case 5: k = (uint32_t)((h >> 20) & 0xFFFF) + 1; break;
    default: k = (uint32_t)(h >> 32); break;
    }
    check_pair<unsigned>(u, k);
    check_pair<int>((int)u, (int)k);
}

} // namespace

PBT_PROPERTY(sweep_small) {
    uint64_t idx = src.bits(8), total = src.bits(8);
    if (total == 0) total = 1, idx = 0; // a case file shorter than 16 bytes: run everything
    for (uint64_t t = idx; t < N_SMALL_ITEMS; t += total) item_small(t);
    pbt::label("chunk");
    pbt::nontrivial();
    PBT_LOG("sweep_small chunk " << idx << " of " << total << "\n");
}

PBT_PROPERTY(sweep32_sample) {
    uint64_t idx = src.bits(8), total = src.bits(8);
    if (total == 0) total = 1, idx = 0;
    const uint64_t N = 1ull << 24;
    uint64_t lo = N * idx / total, hi = N * (idx + 1) / total;
    for (uint64_t s = lo; s < hi; ++s) {
        uint64_t h = mix64(s ^ 0xC20C20C20ull);
        one32((uint32_t)((s << 8) | (h & 0xFF)));          // every 256-block of the value range
        one32((uint32_t)(((h >> 8) & 0xFF) << 24 | s));    // every pattern of the low 24 bits
    }
    pbt::count(2 * (hi - lo)); // 32-bit values checked (each against every 32-bit helper)
    pbt::label("chunk");
    pbt::nontrivial();
    PBT_LOG("sweep32_sample strata [" << lo << ", " << hi << ") of 2^24\n");
}

PBT_PROPERTY(sweep32_full) {
    uint64_t idx = src.bits(8), total = src.bits(8);
    if (total == 0) total = 1, idx = 0;
    const uint64_t N = 1ull << 32;
    // 128-bit intermediate: N * idx may exceed 64 bits only for absurd chunk counts, but be exact anyway
    uint64_t lo = (uint64_t)((unsigned __int128)N * idx / total), hi = (uint64_t)((unsigned __int128)N * (idx + 1) / total);
    for (uint64_t v = lo; v < hi; ++v) one32((uint32_t)v);
    pbt::count(hi - lo);
    pbt::label("chunk");
    pbt::nontrivial();
    PBT_LOG("sweep32_full values [" << lo << ", " << hi << ")\n");
}
