// C13 (part 1, scale classes) — DAryHeap with a NARROW key type: tlx::DAryHeap<uint8_t, Arity, Compare> behind the
// int-keyed IDary interface of C13_dary_impl.hpp (heaps of thousands of uint8_t keys: the number of elements exceeds
// the range of the key type).  Instantiations in C13_dary_k8.cpp.
#pragma once
#include <cstdint>

#include "C13_dary_impl.hpp"

namespace c13 {

struct PrioCmp8 {
    const std::vector<int>* prio;
    bool operator()(uint8_t a, uint8_t b) const { return (*prio)[(size_t)a] < (*prio)[(size_t)b]; }
};

template <unsigned A, class Cmp>
struct Dary8Impl : IDary {
    typedef uint8_t K;
    typedef tlx::DAryHeap<K, A, Cmp> Heap;
    Cmp cmp;
    Heap h;
    explicit Dary8Impl(Cmp c) : cmp(c), h(c) {}
    void push(const int& k) override {
        const K kk = (K)k;
        h.push(kk);
    }
    void push_move(int&& k) override {
        K kk = (K)k;
        h.push(std::move(kk));
    }
    int top() override { return h.top(); }
    void pop() override { h.pop(); }
    int extract_top() override { return h.extract_top(); }
    void clear() override { h.clear(); }
    size_t size() override { return h.size(); }
    bool empty() override { return h.empty(); }
    size_t capacity() override { return h.capacity(); }
    void reserve(size_t n) override { h.reserve(n); }
    void build_iter(std::vector<int>& v) override { h.build_heap(v.begin(), v.end()); } // int -> uint8_t on assign
    void build_copy(const std::vector<int>& v) override {
        const std::vector<K> kv(v.begin(), v.end());
        h.build_heap(kv);
    }
    void build_move(std::vector<int>&& v) override {
        std::vector<K> kv(v.begin(), v.end());
        h.build_heap(std::move(kv));
    }
    void update_all() override { h.update_all(); }
    bool sanity_check() override { return h.sanity_check(); }
    void copy_move(unsigned how, int extra) override {
        if (how == 0) {
            Heap c(h);
            h.clear();
            h = std::move(c);
        } else if (how == 1) {
            Heap m(std::move(h));
            h = m;
        } else if (how == 2) {
            Heap c(cmp);
            c.push((K)extra);
            c = h;
            h = c;
        } else {
            Heap& self = h;
            h = self;
        }
    }
};

template <unsigned A>
IDary* make_dary8_a(unsigned ck, const std::vector<int>* prio) {
    switch (ck) {
    case 0: return new Dary8Impl<A, std::less<uint8_t>>(std::less<uint8_t>());
    case 1: return new Dary8Impl<A, std::greater<uint8_t>>(std::greater<uint8_t>());
    default: return new Dary8Impl<A, PrioCmp8>(PrioCmp8{prio});
    }
}
IDary* make_dary_u8(unsigned arity, unsigned ck, const std::vector<int>* prio); // keys 0..255

} // namespace c13
