// C13 (scale classes) — DAryAddressableIntHeap<uint16_t, 1..8, {less, greater, priority table}> instantiations
#include "C13_addressable_scale_impl.hpp"
namespace c13 {
IAddrS* make_addrs_u16(unsigned arity, unsigned ck, const std::vector<int>* prio) { return make_addrs_k<uint16_t>(arity, ck, prio); }
} // namespace c13
