// C03 — sort_api: UCharStringSet / CUCharStringSet with start depth, windows, Container constructor, uint64_t LCPs
#include "C03_api.hpp"
namespace c03 {
void api_uchar(const ApiCase& c) { run_api_modes<ApiCharRep<unsigned char>>(c); }
void api_cuchar(const ApiCase& c) { run_api_modes<ApiCharRep<const unsigned char>>(c); }
} // namespace c03
