// C16 (part 2) — tlx::SimpleVector: contents across construct / resize / move / swap / destroy / fill, and for the
// default (Normal) mode exact element lifetimes: a Tracked element is alive iff it is currently stored.
// The two no-init modes are exercised only with trivially constructible uint64_t (contents + ASan, no lifetime
// claim: the statement limits exactness to the default mode); never-written slots are not read.
#include "../engine/pbt.hpp"
#include "../engine/tracked.hpp"

#include <cstdint>
#include <memory>
#include <type_traits>
#include <vector>

#include <tlx/container/simple_vector.hpp>

namespace {

using verif::Tracked;

inline int val(const Tracked& t) { return t.value(); }
inline int val(uint64_t x) { return (int)x; }
inline int val(int x) { return x; }

struct VModel {
    bool exists = false;
    std::vector<int> v;
    std::vector<char> init; // slot holds a known value
};

std::string show(const VModel& m) {
    std::ostringstream os;
    os << "[";
    for (size_t i = 0; i < m.v.size(); ++i) {
        if (i) os << ",";
        if (m.init[i]) os << m.v[i];
        else os << "?";
    }
    os << "]";
    return os.str();
}

template <class T, tlx::SimpleVectorMode Mode>
void sv_history(pbt::Source& src) {
    typedef tlx::SimpleVector<T, Mode> SV;
    constexpr bool tracked = std::is_same<T, Tracked>::value;
    constexpr size_t NS = 3;
    verif::Ledger::get().reset();
    size_t n0 = (size_t)src.range(0, 9);
    {
        std::unique_ptr<SV> sv[NS];
        VModel m[NS];
        bool grew = false, shrank = false;

        auto create = [&](size_t s, unsigned how, size_t n) {
            sv[s].reset();
            if (how == 0) {
                PBT_LOG("v" << s << " = SimpleVector()\n");
                sv[s].reset(new SV());
                n = 0;
                pbt::label("ctor_default");
            } else {
                PBT_LOG("v" << s << " = SimpleVector(" << n << ")\n");
                sv[s].reset(new SV(n));
                pbt::label(n ? "ctor_n" : "ctor_0");
            }
            m[s].exists = true;
            m[s].v.assign(n, 0);
            m[s].init.assign(n, tracked ? 1 : 0);
        };
        auto check = [&](const char* after) {
            size_t stored = 0;
            for (size_t s = 0; s < NS; ++s) {
                if (!m[s].exists) continue;
                SV& r = *sv[s];
                const SV& cr = r;
                const VModel& x = m[s];
                stored += x.v.size();
                PBT_CHECK(cr.size() == x.v.size(), "C16/vec-size", "after " << after << ": v" << s << ".size() = " << cr.size() << " but model " << show(x));
                PBT_CHECK((size_t)(cr.end() - cr.begin()) == x.v.size() && (size_t)(r.end() - r.begin()) == x.v.size() &&
                              (size_t)(cr.cend() - cr.cbegin()) == x.v.size() && cr.data() == cr.begin() && r.data() == r.begin(),
                          "C16/vec-iterators", "after " << after << ": v" << s << " begin/end/data inconsistent with size " << x.v.size());
                for (size_t i = 0; i < x.v.size(); ++i) {
                    if (!x.init[i]) continue;
                    PBT_CHECK(val(cr[i]) == x.v[i] && val(r[i]) == x.v[i] && val(cr.at(i)) == x.v[i] && val(r.at(i)) == x.v[i] && val(cr.begin()[i]) == x.v[i],
                              "C16/vec-index", "after " << after << ": v" << s << "[" << i << "] = " << val(cr[i]) << " but model " << show(x));
                }
                if (!x.v.empty()) {
                    if (x.init.front())
                        PBT_CHECK(val(cr.front()) == x.v.front() && val(r.front()) == x.v.front(), "C16/vec-front", "after " << after << ": v" << s << ".front() = " << val(cr.front()) << ", model " << show(x));
                    if (x.init.back())
                        PBT_CHECK(val(cr.back()) == x.v.back() && val(r.back()) == x.v.back(), "C16/vec-back", "after " << after << ": v" << s << ".back() = " << val(cr.back()) << ", model " << show(x));
                }
            }
            if (tracked)
                PBT_CHECK(verif::Ledger::get().live_count() == stored, "C16/vec-live-elements",
                          "after " << after << ": " << verif::Ledger::get().live_count() << " element objects alive but " << stored << " stored");
        };
        auto other_slot = [&](size_t s, bool allow_self) -> size_t {
            size_t t = src.index(NS);
            if (!allow_self && t == s) t = (s + 1) % NS;
            return t;
        };

        create(0, 1, n0);
        check("construction");
        unsigned nops = 0;
        while (src.more() && nops < 100) {
            ++nops;
            size_t s = src.index(NS);
            if (!m[s].exists) {
                unsigned how = src.chance(64) ? 0 : 1;
                create(s, how, how ? (size_t)src.range(0, 9) : 0);
                check("construction");
                continue;
            }
            VModel& x = m[s];
            SV& r = *sv[s];
            unsigned op = (unsigned)src.weighted({8, 8, 3, 3, 3, 3, 2, 1, 1});
            switch (op) {
            case 0: {
                size_t n = (size_t)src.range(0, 12);
                size_t old = x.v.size();
                PBT_LOG("v" << s << ".resize(" << n << ") [from " << old << "]\n");
                r.resize(n);
                if (n > old && old > 0) grew = true, pbt::label("resize_grow");
                if (n < old && n > 0) shrank = true, pbt::label("resize_shrink");
                if (n == 0) pbt::label("resize_0");
                if (old == 0) pbt::label("resize_from_empty");
                if (n == old) pbt::label("resize_same");
                x.v.resize(n, 0);
                x.init.resize(n, tracked ? 1 : 0);
                break;
            }
            case 1: { // element write
                if (x.v.empty()) continue;
                int v = (int)src.range(0, 99);
                unsigned how = (unsigned)src.range(0, 5);
                size_t i = how == 0 ? 0 : how == 1 ? x.v.size() - 1 : src.index(x.v.size());
                PBT_LOG("v" << s << " element " << i << " = " << v << " (via " << how << ")\n");
                switch (how) {
                case 0: r.front() = T(v); break;
                case 1: r.back() = T(v); break;
                case 2: r[i] = T(v); break;
                case 3: r.at(i) = T(v); break;
                case 4: *(r.begin() + i) = T(v); break;
                default: r.data()[i] = T(v); break;
                }
                x.v[i] = v, x.init[i] = 1;
                pbt::label("element_write");
                break;
            }
            case 2: {
                bool dflt = src.boolean();
                int v = dflt ? 0 : (int)src.range(0, 99);
                PBT_LOG("v" << s << ".fill(" << (dflt ? std::string() : std::to_string(v)) << ")\n");
                if (dflt) r.fill();
                else r.fill(T(v));
                for (size_t i = 0; i < x.v.size(); ++i) x.v[i] = v, x.init[i] = 1;
                pbt::label("fill");
                break;
            }
            case 3: { // move-construct into another slot
                size_t t = other_slot(s, false);
                PBT_LOG("v" << t << " = SimpleVector(std::move(v" << s << "))\n");
                sv[t].reset();
                sv[t].reset(new SV(std::move(r)));
                m[t] = x;
                x.v.clear(), x.init.clear(); // moved-from: empty (the move constructor says so)
                pbt::label("move_construct");
                break;
            }
            case 4: { // move-assign
                size_t t = other_slot(s, true);
                if (!m[t].exists) continue;
                PBT_LOG("v" << t << " = std::move(v" << s << ")" << (t == s ? " [self]" : "") << "\n");
                if (t == s) pbt::label("move_assign_self");
                else if (!m[t].v.empty()) pbt::label("move_assign_over_elements");
                else pbt::label("move_assign");
                SV& target = *sv[t];
                target = std::move(r);
                if (t != s) {
                    m[t] = x;
                    x.v.clear(), x.init.clear();
                }
                break;
            }
            case 5: {
                size_t t = other_slot(s, true);
                if (!m[t].exists) continue;
                PBT_LOG("v" << s << ".swap(v" << t << ")\n");
                r.swap(*sv[t]);
                if (t != s) std::swap(m[t], x);
                pbt::label(t == s ? "swap_self" : "swap");
                break;
            }
            case 6: {
                PBT_LOG("v" << s << ".destroy()\n");
                if (!x.v.empty()) pbt::label("destroy_with_elements");
                r.destroy();
                x.v.clear(), x.init.clear();
                pbt::label("destroy");
                break;
            }
            case 7: {
                PBT_LOG("delete v" << s << "\n");
                if (!x.v.empty()) pbt::label("dtor_with_elements");
                sv[s].reset();
                x = VModel();
                break;
            }
            default: {
                unsigned how = src.chance(64) ? 0 : 1;
                create(s, how, how ? (size_t)src.range(0, 9) : 0);
                break;
            }
            }
            check("op");
        }
        if (grew && shrank) pbt::nontrivial();
        size_t first = src.index(NS);
        for (size_t i = 0; i < NS; ++i) {
            size_t s = (first + i) % NS;
            sv[s].reset();
            m[s] = VModel();
            check("destruction");
        }
    }
    if (tracked)
        PBT_CHECK(verif::Ledger::get().live_count() == 0 && verif::Ledger::get().constructed == verif::Ledger::get().destroyed, "C16/vec-live-elements",
                  "at the end: constructed " << verif::Ledger::get().constructed << " destroyed " << verif::Ledger::get().destroyed);
}

} // namespace

PBT_PROPERTY(simplevec) {
    unsigned mode = (unsigned)src.range(0, 5);
    switch (mode) {
    case 1:
        pbt::label("mode=NoInitButDestroy<uint64>");
        PBT_LOG("SimpleVector<uint64_t, NoInitButDestroy>\n");
        return sv_history<uint64_t, tlx::SimpleVectorMode::NoInitButDestroy>(src);
    case 2:
        pbt::label("mode=NoInitNoDestroy<uint64>");
        PBT_LOG("SimpleVector<uint64_t, NoInitNoDestroy>\n");
        return sv_history<uint64_t, tlx::SimpleVectorMode::NoInitNoDestroy>(src);
    case 3:
        pbt::label("mode=Normal<int>");
        PBT_LOG("SimpleVector<int, Normal>\n");
        return sv_history<int, tlx::SimpleVectorMode::Normal>(src);
    default:
        pbt::label("mode=Normal<Tracked>");
        PBT_LOG("SimpleVector<Tracked, Normal>\n");
        return sv_history<Tracked, tlx::SimpleVectorMode::Normal>(src);
    }
}
