// C07 — target pmerge_api: generator, dispatcher and oracle of the public-API matrix (see C07_api.hpp; the per-form
// template instantiations are in C07_api_f0.cpp .. C07_api_f5.cpp). A separate target: the byte -> case mappings of
// pmerge / pmerge_scale / pmerge_iters and their stored witnesses are untouched.
#include "C07_api.hpp"

namespace c07 {
namespace {

// comparator | input iterators | container of the pairs | output iterator
const char* const FORM_LABEL[API_FORMS] = {"f0:std::less<Rec>|ptr|vector|counting",  "f1:std::less<u64>|ptr|array|raw_ptr",          "f2:closure|vector_it|array|raw_ptr",
                                           "f3:function_ptr|ptr|deque|vector_it",    "f4:std::function|deque_it|reverse_it|deque_it", "f5:std::greater<>|vector_it|vector|vector_it"};
const char* const FORM_CMP[API_FORMS] = {"std::less<Rec>", "std::less<uint64_t>", "closure", "function pointer", "std::function", "std::greater<>"};
const bool FORM_HAS_DEFAULT[API_FORMS] = {true, true, false, false, false, false};
const int FORM_DIR[API_FORMS] = {1, 1, 0, 0, 0, 2};           // 0 direction drawn, 1 ascending only, 2 descending only
const bool FORM_TOTAL_ORDER[API_FORMS] = {false, true, false, false, false, false};
const char* const ENTRY[2][3] = {{"parallel_multiway_merge", "parallel_multiway_merge_sentinels", "parallel_multiway_merge_base<false>"},
                                 {"stable_parallel_multiway_merge", "stable_parallel_multiway_merge_sentinels", "parallel_multiway_merge_base<true>"}};

struct RefE {
    int key, seq, pos;
};

} // namespace
} // namespace c07

PBT_PROPERTY(pmerge_api) {
    using namespace c07;
    reset_globals(); // public tuning variables of tlx/algorithm/parallel_multiway_merge.cpp
    ApiCase c;
    // ---- selectors first
    c.form = (int)src.weighted({3, 2, 2, 2, 2, 2});
    c.stable = !src.boolean();
    c.entry = (int)src.weighted({4, 3, 3});
    c.nargs = 4 + (int)src.weighted({4, 2, 2, 2, 4}); // 4: everything defaulted ... 8: everything explicit
    if (!FORM_HAS_DEFAULT[c.form] && c.nargs == 4) c.nargs = 5;
    c.valcat = (int)src.range(0, 2);
    c.alg = (int)src.range(0, 4);
    c.split = (int)src.range(0, 2);
    switch (src.weighted({6, 2, 4, 4, 6, 4, 3})) {
    case 0: c.threads = 2; break;
    case 1: c.threads = 1; break;
    case 2: c.threads = 3; break;
    case 3: c.threads = 4; break;
    case 4: c.threads = (int)src.range(5, 8); break;
    case 5: c.threads = (int)src.range(9, 16); break;
    default: c.threads = (int)src.range(17, 32); break;
    }
    // globals: all at their defaults (then mostly the big shape: the default thresholds k >= 2, n >= 1000 decide) or
    // varied: the two force switches independently (both set: force_sequential wins in the front ends; either way the
    // result must be the merge), the two thresholds relative to the actual k / length, the oversampling factor
    const bool gdefault = src.chance(56);
    const size_t force = gdefault ? 1 : src.weighted({10, 4, 3, 4}); // force_parallel | none | force_sequential | BOTH
    const bool fpar = force == 0 || force == 3, fseq = force == 2 || force == 3;
    const size_t mk_sel = gdefault ? 0 : src.weighted({5, 1, 1, 2, 2, 1}); // default 2 | 0 | 1 | k | k+1 | k-1
    const size_t mn_sel = gdefault ? 0 : src.weighted({5, 2, 2, 2, 1, 1}); // default 1000 | 0 | length | length+1 | length-1 | 1
    static const int OS[6] = {10, 1, 2, 3, 7, 100};
    const int oversampling = gdefault ? 10 : OS[src.range(0, 5)];
    c.desc = FORM_DIR[c.form] == 0 ? src.boolean() : FORM_DIR[c.form] == 2;
    const auto kless = [&](int a, int b) { return c.desc ? b < a : a < b; };

    // ---- shape: small (as pmerge) | bulk of 22..40 sequences of length 0 / 1 | big (>= 1000 elements: the default
    // thresholds minimal_k = 2, minimal_n = 1000 let a call with everything defaulted take the parallel path)
    const size_t shape = gdefault ? src.weighted({3, 1, 8}) : src.weighted({10, 3, 2});
    const int vsel = (int)src.range(0, 9);
    const int nvals = vsel < 8 ? vsel + 1 : 1001;
    const size_t lenmode = src.weighted({6, 8, 1, 2, 2, 2}); // total, uniform, 0, 1, total-1, around the thread count
    c.sentvary = (int)src.range(0, 2);
    std::vector<int> n;
    uint64_t seed = 0;
    if (shape == 0) {
        static const int K[11] = {3, 2, 4, 5, 1, 6, 7, 8, 9, 10, 0};
        const size_t kc = src.weighted({16, 14, 10, 8, 5, 6, 5, 4, 4, 4, 2, 6});
        c.k = kc < 11 ? K[kc] : (int)src.range(17, 40);
        const size_t emptymode = src.weighted({5, 3, 2});
        const unsigned emptyp = emptymode == 0 ? 0 : emptymode == 1 ? 12 : 72;
        n.assign((size_t)c.k, 0);
        for (int i = 0; i < c.k; ++i) {
            const unsigned t = src.u8();
            if (t < emptyp) continue;
            n[(size_t)i] = t < 120 ? 1 + (int)(t % 4) : (int)((t - 120) % 31);
            if (emptymode == 0 && n[(size_t)i] == 0) n[(size_t)i] = 1;
        }
    } else if (shape == 1) {
        c.k = (int)src.range(22, 40);
        const bool all_one = !src.chance(96); // mostly: every sequence has exactly one element
        seed = src.bits(4);
        n.assign((size_t)c.k, 1);
        if (!all_one)
            for (int i = 0; i < c.k; ++i) n[(size_t)i] = (int)(splitmix(seed) % 4 != 0);
    } else {
        c.k = 2 + (int)src.range(0, 4);
        seed = src.bits(4);
        n.assign((size_t)c.k, 0);
        for (int i = 0; i < c.k; ++i) n[(size_t)i] = 1000 / c.k + (int)(splitmix(seed) % 300);
    }
    const int k = c.k;
    c.keys.assign((size_t)k, std::vector<int>());
    bool any = false;
    int nonempty = 0;
    for (int i = 0; i < k; ++i) {
        std::vector<int>& ks = c.keys[(size_t)i];
        ks.resize((size_t)n[(size_t)i]);
        for (int& x : ks) {
            if (shape != 0) x = (int)(splitmix(seed) % (uint64_t)nvals);
            else x = nvals <= 8 ? (int)(src.u8() % nvals) : (int)(src.bits(2) % 1001);
        }
        std::sort(ks.begin(), ks.end(), kless);
        for (int x : ks) {
            if (!any || x > c.kmax) c.kmax = x;
            if (!any || x < c.kmin) c.kmin = x;
            any = true;
        }
        c.total += n[(size_t)i];
        nonempty += n[(size_t)i] > 0;
    }
    const std::ptrdiff_t total = c.total;

    // ---- effective thread count (nargs < 8: the default argument std::thread::hardware_concurrency())
    int hw = (int)std::thread::hardware_concurrency();
    if (hw < 1 && c.nargs < 8) c.nargs = 8; // the default would be 0 threads on such a machine: outside the statement
    const int threads = c.nargs == 8 ? c.threads : hw;

    // ---- length
    std::ptrdiff_t length = total;
    switch (lenmode) {
    case 0: length = total; break;
    case 1: length = (std::ptrdiff_t)src.range(0, total); break;
    case 2: length = 0; break;
    case 3: length = std::min<std::ptrdiff_t>(1, total); break;
    case 4: length = std::max<std::ptrdiff_t>(0, total - 1); break;
    default: length = std::max<std::ptrdiff_t>(0, std::min<std::ptrdiff_t>(total, threads + (std::ptrdiff_t)src.range(0, 2) - 1)); break;
    }
    if (shape == 2 && lenmode != 0 && lenmode != 1) { // both sides of the default minimal_n
        static const std::ptrdiff_t L[4] = {1000, 999, 1001, 1500};
        length = std::min(total, L[src.range(0, 3)]);
    }

    // ---- thresholds
    const size_t mink = mk_sel == 0 ? 2 : mk_sel == 1 ? 0 : mk_sel == 2 ? 1 : mk_sel == 3 ? (size_t)k : mk_sel == 4 ? (size_t)k + 1 : (size_t)std::max(0, k - 1);
    auto minn_of = [&](std::ptrdiff_t len) {
        return mn_sel == 0 ? (size_t)1000 : mn_sel == 1 ? (size_t)0 : mn_sel == 2 ? (size_t)len : mn_sel == 3 ? (size_t)len + 1 : mn_sel == 4 ? (size_t)std::max<std::ptrdiff_t>(0, len - 1) : (size_t)1;
    };
    // replica of the documented gating, for labels / exclusion keys only
    auto gate_parallel = [&](std::ptrdiff_t len) {
        if (k == 0) return false;
        if (c.entry == 2) return true;
        if (fseq) return false;
        if (fpar) return true;
        return threads > 1 && (size_t)k >= mink && (size_t)len >= minn_of(len);
    };
    bool par = gate_parallel(length) && total > 0;
    const bool sampling = c.nargs >= 7 && API_SPLIT[c.split] == tlx::MWMSA_SAMPLING;
    // known-finding exclusion keys (the same shapes as run_case<>)
    if (par && sampling && length < total && pbt::excluded("C07/sampling-partial")) length = total;
    if (par && length == 0 && pbt::excluded("C07/length-zero")) length = std::min<std::ptrdiff_t>(1, total);
    if (par && !sampling && length < total && std::min<std::ptrdiff_t>(threads, total) == 1 && pbt::excluded("C07/exact-one-thread-partial")) length = total;
    c.length = length;
    const size_t minn = minn_of(length);
    par = gate_parallel(length) && total > 0;
    const std::ptrdiff_t teff = par ? std::min<std::ptrdiff_t>(threads, total) : 1;
    c.layout = seed ^ ((uint64_t)total << 20) ^ ((uint64_t)k << 8) ^ (uint64_t)c.threads ^ ((uint64_t)c.form << 40);

    // ---- reference: stable merge by (key, seq, pos)
    std::vector<RefE> ref;
    ref.reserve((size_t)total);
    for (int i = 0; i < k; ++i)
        for (int j = 0; j < n[(size_t)i]; ++j) ref.push_back(RefE{c.keys[(size_t)i][(size_t)j], i, j});
    std::stable_sort(ref.begin(), ref.end(), [&](const RefE& a, const RefE& b) { return kless(a.key, b.key); });
    bool shared_key = false;
    for (size_t i = 1; i < ref.size() && !shared_key; ++i) shared_key = ref[i].key == ref[i - 1].key && ref[i].seq != ref[i - 1].seq;

    // ---- labels
    pbt::label(FORM_LABEL[c.form]);
    pbt::label(API_CONST_IN ? "inputs=const_elements" : "inputs=mutable(const_rejected_by_tlx)");
    pbt::label(c.stable ? "stable" : "unstable");
    pbt::label(c.entry == 0 ? "entry=frontend" : c.entry == 1 ? "entry=frontend_sentinels" : "entry=base");
    pbt::label(c.nargs == 4 ? "nargs=4(all_defaulted)" : c.nargs == 5 ? "nargs=5(comp)" : c.nargs == 6 ? "nargs=6(comp,mwma)" : c.nargs == 7 ? "nargs=7(comp,mwma,mwmsa)" : "nargs=8(all_explicit)");
    if (c.nargs < 8) pbt::label("num_threads=default(hardware_concurrency)");
    if (c.nargs >= 5) pbt::label(c.valcat == 0 ? "comp=const_lvalue" : c.valcat == 1 ? "comp=lvalue" : "comp=rvalue");
    if (c.nargs >= 6) pbt::label(c.alg == 0 ? "mwma=MWMA_ALGORITHM_DEFAULT" : c.alg == 1 ? "mwma=MWMA_LOSER_TREE" : c.alg == 2 ? "mwma=MWMA_LOSER_TREE_COMBINED" : c.alg == 3 ? "mwma=MWMA_LOSER_TREE_SENTINEL" : "mwma=MWMA_BUBBLE");
    if (c.nargs >= 7) pbt::label(c.split == 0 ? "mwmsa=MWMSA_DEFAULT" : c.split == 1 ? "mwmsa=MWMSA_EXACT" : "mwmsa=MWMSA_SAMPLING");
    pbt::label(force == 0 ? "force_parallel" : force == 1 ? "no_force_flag(thresholds_decide)" : force == 2 ? "force_sequential" : "BOTH_force_flags");
    pbt::label(mk_sel == 0 ? "minimal_k=default" : mink <= (size_t)k ? "minimal_k<=k" : "minimal_k>k");
    pbt::label(mn_sel == 0 ? "minimal_n=default" : minn <= (size_t)length ? "minimal_n<=length" : "minimal_n>length");
    pbt::label(par ? "path=parallel" : "path=sequential");
    if (force == 1 && mk_sel == 0 && mn_sel == 0 && oversampling == 10) {
        pbt::label("globals_all_at_defaults");
        if (par && c.entry != 2) pbt::label("globals_at_defaults,path=parallel");
        if (par && c.entry != 2 && c.nargs == 4) pbt::label("everything_defaulted,path=parallel");
    }
    if (c.nargs == 4 && par) pbt::label("nargs=4,path=parallel");
    if (c.nargs == 4 && !par) pbt::label("nargs=4,path=sequential");
    pbt::label(shape == 0 ? "shape=small" : shape == 1 ? "shape=bulk_22..40_seqs_of_length_0/1" : "shape=big(>=1000)");
    if (shape == 1 && nonempty == k) pbt::label("bulk:all_seqs_have_exactly_1_element");
    if (shape == 1 && length < total && length > 0) pbt::label("bulk:partial_length");
    pbt::label(k == 0 ? "k=0" : k == 1 ? "k=1" : k == 2 ? "k=2" : k <= 4 ? "k=3..4" : k <= 10 ? "k=5..10" : "k>=17");
    if (length < total) pbt::label("partial");
    if (length < total && par) pbt::label("partial,path=parallel");
    if (length < total && !par && k > 0) pbt::label("partial,path=sequential");
    if (length == 0 && total > 0) pbt::label("length=0");
    if (nonempty < k) pbt::label("has_empty_seq");
    if (par && threads > total) pbt::label("threads>total");
    if (par && sampling) pbt::label(oversampling == 10 ? "oversampling=10" : oversampling == 100 ? "oversampling=100" : "oversampling=1..7");
    pbt::label(c.desc ? "cmp=descending" : "cmp=ascending");
    if (par && teff >= 2 && nonempty >= 2 && length > 0 && shared_key) pbt::nontrivial();

    if (pbt::verbose()) {
        PBT_LOG("tlx::" << ENTRY[c.stable][c.entry] << "(seqs_begin, seqs_end, target, " << length << " /* of " << total << " */");
        if (c.nargs >= 5) PBT_LOG(", comp /* " << FORM_CMP[c.form] << (c.desc ? ", descending" : ", ascending") << ", passed as " << (c.valcat == 0 ? "const lvalue" : c.valcat == 1 ? "lvalue" : "rvalue") << " */");
        if (c.nargs >= 6) PBT_LOG(", " << API_ALG_NAME[c.alg]);
        if (c.nargs >= 7) PBT_LOG(", " << API_SPLIT_NAME[c.split]);
        if (c.nargs >= 8) PBT_LOG(", " << c.threads);
        PBT_LOG(")");
        if (c.nargs < 8) PBT_LOG("  // defaulted: " << (c.nargs < 5 ? "comp = std::less<value_type>, " : "") << (c.nargs < 6 ? "mwma, " : "") << (c.nargs < 7 ? "mwmsa, " : "") << "num_threads = hardware_concurrency() = " << hw);
        PBT_LOG("\n  " << FORM_LABEL[c.form] << (API_CONST_IN ? " (inputs const)" : " (inputs mutable)") << "\n  globals: force_sequential=" << fseq << " force_parallel=" << fpar << " minimal_k=" << mink
                       << " minimal_n=" << minn << " oversampling=" << oversampling << " -> " << (par ? "parallel" : "sequential") << " path, " << teff << " thread(s) after clamping; k=" << k << "\n");
        for (int i = 0; i < k && i < 48; ++i) {
            PBT_LOG("  seq[" << i << "] n=" << n[(size_t)i] << " keys:");
            for (int j = 0; j < n[(size_t)i] && j < 48; ++j) PBT_LOG(" " << c.keys[(size_t)i][(size_t)j]);
            if (n[(size_t)i] > 48) PBT_LOG(" ...");
            PBT_LOG("\n");
        }
    }

    // ---- settings (public globals), then the call under test
    tlx::parallel_multiway_merge_force_sequential = fseq;
    tlx::parallel_multiway_merge_force_parallel = fpar;
    tlx::parallel_multiway_merge_minimal_k = mink;
    tlx::parallel_multiway_merge_minimal_n = minn;
    tlx::parallel_multiway_merge_oversampling = (size_t)oversampling;
    ApiResult r;
    switch (c.form) {
    case 0: r = run_api_f0(c); break;
    case 1: r = run_api_f1(c); break;
    case 2: r = run_api_f2(c); break;
    case 3: r = run_api_f3(c); break;
    case 4: r = run_api_f4(c); break;
    default: r = run_api_f5(c); break;
    }
    // the call must not change the caller's settings
    const bool globals_kept = tlx::parallel_multiway_merge_force_sequential == fseq && tlx::parallel_multiway_merge_force_parallel == fpar &&
                              tlx::parallel_multiway_merge_minimal_k == mink && tlx::parallel_multiway_merge_minimal_n == minn &&
                              tlx::parallel_multiway_merge_oversampling == (size_t)oversampling;
    reset_globals();

    // ---- oracle
    const std::ptrdiff_t G = API_G;
    const Rec poison = ElRec::poison();
    typedef Tr<Rec> T;
    if (pbt::verbose()) {
        PBT_LOG("  returned target+" << r.ret << "\n  output:");
        for (std::ptrdiff_t j = 0; j < length && j < 96; ++j) {
            const Rec& e = r.cells[(size_t)(G + j)];
            PBT_LOG(" " << e.key << "@" << e.seq << "." << e.pos << (!r.counting || r.cnt[(size_t)(G + j)] == 1 ? "" : "(!)"));
        }
        PBT_LOG("\n  first advanced by / second at:");
        for (int i = 0; i < k && i < 48; ++i) PBT_LOG(" " << r.adv[(size_t)i] << "/" << r.endoff[(size_t)i]);
        PBT_LOG("\n");
    }
    PBT_CHECK(r.outside == 0, "C07/write-outside", r.outside << " assignment(s) outside the output buffer, first at target+" << r.first_outside << " (length " << length << ")");
    // nothing before target, and NOTHING behind target+length although the buffer has room for the full merge
    for (std::ptrdiff_t j = -G; j < total + G; ++j) {
        if (j >= 0 && j < length) continue;
        const size_t idx = (size_t)(G + j);
        const bool written = r.counting ? r.cnt[idx] != 0 : !T::same(r.cells[idx], poison);
        PBT_CHECK(!written, "C07/write-outside",
                  "cell target" << (j < 0 ? "" : "+") << j << " was written: outside the requested range [0," << length << ") (the buffer has room for all " << total << " elements)");
    }
    for (std::ptrdiff_t j = 0; j < length; ++j) {
        const size_t idx = (size_t)(G + j);
        if (r.counting) {
            PBT_CHECK(r.cnt[idx] != 0, "C07/unwritten", "output slot " << j << " of " << length << " was never written");
            PBT_CHECK(r.cnt[idx] == 1, "C07/written-twice", "output slot " << j << " of " << length << " was written " << r.cnt[idx] << " times");
        } else {
            PBT_CHECK(!T::same(r.cells[idx], poison), "C07/unwritten", "output slot " << j << " of " << length << " was never written");
        }
    }
    PBT_CHECK(r.ret == length, "C07/return", "returned iterator is target+" << r.ret << ", expected target+" << length);
    for (std::ptrdiff_t j = 0; j < length; ++j) {
        const Rec& e = r.cells[(size_t)(G + j)];
        const bool is_input = e.seq >= 0 && e.seq < k && e.pos >= 0 && e.pos < n[(size_t)e.seq] && T::same(e, T::make(c.keys[(size_t)e.seq][(size_t)e.pos], e.seq, e.pos));
        PBT_CHECK(is_input, "C07/not-an-input", "output slot " << j << " holds (key " << e.key << ", seq " << e.seq << ", pos " << e.pos << ") which is not an element of the inputs");
    }
    for (std::ptrdiff_t j = 0; j < length; ++j) {
        const Rec& e = r.cells[(size_t)(G + j)];
        PBT_CHECK(e.key == ref[(size_t)j].key, "C07/keys", "output slot " << j << " has key " << e.key << ", the sequential merge has key " << ref[(size_t)j].key << " there");
    }
    if (c.stable || FORM_TOTAL_ORDER[c.form])
        for (std::ptrdiff_t j = 0; j < length; ++j) {
            const Rec& e = r.cells[(size_t)(G + j)];
            PBT_CHECK(e.seq == ref[(size_t)j].seq && e.pos == ref[(size_t)j].pos, "C07/stable-order",
                      (c.stable ? "stable merge" : "all elements distinct under the comparator")
                          << ": output slot " << j << " is (key " << e.key << ", seq " << e.seq << ", pos " << e.pos << "), the stable sequential merge has (key " << ref[(size_t)j].key
                          << ", seq " << ref[(size_t)j].seq << ", pos " << ref[(size_t)j].pos << ") there");
        }
    std::vector<std::ptrdiff_t> taken((size_t)k, 0);
    for (std::ptrdiff_t j = 0; j < length; ++j) {
        const Rec& e = r.cells[(size_t)(G + j)];
        PBT_CHECK(e.pos == taken[(size_t)e.seq], "C07/prefix",
                  "output slot " << j << " is element " << e.pos << " of sequence " << e.seq << " but element " << taken[(size_t)e.seq] << " of that sequence has not been emitted (not a prefix in order)");
        ++taken[(size_t)e.seq];
    }
    for (int i = 0; i < k; ++i)
        PBT_CHECK(r.adv[(size_t)i] == taken[(size_t)i], "C07/advance",
                  "sequence " << i << ": begin advanced by " << r.adv[(size_t)i] << " but " << taken[(size_t)i] << " of its elements were emitted (length " << length << " of " << total << ")");
    // the END iterator of every pair still marks the end of its sequence: [first, second) is exactly the unconsumed rest
    for (int i = 0; i < k; ++i)
        PBT_CHECK(r.endoff[(size_t)i] == n[(size_t)i], "C07/end-moved",
                  "sequence " << i << ": the end iterator (.second) of the pair moved from begin+" << n[(size_t)i] << " to begin+" << r.endoff[(size_t)i]
                              << ": the pair no longer denotes the unconsumed rest of the sequence");
    PBT_CHECK(r.modified_seq < 0, "C07/input-modified", "input sequence " << r.modified_seq << " element " << r.modified_pos << " was modified");
    PBT_CHECK(r.cmp_intact, "C07/comparator-lost", "the caller's comparator object (" << FORM_CMP[c.form] << ") is not usable any more after the call (moved from?)");
    PBT_CHECK(globals_kept, "C07/globals-changed", "the call changed one of the public tuning variables tlx::parallel_multiway_merge_*");
}
