// C07 — target pmerge_iters: element type Rec, Stable = false, iterator kinds 0, 1 (deque / reverse inputs), owning comparator
#include "C07_common.hpp"

namespace c07 {
void run_it_rec_u(pbt::Source& src, const Cfg& cfg, int kind) { run_iters<Rec, false>(src, cfg, kind); }
} // namespace c07
