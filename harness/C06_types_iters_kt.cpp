// C06 — target mergesort_iters, trivially copyable (key,tag) element: std::deque range and std::reverse_iterator range,
// comparator owning state.
#include "C06_types_iters.hpp"

namespace c06 {

namespace {
struct KT {
    int key;
    int tag;
};
using Cmp = iters::OwnCmp<KT>;
Cmp make_cmp(const Params& p) { return Cmp(p.greater, [](const KT& x) { return x.key; }); }
} // namespace

Lifetime sort_deque_kt(const Params& p, std::vector<Item>& items) {
    const size_t n = items.size();
    const iters::Layout lo(p.layout, 512 / sizeof(KT));
    std::deque<KT> d;
    iters::build_deque(d, lo, items, [](int k, int t) { return KT{k, t}; });
    run_tlx_range(p, d.begin() + (std::ptrdiff_t)lo.lead, d.begin() + (std::ptrdiff_t)(lo.lead + n), make_cmp(p));
    if (d.size() != lo.lead + n + lo.trail) pbt::fail("C06/size", "the deque changed its size");
    for (size_t j = 0; j < lo.lead; ++j)
        if (d[j].key != iters::GUARD_KEY || d[j].tag != -2 - (int)j)
            pbt::fail("C06/write-outside-range", "an element BEFORE the sorted deque range [begin, end) was modified");
    for (size_t j = 0; j < lo.trail; ++j)
        if (d[lo.lead + n + j].key != iters::GUARD_KEY || d[lo.lead + n + j].tag != -2 - (int)j)
            pbt::fail("C06/write-outside-range", "an element BEHIND the sorted deque range [begin, end) was modified");
    for (size_t i = 0; i < n; ++i) items[i] = Item{d[lo.lead + i].key, d[lo.lead + i].tag};
    return Lifetime();
}

Lifetime sort_rev_kt(const Params& p, std::vector<Item>& items) {
    const size_t n = items.size();
    const iters::Layout lo(p.layout, 512 / sizeof(KT));
    // physical vector: trail guards, the items back to front, lead guards; the reverse iterators see: lead, items, trail
    std::vector<KT> v;
    v.reserve(lo.lead + n + lo.trail);
    for (size_t j = 0; j < lo.trail; ++j) v.push_back(KT{iters::GUARD_KEY, -2 - (int)j});
    for (size_t i = n; i-- > 0;) v.push_back(KT{items[i].key, items[i].tag});
    for (size_t j = 0; j < lo.lead; ++j) v.push_back(KT{iters::GUARD_KEY, -2 - (int)j});
    typedef std::reverse_iterator<std::vector<KT>::iterator> RIt;
    RIt b = RIt(v.end()) + (std::ptrdiff_t)lo.lead;
    run_tlx_range(p, b, b + (std::ptrdiff_t)n, make_cmp(p));
    if (v.size() != lo.lead + n + lo.trail) pbt::fail("C06/size", "the vector changed its size");
    for (size_t j = 0; j < lo.trail; ++j)
        if (v[j].key != iters::GUARD_KEY || v[j].tag != -2 - (int)j)
            pbt::fail("C06/write-outside-range", "an element BEHIND the sorted reverse_iterator range [begin, end) was modified");
    for (size_t j = 0; j < lo.lead; ++j)
        if (v[lo.trail + n + j].key != iters::GUARD_KEY || v[lo.trail + n + j].tag != -2 - (int)j)
            pbt::fail("C06/write-outside-range", "an element BEFORE the sorted reverse_iterator range [begin, end) was modified");
    for (size_t i = 0; i < n; ++i) items[i] = Item{v[lo.trail + n - 1 - i].key, v[lo.trail + n - 1 - i].tag};
    return Lifetime();
}

} // namespace c06
