// C16 (part 1) — tlx::RingBuffer is a bounded deque and keeps element lifetimes exact.
// Model: std::deque<int> per buffer; lifetime oracle: verif::Tracked ledger (alive iff stored) and the
// CountingAllocator ledger (one block per allocated buffer, every block freed once); ASan.
// Domain (DESIGN §3 rule 1): never over max_size, never popped/read empty, an unallocated buffer (default
// constructed, moved-from, deallocated) is only destroyed, assigned to, deallocated again or allocate()d.
#include "../engine/pbt.hpp"
#include "../engine/tracked.hpp"

#include <deque>
#include <memory>
#include <type_traits>
#include <vector>

#include <tlx/container/ring_buffer.hpp>

namespace {

using verif::Tracked;

//! CountingAllocator that accepts deallocate(nullptr, n) like std::allocator does in practice: RingBuffer's
//! destructor and assignments free the (null) storage of default-constructed / moved-from buffers; the
//! property says nothing about that, so it is not reported (rule 3).
template <class T>
struct RingAlloc : verif::CountingAllocator<T> {
    template <class U>
    struct rebind {
        typedef RingAlloc<U> other;
    };
    RingAlloc() noexcept {}
    template <class U>
    RingAlloc(const RingAlloc<U>&) noexcept {}
    void deallocate(T* p, std::size_t n) noexcept {
        if (p == nullptr) return;
        verif::CountingAllocator<T>::deallocate(p, n);
    }
};

inline int val(const Tracked& t) { return t.value(); }
inline int val(int x) { return x; }

struct Model {
    bool exists = false, alloc = false;
    size_t max = 0;
    std::deque<int> dq;
    size_t b = 0, e = 0, mask = 0; // mirror of the cursors (labels / non-triviality only)
};

std::string show(const std::deque<int>& d) {
    std::ostringstream os;
    os << "[";
    for (size_t i = 0; i < d.size(); ++i) os << (i ? "," : "") << d[i];
    os << "]";
    return os.str();
}

template <class T, class A>
void ring_history(pbt::Source& src) {
    typedef tlx::RingBuffer<T, A> RB;
    constexpr bool tracked = std::is_same<T, Tracked>::value;
    constexpr size_t NS = 3;
    verif::Ledger::get().reset();
    verif::AllocLedger::get().reset();
    size_t max0 = (size_t)src.range(0, 9);
    {
        std::unique_ptr<RB> rb[NS];
        Model m[NS];
        bool bwrap = false, ewrap = false, popped_back = false;

        auto create = [&](size_t s, bool dflt, size_t max) {
            if (dflt) {
                PBT_LOG("b" << s << " = RingBuffer()\n");
                rb[s].reset(new RB());
                pbt::label("ctor_default");
            } else {
                PBT_LOG("b" << s << " = RingBuffer(" << max << ")\n");
                rb[s].reset(new RB(max));
                if (max == 0) pbt::label("capacity_0");
                if (max && !(max & (max - 1))) pbt::label("capacity_pow2");
            }
            m[s] = Model();
            m[s].exists = true, m[s].alloc = !dflt, m[s].max = max;
            if (!dflt) m[s].mask = rb[s]->capacity() - 1;
        };
        auto check = [&](const char* after) {
            size_t stored = 0, blocks = 0;
            for (size_t s = 0; s < NS; ++s) {
                if (!m[s].exists || !m[s].alloc) continue;
                ++blocks;
                const std::deque<int>& d = m[s].dq;
                RB& r = *rb[s];
                const RB& cr = r;
                stored += d.size();
                PBT_CHECK(cr.size() == d.size(), "C16/ring-size", "after " << after << ": b" << s << ".size() = " << cr.size() << " but deque model " << show(d));
                PBT_CHECK(cr.empty() == d.empty(), "C16/ring-empty", "after " << after << ": b" << s << ".empty() = " << cr.empty() << ", model " << show(d));
                PBT_CHECK(cr.max_size() == m[s].max, "C16/ring-max_size", "after " << after << ": b" << s << ".max_size() = " << cr.max_size() << " expected " << m[s].max);
                if (d.empty()) continue;
                PBT_CHECK(val(cr.front()) == d.front() && val(r.front()) == d.front(), "C16/ring-front",
                          "after " << after << ": b" << s << ".front() = " << val(cr.front()) << " but model " << show(d));
                PBT_CHECK(val(cr.back()) == d.back() && val(r.back()) == d.back(), "C16/ring-back",
                          "after " << after << ": b" << s << ".back() = " << val(cr.back()) << " but model " << show(d));
                for (size_t i = 0; i < d.size(); ++i)
                    PBT_CHECK(val(cr[i]) == d[i] && val(r[i]) == d[i], "C16/ring-index",
                              "after " << after << ": b" << s << "[" << i << "] = " << val(cr[i]) << " but model " << show(d));
            }
            if (tracked)
                PBT_CHECK(verif::Ledger::get().live_count() == stored, "C16/ring-live-elements",
                          "after " << after << ": " << verif::Ledger::get().live_count() << " element objects alive but " << stored << " stored");
            PBT_CHECK(verif::AllocLedger::get().live_count() == blocks, "C16/ring-live-blocks",
                      "after " << after << ": " << verif::AllocLedger::get().live_count() << " storage blocks alive but " << blocks << " allocated buffers");
        };
        auto other_slot = [&](size_t s, bool allow_self) -> size_t {
            size_t t = src.index(NS);
            if (!allow_self && t == s) t = (s + 1) % NS;
            return t;
        };
        auto pushed_back = [&](Model& x) {
            x.e = (x.e + 1) & x.mask;
            if (x.e == 0 && x.mask) ewrap = true;
        };
        auto pushed_front = [&](Model& x) {
            if (x.b == 0 && x.mask) bwrap = true;
            x.b = (x.b - 1) & x.mask;
        };

        create(0, false, max0);
        check("construction");
        unsigned nops = 0;
        while (src.more() && nops < 120) {
            ++nops;
            size_t s = src.weighted({5, 2, 1}); // mostly b0: long histories on one buffer wrap both cursors
            if (!m[s].exists) {
                bool dflt = src.chance(48);
                create(s, dflt, dflt ? 0 : (size_t)src.range(0, 9));
                check("construction");
                continue;
            }
            Model& x = m[s];
            RB& r = *rb[s];
            unsigned op = (unsigned)src.weighted({10, 10, 6, 6, 2, 2, 1, 2, 2, 2, 2, 2, 2, 1, 1, 1});
            bool room = x.alloc && x.dq.size() < x.max;
            switch (op) {
            case 0: { // push_back family
                if (!room) {
                    // full: slide the window (pop at the other end first) so that long histories wrap the cursors
                    if (!x.alloc || x.max == 0) continue;
                    PBT_LOG("b" << s << ".pop_front() [make room]\n");
                    r.pop_front();
                    x.dq.pop_front();
                    x.b = (x.b + 1) & x.mask;
                    if (x.b == 0) bwrap = true;
                    pbt::label("pop_front");
                }
                int v = (int)src.range(0, 99);
                unsigned how = (unsigned)src.range(0, 2);
                PBT_LOG("b" << s << (how == 0 ? ".push_back(const& " : how == 1 ? ".push_back(&& " : ".emplace_back(") << v << ")\n");
                if (how == 0) {
                    const T tmp(v);
                    r.push_back(tmp);
                } else if (how == 1) {
                    T tmp(v);
                    r.push_back(std::move(tmp));
                } else r.emplace_back(v);
                x.dq.push_back(v);
                pushed_back(x);
                pbt::label(how == 0 ? "push_back_copy" : how == 1 ? "push_back_move" : "emplace_back");
                if (x.dq.size() == x.max) pbt::label("full");
                break;
            }
            case 1: { // push_front family
                if (!room) {
                    if (!x.alloc || x.max == 0) continue;
                    PBT_LOG("b" << s << ".pop_back() [make room]\n");
                    r.pop_back();
                    if (x.dq.size() > 1) pbt::label("pop_back_size>1");
                    x.dq.pop_back();
                    if (x.e == 0) ewrap = true;
                    x.e = (x.e - 1) & x.mask;
                    popped_back = true;
                    pbt::label("pop_back");
                }
                int v = (int)src.range(0, 99);
                unsigned how = (unsigned)src.range(0, 2);
                PBT_LOG("b" << s << (how == 0 ? ".push_front(const& " : how == 1 ? ".push_front(&& " : ".emplace_front(") << v << ")\n");
                if (how == 0) {
                    const T tmp(v);
                    r.push_front(tmp);
                } else if (how == 1) {
                    T tmp(v);
                    r.push_front(std::move(tmp));
                } else r.emplace_front(v);
                x.dq.push_front(v);
                pushed_front(x);
                pbt::label(how == 0 ? "push_front_copy" : how == 1 ? "push_front_move" : "emplace_front");
                if (x.dq.size() == x.max) pbt::label("full");
                break;
            }
            case 2: {
                if (!x.alloc || x.dq.empty()) continue;
                PBT_LOG("b" << s << ".pop_front()\n");
                r.pop_front();
                x.dq.pop_front();
                x.b = (x.b + 1) & x.mask;
                if (x.b == 0) bwrap = true;
                pbt::label("pop_front");
                break;
            }
            case 3: {
                if (!x.alloc || x.dq.empty()) continue;
                PBT_LOG("b" << s << ".pop_back()" << (x.dq.size() > 1 ? " [size>1]" : "") << "\n");
                r.pop_back();
                if (x.dq.size() > 1) pbt::label("pop_back_size>1");
                x.dq.pop_back();
                if (x.e == 0) ewrap = true;
                x.e = (x.e - 1) & x.mask;
                popped_back = true;
                pbt::label("pop_back");
                break;
            }
            case 4: { // element write through front()/back()/operator[]
                if (!x.alloc || x.dq.empty()) continue;
                int v = (int)src.range(0, 99);
                unsigned how = (unsigned)src.range(0, 2);
                size_t i = how == 0 ? 0 : how == 1 ? x.dq.size() - 1 : src.index(x.dq.size());
                PBT_LOG("b" << s << (how == 0 ? ".front() = " : how == 1 ? ".back() = " : ".operator[] = ") << v << " (index " << i << ")\n");
                if (how == 0) r.front() = T(v);
                else if (how == 1) r.back() = T(v);
                else r[i] = T(v);
                x.dq[i] = v;
                pbt::label("element_write");
                break;
            }
            case 5: {
                if (!x.alloc) continue;
                PBT_LOG("b" << s << ".clear()\n");
                r.clear();
                x.dq.clear();
                x.b = x.e;
                pbt::label("clear");
                break;
            }
            case 6: { // copy-construct a new buffer into another slot
                if (!x.alloc) continue;
                size_t t = other_slot(s, false);
                PBT_LOG("b" << t << " = RingBuffer(b" << s << ") [copy-construct]\n");
                rb[t].reset();
                rb[t].reset(new RB(static_cast<const RB&>(r)));
                m[t] = x;
                m[t].b = 0, m[t].e = x.dq.size();
                pbt::label("copy_construct");
                break;
            }
            case 7: { // copy-assign (also onto itself, onto unallocated buffers and different capacities)
                if (!x.alloc) continue;
                size_t t = other_slot(s, true);
                if (!m[t].exists) continue;
                PBT_LOG("b" << t << " = b" << s << " [copy-assign" << (t == s ? ", self" : "") << (m[t].alloc ? "" : ", target unallocated") << "]\n");
                if (t == s) pbt::label("copy_assign_self");
                else if (!m[t].alloc) pbt::label("copy_assign_to_unallocated");
                else if (m[t].mask != x.mask) pbt::label("copy_assign_other_capacity");
                else pbt::label("copy_assign_same_capacity");
                if (t != s && m[t].alloc && !m[t].dq.empty()) pbt::label("copy_assign_over_elements");
                *rb[t] = static_cast<const RB&>(r);
                if (t != s) {
                    m[t] = x;
                    m[t].b = 0, m[t].e = x.dq.size();
                }
                break;
            }
            case 8: { // move-construct
                if (!x.alloc) continue;
                size_t t = other_slot(s, false);
                PBT_LOG("b" << t << " = RingBuffer(std::move(b" << s << ")) [move-construct]\n");
                rb[t].reset();
                rb[t].reset(new RB(std::move(r)));
                m[t] = x;
                x.alloc = false, x.dq.clear(), x.b = x.e = 0;
                pbt::label("move_construct");
                break;
            }
            case 9: { // move-assign
                if (!x.alloc) continue;
                size_t t = other_slot(s, true);
                if (!m[t].exists) continue;
                PBT_LOG("b" << t << " = std::move(b" << s << ") [move-assign" << (t == s ? ", self" : "") << (m[t].alloc ? "" : ", target unallocated") << "]\n");
                if (t == s) pbt::label("move_assign_self");
                else if (!m[t].alloc) pbt::label("move_assign_to_unallocated");
                else pbt::label("move_assign");
                if (t != s && m[t].alloc && !m[t].dq.empty()) pbt::label("move_assign_over_elements");
                RB& target = *rb[t];
                target = std::move(r);
                if (t != s) {
                    m[t] = x;
                    x.alloc = false, x.dq.clear(), x.b = x.e = 0;
                }
                break;
            }
            case 10: {
                PBT_LOG("b" << s << ".deallocate()" << (x.alloc ? "" : " [already unallocated]") << "\n");
                if (x.alloc && x.b != 0) pbt::label("deallocate_with_advanced_cursors");
                r.deallocate();
                x.alloc = false, x.dq.clear();
                pbt::label("deallocate");
                break;
            }
            case 11: {
                if (x.alloc) continue;
                size_t n = (size_t)src.range(0, 9);
                PBT_LOG("b" << s << ".allocate(" << n << ")\n");
                r.allocate(n);
                x.alloc = true, x.max = n, x.dq.clear(), x.b = x.e = 0;
                x.mask = r.capacity() - 1;
                pbt::label("allocate");
                break;
            }
            case 12: {
                if (!x.alloc) continue;
                PBT_LOG("b" << s << ".copy_to(vector)\n");
                {
                    std::vector<T> out;
                    out.emplace_back(7); // copy_to appends
                    static_cast<const RB&>(r).copy_to(&out);
                    PBT_CHECK(out.size() == x.dq.size() + 1 && val(out[0]) == 7, "C16/ring-copy_to", "copy_to appended " << out.size() - 1 << " elements, model " << show(x.dq));
                    for (size_t i = 0; i < x.dq.size(); ++i)
                        PBT_CHECK(val(out[i + 1]) == x.dq[i], "C16/ring-copy_to", "copy_to element " << i << " = " << val(out[i + 1]) << ", model " << show(x.dq));
                }
                pbt::label("copy_to");
                break;
            }
            case 13: {
                if (!x.alloc) continue;
                PBT_LOG("b" << s << ".move_to(vector)\n");
                {
                    std::vector<T> out;
                    r.move_to(&out);
                    PBT_CHECK(out.size() == x.dq.size(), "C16/ring-move_to", "move_to produced " << out.size() << " elements, model " << show(x.dq));
                    for (size_t i = 0; i < x.dq.size(); ++i)
                        PBT_CHECK(val(out[i]) == x.dq[i], "C16/ring-move_to", "move_to element " << i << " = " << val(out[i]) << ", model " << show(x.dq));
                }
                for (size_t i = 0; i < x.dq.size(); ++i) {
                    x.b = (x.b + 1) & x.mask;
                    if (x.b == 0) bwrap = true;
                }
                x.dq.clear();
                pbt::label("move_to");
                break;
            }
            case 14: {
                PBT_LOG("destroy b" << s << (x.alloc ? "" : " [unallocated]") << "\n");
                if (x.alloc && !x.dq.empty()) pbt::label("destroy_with_elements");
                if (!x.alloc) pbt::label("destroy_unallocated");
                rb[s].reset();
                x = Model();
                break;
            }
            default: { // allocate a fresh buffer object in place of this one
                bool dflt = src.chance(64);
                rb[s].reset();
                create(s, dflt, dflt ? 0 : (size_t)src.range(0, 9));
                break;
            }
            }
            check("op");
            if (bwrap && ewrap) pbt::label("both_cursors_wrapped");
        }
        if (bwrap && ewrap && popped_back) pbt::nontrivial();
        // destroy everything in a drawn order
        size_t first = src.index(NS);
        for (size_t i = 0; i < NS; ++i) {
            size_t s = (first + i) % NS;
            rb[s].reset();
            m[s] = Model();
            check("destruction");
        }
    }
    if (tracked)
        PBT_CHECK(verif::Ledger::get().live_count() == 0 && verif::Ledger::get().constructed == verif::Ledger::get().destroyed, "C16/ring-live-elements",
                  "at the end: constructed " << verif::Ledger::get().constructed << " destroyed " << verif::Ledger::get().destroyed);
    PBT_CHECK(verif::AllocLedger::get().live_count() == 0, "C16/ring-live-blocks", "at the end: " << verif::AllocLedger::get().live_count() << " blocks not freed");
}

} // namespace

PBT_PROPERTY(ring) {
    unsigned et = (unsigned)src.range(0, 3);
    if (et != 1) {
        pbt::label("elem=Tracked");
        PBT_LOG("RingBuffer<Tracked, CountingAllocator>\n");
        ring_history<Tracked, RingAlloc<Tracked>>(src);
    } else {
        pbt::label("elem=int");
        PBT_LOG("RingBuffer<int, CountingAllocator>\n");
        ring_history<int, RingAlloc<int>>(src);
    }
}
