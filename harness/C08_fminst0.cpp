// C08 api_forms instantiation, bundles 0 and 1 (see C08_forms.hpp)
#include "C08_forms.hpp"
namespace c08 {
namespace fm {
// bundle 0: int | own blocks, T* | pair* (tlx::simple_vector, temporaries) | It* (tlx::simple_vector) | unsigned int, rank
// passed as a temporary | function pointer bool(*)(int,int), rvalue -- or (mode less, odd salt) NO comparator argument
void run_form0(const std::vector<std::vector<int>>& keys, int mode, uint64_t salt, Stats& st, FormStats& fs) {
    if (mode == 0 && (salt & 1)) {
        fs.default_comp = true;
        check_forms<int, OwnStore<int, true>, SeqsSimpleVec, OffsSimpleVec<int*>, unsigned int, IntFnPtr, 2, true, true>(keys, mode, nullptr, salt, st);
        return;
    }
    IntFnPtr fp = mode == 0 ? &fp_less : mode == 1 ? &fp_greater : &fp_proj;
    check_forms<int, OwnStore<int, true>, SeqsSimpleVec, OffsSimpleVec<int*>, unsigned int, IntFnPtr, 2, true>(keys, mode, fp, salt, st);
}
// bundle 1: Rec | consecutive runs of one buffer, T* | const pair* (lvalues) | middle of a larger re-used vector |
// unsigned long long | capturing lambda, rvalue
void run_form1(const std::vector<std::vector<int>>& keys, int mode, uint64_t salt, Stats& st, FormStats&) {
    const long bias = (long)(salt % 1000); // captured state: the closure is not an empty object
    auto lam = [mode, bias](const Rec& a, const Rec& b) {
        const long x = a.key + bias, y = b.key + bias;
        return mode == 0 ? x < y : mode == 1 ? x > y : (x - bias) / 4 < (y - bias) / 4;
    };
    check_forms<Rec, ConcatStore<Rec, true>, SeqsConstPtr, OffsMid<Rec*>, unsigned long long, decltype(lam), 2, false>(keys, mode, lam, salt, st);
}
} // namespace fm
} // namespace c08
