// C05 — plain int, std::vector iterators, less/greater (and the defaulted std::less<int> comparator argument), unstable entry points
#include "C05_merge.hpp"

namespace c05 {
void run_int_u(pbt::Source& src, const Cfg& cfg) { run_case<int, false, false>(src, cfg, DirCmp<int>(cfg.desc)); }
} // namespace c05
