// C16 (part 6) — API COMPLETENESS of tlx::SimpleVector (targets simplevec_api, simplevec_modes); see the header comment
// of C16_api.cpp for the list of entry points / observers covered and the oracles.
#include "../engine/pbt.hpp"
#include "../engine/tracked.hpp"

#include <algorithm>
#include <cstdint>
#include <iterator>
#include <memory>
#include <new>
#include <string>
#include <type_traits>
#include <utility>
#include <vector>

#include <tlx/container/simple_vector.hpp>

namespace {

using verif::Tracked;

//! move-only element: owns a Tracked, cannot be copied
struct MoveOnly {
    Tracked t;
    MoveOnly() {}
    MoveOnly(int v) : t(v) {} // NOLINT implicit
    MoveOnly(MoveOnly&&) = default;
    MoveOnly& operator=(MoveOnly&&) = default;
    MoveOnly(const MoveOnly&) = delete;
    MoveOnly& operator=(const MoveOnly&) = delete;
};

std::string show(const std::vector<int>& d) {
    std::ostringstream os;
    os << "[";
    for (size_t i = 0; i < d.size(); ++i) os << (i ? "," : "") << d[i];
    os << "]";
    return os.str();
}

// ------------------------------------------------------------------------------------------------ SimpleVector API

//! element that is itself a SimpleVector (of one Tracked): move-only because SimpleVector is
struct Nest {
    tlx::SimpleVector<Tracked> inner;
    Nest() {}
    Nest(int v) : inner(1) { inner[0] = Tracked(v); } // NOLINT implicit
};

template <class T>
struct El;
template <>
struct El<Tracked> {
    static constexpr bool copyable = true;
    static int get(const Tracked& x) { return x.value(); }
    static int expect(int v) { return v < 0 ? 0 : v; } // model -1 = default constructed
    static size_t live(int) { return 1; }
};
template <>
struct El<MoveOnly> {
    static constexpr bool copyable = false;
    static int get(const MoveOnly& x) { return x.t.value(); }
    static int expect(int v) { return v < 0 ? 0 : v; }
    static size_t live(int) { return 1; }
};
template <>
struct El<Nest> {
    static constexpr bool copyable = false;
    static int get(const Nest& x) { return x.inner.size() == 0 ? -1 : x.inner.size() == 1 ? x.inner[0].value() : -2; }
    static int expect(int v) { return v < 0 ? -1 : v; }
    static size_t live(int v) { return v < 0 ? 0 : 1; }
};
template <class T>
T make_el(int v) {
    if (v < 0) return T();
    return T(v);
}

template <class SV, class T>
void sv_api_history(pbt::Source& src) {
    typedef El<T> E;
    constexpr size_t NS = 2;
    verif::Ledger::get().reset();
    size_t n0 = (size_t)src.range(0, 9);

    PBT_CHECK((std::is_same<SV, tlx::SimpleVector<T, tlx::SimpleVectorMode::Normal>>::value && std::is_same<tlx::simple_vector<T>, tlx::SimpleVector<T>>::value), "C16/vec-traits",
              "simple_vector<T> / the default Mode argument is not SimpleVector<T, Normal>");
    PBT_CHECK((std::is_same<typename SV::value_type, T>::value && std::is_same<typename SV::size_type, size_t>::value && std::is_same<typename SV::iterator, T*>::value &&
               std::is_same<typename SV::const_iterator, const T*>::value && std::is_same<typename SV::reference, T&>::value && std::is_same<typename SV::const_reference, const T&>::value),
              "C16/vec-traits", "member typedefs of SimpleVector differ from the declaration");
    PBT_CHECK(!std::is_copy_constructible<SV>::value && !std::is_copy_assignable<SV>::value, "C16/vec-traits", "SimpleVector is documented non-copyable");
    PBT_CHECK((std::is_nothrow_move_constructible<SV>::value && std::is_nothrow_move_assignable<SV>::value && !std::is_convertible<size_t, SV>::value), "C16/vec-traits",
              "SimpleVector's move operations are declared noexcept and the size constructor explicit");

    unsigned pieces = 0;
    {
        std::unique_ptr<SV> sv[NS];
        std::vector<int> m[NS]; // -1 = default constructed
        auto live_of = [&](const std::vector<int>& x) {
            size_t n = 0;
            for (int v : x) n += E::live(v);
            return n;
        };
        //! every observer of one vector against its model
        auto check_one = [&](SV& r, const std::vector<int>& x, const char* after, const char* name) {
            const SV& cr = r;
            const size_t n = x.size();
            PBT_CHECK(cr.size() == n, "C16/vec-size", "after " << after << ": " << name << ".size() = " << cr.size() << " but model " << show(x));
            // all iterator / pointer accessors agree
            PBT_CHECK(cr.begin() == cr.data() && cr.cbegin() == cr.data() && r.begin() == cr.data() && r.data() == cr.data(), "C16/vec-iterators",
                      "after " << after << ": begin() / cbegin() / data() const and non-const of " << name << " are not the same pointer");
            PBT_CHECK(cr.end() == cr.data() + n && cr.cend() == cr.data() + n && r.end() == cr.data() + n, "C16/vec-iterators",
                      "after " << after << ": end() / cend() const and non-const of " << name << " are not data() + size()");
            PBT_CHECK((size_t)std::distance(cr.cbegin(), cr.cend()) == n && (size_t)std::distance(r.begin(), r.end()) == n, "C16/vec-iterators", "after " << after << ": distance(begin, end) != size of " << name);
            size_t i = 0;
            for (const T& e : cr) { // const range-for
                PBT_CHECK(i < n && E::get(e) == E::expect(x[i]), "C16/vec-iterate", "after " << after << ": const iteration over " << name << " yields " << E::get(e) << " at position " << i << ", model " << show(x) << " (-1 = default constructed)");
                ++i;
            }
            PBT_CHECK(i == n, "C16/vec-iterate", "after " << after << ": const iteration over " << name << " visited " << i << " elements, model " << show(x));
            i = 0;
            for (T& e : r) { // non-const range-for
                PBT_CHECK(i < n && E::get(e) == E::expect(x[i]) && &e == cr.data() + i, "C16/vec-iterate", "after " << after << ": iteration over " << name << " yields " << E::get(e) << " at position " << i << ", model " << show(x));
                ++i;
            }
            PBT_CHECK(i == n, "C16/vec-iterate", "after " << after << ": iteration over " << name << " visited " << i << " elements, model " << show(x));
            auto rit = std::make_reverse_iterator(cr.cend());
            for (i = n; i-- > 0; ++rit) PBT_CHECK(E::get(*rit) == E::expect(x[i]), "C16/vec-iterate", "after " << after << ": reverse iteration over " << name << " yields " << E::get(*rit) << " for position " << i << ", model " << show(x));
            PBT_CHECK(rit == std::make_reverse_iterator(cr.cbegin()), "C16/vec-iterate", "after " << after << ": reverse iteration over " << name << " does not end at cbegin()");
            // front / back / [] / at, const and non-const, name the objects at data() + i
            for (i = 0; i < n; ++i)
                PBT_CHECK(&cr[i] == cr.data() + i && &r[i] == cr.data() + i && &cr.at(i) == cr.data() + i && &r.at(i) == cr.data() + i, "C16/vec-accessor-identity",
                          "after " << after << ": operator[] / at(" << i << ") const or non-const of " << name << " is not the element at data() + " << i);
            if (n)
                PBT_CHECK(&cr.front() == cr.data() && &r.front() == cr.data() && &cr.back() == cr.data() + (n - 1) && &r.back() == cr.data() + (n - 1), "C16/vec-accessor-identity",
                          "after " << after << ": front() / back() const or non-const of " << name << " is not the first / last element");
        };
        auto check = [&](const char* after) {
            size_t live = 0;
            for (size_t s = 0; s < NS; ++s) {
                check_one(*sv[s], m[s], after, s == 0 ? "v0" : "v1");
                live += live_of(m[s]);
            }
            PBT_CHECK(verif::Ledger::get().live_count() == live, "C16/vec-live-elements", "after " << after << ": " << verif::Ledger::get().live_count() << " Tracked objects alive but the stored elements own " << live);
        };

        PBT_LOG("v0 = SimpleVector(" << n0 << "), v1 = SimpleVector()\n");
        sv[0].reset(new SV(n0));
        m[0].assign(n0, -1);
        sv[1].reset(new SV());
        check("construction");
        unsigned nops = 0;
        while (src.more() && nops < 80) {
            ++nops;
            size_t s = src.weighted({3, 1});
            std::vector<int>& x = m[s];
            SV& r = *sv[s];
            //                                    rsz wr all mva mvc swp vec ctor des fill
            unsigned op = (unsigned)src.weighted({8, 8, 4, 4, 2, 4, 2, 2, 1, 2});
            switch (op) {
            case 0: {
                size_t n = (size_t)src.range(0, 12);
                PBT_LOG("v" << s << ".resize(" << n << ") [from " << x.size() << "]\n");
                r.resize(n);
                x.resize(n, -1);
                break;
            }
            case 1: { // one element written through each accessor that yields a mutable element
                if (x.empty()) continue;
                int v = (int)src.range(0, 99);
                unsigned how = (unsigned)src.range(0, 8);
                size_t i = how == 0 ? 0 : how == 1 ? x.size() - 1 : src.index(x.size());
                static const char* const HN[] = {"front()", "back()", "[i]", "at(i)", "*(begin()+i)", "*(end()-(n-i))", "data()[i]", "reverse iterator", "std::next(begin(), i)"};
                PBT_LOG("v" << s << " element " << i << " = " << v << " via " << HN[how] << "\n");
                pbt::label(HN[how]);
                switch (how) {
                case 0: r.front() = make_el<T>(v); break;
                case 1: r.back() = make_el<T>(v); break;
                case 2: r[i] = make_el<T>(v); break;
                case 3: r.at(i) = make_el<T>(v); break;
                case 4: *(r.begin() + i) = make_el<T>(v); break;
                case 5: *(r.end() - (x.size() - i)) = make_el<T>(v); break;
                case 6: r.data()[i] = make_el<T>(v); break;
                case 7: *(std::make_reverse_iterator(r.end()) + (x.size() - 1 - i)) = make_el<T>(v); break;
                default: *std::next(r.begin(), (std::ptrdiff_t)i) = make_el<T>(v); break;
                }
                x[i] = v;
                break;
            }
            case 2: { // all elements rewritten through the non-const iterators
                int base = (int)src.range(0, 80);
                unsigned how = (unsigned)src.range(0, 2);
                PBT_LOG("v" << s << ": all elements = " << base << " + i via " << (how == 0 ? "range-for" : how == 1 ? "std::generate(begin(), end())" : "iterator loop from end() down") << "\n");
                int k = 0;
                if (how == 0) {
                    for (T& e : r) e = make_el<T>(base + k++);
                } else if (how == 1) {
                    std::generate(r.begin(), r.end(), [&] { return make_el<T>(base + k++); });
                } else {
                    k = (int)x.size();
                    for (typename SV::iterator it = r.end(); it != r.begin();) *--it = make_el<T>(base + --k);
                }
                for (size_t i = 0; i < x.size(); ++i) x[i] = base + (int)i;
                pieces |= 1;
                pbt::label("rewrite_through_iterators");
                break;
            }
            case 3: { // move-assignment returns *this (also for self-assignment)
                size_t t = src.boolean() ? s : 1 - s;
                PBT_LOG("v" << t << " = std::move(v" << s << ")" << (t == s ? " [self]" : "") << "\n");
                SV& lhs = *sv[t];
                SV* ret = &(lhs = std::move(r));
                PBT_CHECK(ret == &lhs, "C16/vec-assign-result", "v" << t << " = std::move(v" << s << ") did not return a reference to the left operand");
                if (t != s) {
                    m[t] = x;
                    x.clear();
                }
                pieces |= 2;
                pbt::label(t == s ? "move_assign_self_result" : "move_assign_result");
                break;
            }
            case 4: {
                size_t t = 1 - s;
                PBT_LOG("v" << t << " = SimpleVector(std::move(v" << s << "))\n");
                std::unique_ptr<SV> n(new SV(std::move(r)));
                sv[t] = std::move(n);
                m[t] = x;
                x.clear();
                break;
            }
            case 5: { // swap: with the other vector, with itself, with a temporary
                unsigned how = (unsigned)src.range(0, 3);
                if (how <= 1) {
                    size_t t = how == 0 ? 1 - s : s;
                    PBT_LOG("v" << s << ".swap(v" << t << ")\n");
                    r.swap(*sv[t]);
                    if (t != s) std::swap(m[t], x);
                    pbt::label(t == s ? "swap_self" : "swap");
                } else {
                    size_t n = how == 2 ? 0 : (size_t)src.range(0, 6);
                    int base = (int)src.range(0, 80);
                    PBT_LOG("SimpleVector tmp(" << n << ") filled with " << base << "+i; v" << s << ".swap(tmp); tmp destroyed\n");
                    {
                        SV tmp(n);
                        std::vector<int> tm(n);
                        for (size_t i = 0; i < n; ++i) tmp[i] = make_el<T>(base + (int)i), tm[i] = base + (int)i;
                        r.swap(tmp);
                        std::swap(tm, x);
                        check_one(tmp, tm, "swap with a temporary", "tmp"); // the temporary holds v's former elements
                        PBT_CHECK(verif::Ledger::get().live_count() == live_of(m[0]) + live_of(m[1]) + live_of(tm), "C16/vec-live-elements", "after swap with a temporary: " << verif::Ledger::get().live_count() << " Tracked objects alive");
                    }
                    pieces |= 4;
                    pbt::label(n ? "swap_with_temporary" : "swap_with_empty_temporary");
                }
                break;
            }
            case 6: { // the vector as an element of std::vector: relocation uses the noexcept move constructor
                size_t extra = (size_t)src.range(1, 4);
                PBT_LOG("std::vector<SimpleVector>: push_back(std::move(v" << s << ")), " << extra << " x emplace_back(n) [relocation], v" << s << " = std::move(vector[0])\n");
                {
                    std::vector<SV> vec;
                    vec.push_back(std::move(r));
                    for (size_t i = 0; i < extra; ++i) vec.emplace_back(i);
                    check_one(vec[0], x, "relocation inside std::vector", "vector[0]");
                    for (size_t i = 0; i < extra; ++i) check_one(vec[1 + i], std::vector<int>(i, -1), "std::vector::emplace_back(n)", "vector[1+i]");
                    r = std::move(vec[0]);
                }
                pieces |= 8;
                pbt::label("std_vector_relocation");
                break;
            }
            case 7: { // SimpleVector(const size_type&): the argument is an lvalue (changed afterwards) or the other vector's size()
                size_t t = 1 - s;
                bool from_size = src.boolean();
                size_t n = from_size ? x.size() : (size_t)src.range(0, 9);
                PBT_LOG("v" << t << " = SimpleVector(" << (from_size ? "v" + std::to_string(s) + ".size()" : "lvalue " + std::to_string(n)) << ")\n");
                {
                    size_t arg = n;
                    std::unique_ptr<SV> fresh(from_size ? new SV(static_cast<const SV&>(r).size()) : new SV(arg));
                    arg = 12345;
                    sv[t] = std::move(fresh);
                }
                m[t].assign(n, -1);
                pbt::label("ctor_size_lvalue");
                break;
            }
            case 8: {
                PBT_LOG("v" << s << ".destroy()\n");
                r.destroy();
                x.clear();
                break;
            }
            default: {
                if (!E::copyable) continue;
                if constexpr (E::copyable) {
                    bool dflt = src.boolean();
                    int v = dflt ? -1 : (int)src.range(0, 99);
                    PBT_LOG("v" << s << ".fill(" << (dflt ? std::string() : std::to_string(v)) << ")\n");
                    if (dflt) r.fill();
                    else {
                        const T tmp(v);
                        r.fill(tmp);
                    }
                    for (size_t i = 0; i < x.size(); ++i) x[i] = v;
                    pbt::label("fill");
                }
                break;
            }
            }
            check("op");
        }
        unsigned np = 0;
        for (unsigned p = pieces; p; p &= p - 1) ++np;
        if (np >= 2) pbt::nontrivial();
        size_t first = src.index(NS);
        for (size_t i = 0; i < NS; ++i) {
            size_t s = (first + i) % NS;
            sv[s].reset(new SV());
            m[s].clear();
            check("destruction");
        }
    }
    PBT_CHECK(verif::Ledger::get().live_count() == 0 && verif::Ledger::get().constructed == verif::Ledger::get().destroyed, "C16/vec-live-elements",
              "at the end: constructed " << verif::Ledger::get().constructed << " destroyed " << verif::Ledger::get().destroyed);
}

// ------------------------------------------------------------------------------------------------ no-init modes

//! SimpleVector<Tracked, NoInitButDestroy | NoInitNoDestroy>: the USER constructs every element with placement new
//! (and, in NoInitNoDestroy, destroys it); the vector must not construct any, and destroys them exactly in
//! NoInitButDestroy.  Between operations every slot of every vector holds a constructed element.
template <tlx::SimpleVectorMode Mode>
void sv_modes_history(pbt::Source& src) {
    typedef tlx::SimpleVector<Tracked, Mode> SV;
    constexpr bool vec_destroys = Mode == tlx::SimpleVectorMode::NoInitButDestroy;
    constexpr size_t NS = 2;
    verif::Ledger::get().reset();
    size_t n0 = (size_t)src.range(0, 9);
    bool had_elements = false, released_elements = false;
    {
        std::unique_ptr<SV> sv[NS];
        std::vector<int> m[NS];
        auto total = [&]() { return m[0].size() + m[1].size(); };
        auto live = [&]() { return verif::Ledger::get().live_count(); };
        //! user side: construct the raw slots [from, to) of v with values base + i
        auto construct = [&](SV& v, size_t from, size_t to, int base, std::vector<int>& x) {
            for (size_t i = from; i < to; ++i) {
                ::new (static_cast<void*>(v.data() + i)) Tracked(base + (int)i);
                x[i] = base + (int)i;
            }
            if (to > from) had_elements = true;
        };
        //! user side (NoInitNoDestroy only): destroy all elements before the vector lets go of the storage
        auto user_destroy = [&](SV& v) {
            if (vec_destroys) return;
            for (size_t i = 0; i < v.size(); ++i) (v.data() + i)->~Tracked();
        };
        auto check = [&](const char* after) {
            for (size_t s = 0; s < NS; ++s) {
                const SV& cr = *sv[s];
                const std::vector<int>& x = m[s];
                PBT_CHECK(cr.size() == x.size() && (size_t)(cr.end() - cr.begin()) == x.size(), "C16/vec-size", "after " << after << ": v" << s << ".size() = " << cr.size() << " but model " << show(x));
                size_t i = 0;
                for (const Tracked& e : cr) {
                    PBT_CHECK(e.value() == x[i] && cr[i].value() == x[i], "C16/vec-index", "after " << after << ": v" << s << "[" << i << "] = " << e.value() << " but model " << show(x));
                    ++i;
                }
            }
            PBT_CHECK(live() == total(), "C16/vec-mode-lifetime", "after " << after << ": " << live() << " element objects alive but " << total() << " constructed by the user and not yet released");
        };
        //! new vector of n raw slots in slot s (the old one is released first), then the user constructs all elements
        auto create = [&](size_t s, size_t n, int base, bool dflt) {
            if (sv[s]) {
                if (!m[s].empty()) released_elements = true;
                user_destroy(*sv[s]);
                sv[s].reset();
                m[s].clear();
            }
            size_t before = live();
            if (dflt) sv[s].reset(new SV()), n = 0;
            else sv[s].reset(new SV(n));
            PBT_CHECK(live() == before, "C16/vec-mode-constructs", "SimpleVector(" << n << ") in a no-init mode constructed " << live() - before << " elements");
            m[s].assign(n, 0);
            construct(*sv[s], 0, n, base, m[s]);
        };

        PBT_LOG("v0 = SimpleVector(" << n0 << ") + user constructs; v1 = SimpleVector()\n");
        create(0, n0, 10, false);
        create(1, 0, 0, true);
        check("construction");
        unsigned nops = 0;
        while (src.more() && nops < 60) {
            ++nops;
            size_t s = src.weighted({3, 1});
            std::vector<int>& x = m[s];
            SV& r = *sv[s];
            //                                    wr rsz des mvc mva swp fill new
            unsigned op = (unsigned)src.weighted({5, 8, 2, 2, 4, 2, 2, 2});
            switch (op) {
            case 0: {
                if (x.empty()) continue;
                size_t i = src.index(x.size());
                int v = (int)src.range(0, 99);
                PBT_LOG("v" << s << "[" << i << "] = " << v << "\n");
                r[i] = Tracked(v);
                x[i] = v;
                break;
            }
            case 1: {
                size_t n = (size_t)src.range(0, 12), old = x.size();
                int base = (int)src.range(0, 80);
                if (old > 0 && n > 0) {
                    // resize of a NON-EMPTY no-init vector to a non-zero size would have to keep min(old, n) elements; what
                    // that means for a non-trivial element type is not documented by the modes and outside the statement
                    // (tlx assigns to raw storage there: fixes/C16/new-noinit-resize-assigns-raw.txt, an observation).
                    // NOT generated.
                    continue;
                } else if (old > 0) { // to 0: nothing is kept
                    PBT_LOG("v" << s << ".resize(0) [from " << old << "]\n");
                    user_destroy(r);
                    r.resize(0);
                    x.clear();
                    released_elements = true;
                    pbt::label("noinit_resize_to_0");
                } else {
                    PBT_LOG("v" << s << ".resize(" << n << ") [from empty]; user constructs\n");
                    size_t before = live();
                    r.resize(n);
                    PBT_CHECK(live() == before, "C16/vec-mode-constructs", "resize(" << n << ") of an empty no-init vector constructed " << live() - before << " elements");
                    x.assign(n, 0);
                    construct(r, 0, n, base, x);
                    pbt::label("noinit_resize_from_empty");
                }
                break;
            }
            case 2: {
                PBT_LOG("v" << s << ".destroy()" << (vec_destroys ? "" : " [user destroyed the elements first]") << "\n");
                if (!x.empty()) released_elements = true, pbt::label("noinit_destroy_with_elements");
                user_destroy(r);
                r.destroy();
                x.clear();
                break;
            }
            case 3: { // move-construct: the elements change owner, none is constructed or destroyed
                size_t t = 1 - s;
                PBT_LOG("v" << t << " = SimpleVector(std::move(v" << s << "))\n");
                if (!m[t].empty()) released_elements = true;
                user_destroy(*sv[t]);
                sv[t].reset();
                m[t].clear();
                size_t before = live();
                sv[t].reset(new SV(std::move(r)));
                PBT_CHECK(live() == before, "C16/vec-mode-lifetime", "move construction changed the number of live elements from " << before << " to " << live());
                m[t] = x;
                x.clear();
                break;
            }
            case 4: { // move-assign: the target's elements are released (by the vector / by the user), the source's change owner
                size_t t = src.boolean() ? s : 1 - s;
                PBT_LOG("v" << t << " = std::move(v" << s << ")" << (t == s ? " [self]" : "") << "\n");
                if (t != s) {
                    if (!m[t].empty()) released_elements = true, pbt::label("noinit_move_assign_over_elements");
                    user_destroy(*sv[t]);
                }
                SV& lhs = *sv[t];
                lhs = std::move(r);
                if (t != s) {
                    m[t] = x;
                    x.clear();
                }
                break;
            }
            case 5: {
                size_t t = src.boolean() ? s : 1 - s;
                PBT_LOG("v" << s << ".swap(v" << t << ")\n");
                r.swap(*sv[t]);
                if (t != s) std::swap(m[t], x);
                break;
            }
            case 6: { // fill assigns to the (constructed) elements
                bool dflt = src.boolean();
                int v = dflt ? 0 : (int)src.range(0, 99);
                PBT_LOG("v" << s << ".fill(" << (dflt ? std::string() : std::to_string(v)) << ")\n");
                if (dflt) r.fill();
                else r.fill(Tracked(v));
                for (size_t i = 0; i < x.size(); ++i) x[i] = v;
                break;
            }
            default: {
                bool dflt = src.chance(64);
                size_t n = dflt ? 0 : (size_t)src.range(0, 9);
                int base = (int)src.range(0, 80);
                PBT_LOG("delete v" << s << "; v" << s << " = SimpleVector(" << (dflt ? std::string() : std::to_string(n)) << ") + user constructs\n");
                if (!x.empty()) pbt::label("noinit_dtor_with_elements");
                create(s, n, base, dflt);
                break;
            }
            }
            check("op");
        }
        if (had_elements && released_elements) pbt::nontrivial();
        size_t first = src.index(NS);
        for (size_t i = 0; i < NS; ++i) {
            size_t s = (first + i) % NS;
            create(s, 0, 0, true);
            check("destruction");
        }
    }
    PBT_CHECK(verif::Ledger::get().live_count() == 0 && verif::Ledger::get().constructed == verif::Ledger::get().destroyed, "C16/vec-mode-lifetime",
              "at the end: constructed " << verif::Ledger::get().constructed << " destroyed " << verif::Ledger::get().destroyed);
}

} // namespace

PBT_PROPERTY(simplevec_api) {
    unsigned cfg = (unsigned)src.range(0, 2);
    static const char* const L[] = {"elem=Tracked via tlx::simple_vector<T>", "elem=move-only", "elem=nested SimpleVector"};
    pbt::label(L[cfg]);
    PBT_LOG("SimpleVector, " << L[cfg] << "\n");
    switch (cfg) {
    case 0: return sv_api_history<tlx::simple_vector<Tracked>, Tracked>(src);
    case 1: return sv_api_history<tlx::SimpleVector<MoveOnly>, MoveOnly>(src);
    default: return sv_api_history<tlx::SimpleVector<Nest, tlx::SimpleVectorMode::Normal>, Nest>(src);
    }
}

PBT_PROPERTY(simplevec_modes) {
    bool nodestroy = src.boolean();
    pbt::label(nodestroy ? "mode=NoInitNoDestroy<Tracked>" : "mode=NoInitButDestroy<Tracked>");
    PBT_LOG("SimpleVector<Tracked, " << (nodestroy ? "NoInitNoDestroy" : "NoInitButDestroy") << ">\n");
    if (nodestroy) return sv_modes_history<tlx::SimpleVectorMode::NoInitNoDestroy>(src);
    return sv_modes_history<tlx::SimpleVectorMode::NoInitButDestroy>(src);
}
