// C15 — family 2 instantiations (see C15_family_impl.hpp)
#include "C15_family_impl.hpp"
void c15_zero_one_fam2(int mode, int n, uint32_t first, uint32_t last) { c15::zero_one_block<2>(mode, n, first, last); }
void c15_random_fam2(pbt::Source& src, int entry, int n, int kind) { c15::random_family<2>(src, entry, n, kind); }
