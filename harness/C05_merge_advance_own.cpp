// C05 — target merge_advance: element types that are NOT trivially copy constructible (see C05_merge_advance.hpp)
#include "C05_merge_advance.hpp"

namespace c05ma {
void run_owning(pbt::Source& src, int type, int fn, int pair, bool desc) {
    if (type == 3) run_type<RecH>(src, fn, pair, desc);
    else run_type<RecS>(src, fn, pair, desc);
}
} // namespace c05ma
