// C06 — target mergesort_iters, element type owning a std::string (destructive move) with a live-instance counter:
// std::deque range and raw-pointer range into the middle of a heap array, comparator owning state.
//   * the key is stored twice: as an int and inside a string longer than the small-string buffer; a moved-from element
//     has key -1 and an empty string (all generated keys are >= 0), an element whose two copies disagree reads as -2:
//     either shows up in the permutation oracle, nothing stricter than the statement is asserted;
//   * every constructor increments StrRec::live, the destructor decrements it (temporaries-destroyed oracle).
#include "C06_types_iters.hpp"

#include <atomic>

namespace c06 {

namespace {

class StrRec {
public:
    static std::atomic<long> live, constructed;
    static std::string str_of(int k) { return "key=" + std::to_string(k) + ";padding-beyond-the-small-string-buffer"; }
    StrRec() : key_(0), tag_(0), s_(str_of(0)) { born(); }
    StrRec(int k, int t) : key_(k), tag_(t), s_(str_of(k)) { born(); }
    StrRec(const StrRec& o) : key_(o.key_), tag_(o.tag_), s_(o.s_) { born(); }
    StrRec(StrRec&& o) noexcept : key_(o.key_), tag_(o.tag_), s_(std::move(o.s_)) {
        o.key_ = -1, o.s_.clear();
        born();
    }
    StrRec& operator=(const StrRec& o) {
        key_ = o.key_, tag_ = o.tag_, s_ = o.s_;
        return *this;
    }
    StrRec& operator=(StrRec&& o) noexcept {
        if (this != &o) {
            key_ = o.key_, tag_ = o.tag_, s_ = std::move(o.s_);
            o.key_ = -1, o.s_.clear();
        }
        return *this;
    }
    ~StrRec() { live.fetch_sub(1, std::memory_order_relaxed); }
    //! cheap integrity test (called for every comparison): the string must still be the long one built for this key
    int key() const { return key_ == -1 && s_.empty() ? -1 : s_.size() > 16 && mix(key_, s_) == chk() ? key_ : -2; }
    int tag() const { return tag_; }

private:
    void born() {
        live.fetch_add(1, std::memory_order_relaxed);
        constructed.fetch_add(1, std::memory_order_relaxed);
    }
    static unsigned mix(int k, const std::string& s) { return (unsigned)k * 2654435761u ^ (unsigned)s.size() * 97u ^ (unsigned)(unsigned char)s[4] << 8; }
    unsigned chk() const {
        // recomputed from the key alone: "key=<k>;padding..." has its first key character at index 4 and a known length
        unsigned digits = 0;
        int first = '0';
        long long a = key_ < 0 ? -(long long)key_ : key_;
        if (a == 0) digits = 1;
        for (long long t = a; t > 0; t /= 10) ++digits, first = '0' + (int)(t % 10);
        if (key_ < 0) ++digits, first = '-';
        const unsigned len = 4 + digits + (unsigned)sizeof(";padding-beyond-the-small-string-buffer") - 1;
        return (unsigned)key_ * 2654435761u ^ len * 97u ^ (unsigned)first << 8;
    }
    int key_, tag_;
    std::string s_;
};
std::atomic<long> StrRec::live(0), StrRec::constructed(0);
static_assert(sizeof(StrRec) == 40, "label computation in C06_mergesort.cpp assumes 40 bytes");

using Cmp = iters::OwnCmp<StrRec>;
Cmp make_cmp(const Params& p) { return Cmp(p.greater, [](const StrRec& x) { return x.key(); }); }

bool is_guard(const StrRec& r, int tag) { return r.key() == iters::GUARD_KEY && r.tag() == tag; }

} // namespace

Lifetime sort_deque_str(const Params& p, std::vector<Item>& items) {
    const size_t n = items.size();
    StrRec::live.store(0);
    StrRec::constructed.store(0);
    Lifetime lt;
    {
        const iters::Layout lo(p.layout, 512 / sizeof(StrRec));
        std::deque<StrRec> d;
        iters::build_deque(d, lo, items, [](int k, int t) { return StrRec(k, t); });
        const long extra = (long)(lo.lead + lo.trail);
        lt.live_before = StrRec::live.load() - extra;
        long c0 = StrRec::constructed.load();
        {
            Cmp cmp = make_cmp(p);
            run_tlx_range(p, d.begin() + (std::ptrdiff_t)lo.lead, d.begin() + (std::ptrdiff_t)(lo.lead + n), cmp);
        }
        lt.live_after = StrRec::live.load() - extra;
        lt.copies = StrRec::constructed.load() - c0;
        if (d.size() != lo.lead + n + lo.trail) pbt::fail("C06/size", "the deque changed its size");
        for (size_t j = 0; j < lo.lead; ++j)
            if (!is_guard(d[j], -2 - (int)j)) pbt::fail("C06/write-outside-range", "an element BEFORE the sorted deque range [begin, end) was modified");
        for (size_t j = 0; j < lo.trail; ++j)
            if (!is_guard(d[lo.lead + n + j], -2 - (int)j))
                pbt::fail("C06/write-outside-range", "an element BEHIND the sorted deque range [begin, end) was modified");
        for (size_t i = 0; i < n; ++i) items[i] = Item{d[lo.lead + i].key(), d[lo.lead + i].tag()};
    }
    lt.live_end = StrRec::live.load();
    return lt;
}

Lifetime sort_ptr_str(const Params& p, std::vector<Item>& items) {
    const size_t n = items.size();
    StrRec::live.store(0);
    StrRec::constructed.store(0);
    Lifetime lt;
    {
        const iters::Layout lo(p.layout, 512 / sizeof(StrRec));
        std::vector<StrRec> v;
        v.reserve(lo.lead + n + lo.trail);
        for (size_t j = 0; j < lo.lead; ++j) v.emplace_back(iters::GUARD_KEY, -2 - (int)j);
        for (const Item& it : items) v.emplace_back(it.key, it.tag);
        for (size_t j = 0; j < lo.trail; ++j) v.emplace_back(iters::GUARD_KEY, -2 - (int)j);
        const long extra = (long)(lo.lead + lo.trail);
        lt.live_before = StrRec::live.load() - extra;
        long c0 = StrRec::constructed.load();
        {
            Cmp cmp = make_cmp(p);
            StrRec* b = v.data() + lo.lead;
            run_tlx_range(p, b, b + n, cmp);
        }
        lt.live_after = StrRec::live.load() - extra;
        lt.copies = StrRec::constructed.load() - c0;
        for (size_t j = 0; j < lo.lead; ++j)
            if (!is_guard(v[j], -2 - (int)j)) pbt::fail("C06/write-outside-range", "an element BEFORE the sorted pointer range [begin, end) was modified");
        for (size_t j = 0; j < lo.trail; ++j)
            if (!is_guard(v[lo.lead + n + j], -2 - (int)j)) pbt::fail("C06/write-outside-range", "an element BEHIND the sorted pointer range [begin, end) was modified");
        for (size_t i = 0; i < n; ++i) items[i] = Item{v[lo.lead + i].key(), v[lo.lead + i].tag()};
    }
    lt.live_end = StrRec::live.load();
    return lt;
}

} // namespace c06
