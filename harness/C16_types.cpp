// C16 (part 4) — RingBuffer / SimpleVector with element TYPES whose move is destructive and with ALIASING call
// patterns (targets ring_types, simplevec_types).  Same models (std::deque / std::vector) and ledgers as C16_ring.cpp /
// C16_simplevec.cpp; what is new is the domain:
//   * element types: std::string (short = SSO incl. the empty string, long = heap), verif::Tracked (moved-from value
//     = poison), Rec = {std::string, Tracked} — for RingBuffer without default constructor;
//   * RingBuffer: push_back / push_front / emplace_* whose argument is the buffer's OWN front() / back() / [i] (as
//     const&, as rvalue — the source is rewritten afterwards —, through emplace), also when the push makes the
//     buffer full (size max-1 -> max) and after both cursors wrapped; multi-argument emplace; element assignment
//     between own elements incl. self-assignment; copy_to / move_to followed by reuse of the buffer and of the
//     extracted elements; rb = rb and rb = std::move(rb) (tlx defines both as no-ops: `if (this == &rb) return`);
//     copies / moves between two buffers, deallocate + allocate and reuse;
//   * SimpleVector (default mode): fill(v[i]) with the value living in the vector, v[i] = v[j], resize / destroy /
//     moved-from followed by reuse, move-assignment and swap with itself, std::swap of two vectors (or one with itself).
// Exact oracle after every step: size / empty / max_size / front / back / every index vs the model, live Tracked
// objects == stored elements that own one, live storage blocks == allocated buffers.
#include "../engine/pbt.hpp"
#include "../engine/tracked.hpp"

#include <cstdio>
#include <deque>
#include <memory>
#include <string>
#include <type_traits>
#include <utility>
#include <vector>

#include <tlx/container/ring_buffer.hpp>
#include <tlx/container/simple_vector.hpp>

namespace {

using verif::Tracked;

//! v -> string; -1 = default constructed; style 0 = short (0 is the empty string), 1 = long (heap), 2 = mixed
inline std::string mkstr(int v, int style) {
    if (v < 0) return std::string();
    bool lng = style == 1 || (style == 2 && (v & 1));
    if (!lng) return v == 0 ? std::string() : std::to_string(v);
    char buf[16];
    snprintf(buf, sizeof buf, "%03d", v);
    return std::string("an-element-that-does-not-fit-the-small-buffer-") + buf;
}

//! record without default constructor (RingBuffer does not need one)
struct Rec {
    std::string s;
    Tracked t;
    Rec(const std::string& s_, int v) : s(s_), t(v) {}
    friend bool operator==(const Rec& a, const Rec& b) { return a.t == b.t && a.s == b.s; }
};
//! the same with a default constructor (SimpleVector's default mode needs one)
struct RecD {
    std::string s;
    Tracked t;
    RecD() {}
    RecD(const std::string& s_, int v) : s(s_), t(v) {}
    friend bool operator==(const RecD& a, const RecD& b) { return a.t == b.t && a.s == b.s; }
};

template <class T>
struct Mk;
template <>
struct Mk<std::string> {
    static constexpr size_t tracked = 0;
    static std::string make(int v, int st) { return mkstr(v, st); }
    static std::string show(const std::string& x) { return pbt::show_bytes(x); }
};
template <>
struct Mk<Tracked> {
    static constexpr size_t tracked = 1;
    static Tracked make(int v, int) { return Tracked(v < 0 ? 0 : v); }
    static std::string show(const Tracked& x) { return std::to_string(x.value()); }
};
template <>
struct Mk<Rec> {
    static constexpr size_t tracked = 1;
    static Rec make(int v, int st) { return Rec(mkstr(v, st), v); }
    static std::string show(const Rec& x) { return "{" + pbt::show_bytes(x.s) + "," + std::to_string(x.t.value()) + "}"; }
};
template <>
struct Mk<RecD> {
    static constexpr size_t tracked = 1;
    static RecD make(int v, int st) { return v < 0 ? RecD() : RecD(mkstr(v, st), v); }
    static std::string show(const RecD& x) { return "{" + pbt::show_bytes(x.s) + "," + std::to_string(x.t.value()) + "}"; }
};

//! see C16_ring.cpp: deallocate(nullptr, n) of unallocated buffers is tolerated
template <class T>
struct RingAlloc : verif::CountingAllocator<T> {
    template <class U>
    struct rebind {
        typedef RingAlloc<U> other;
    };
    RingAlloc() noexcept {}
    template <class U>
    RingAlloc(const RingAlloc<U>&) noexcept {}
    void deallocate(T* p, std::size_t n) noexcept {
        if (p == nullptr) return;
        verif::CountingAllocator<T>::deallocate(p, n);
    }
};

template <class C>
std::string show(const C& d) {
    std::ostringstream os;
    os << "[";
    for (size_t i = 0; i < d.size(); ++i) os << (i ? "," : "") << d[i];
    os << "]";
    return os.str();
}

struct RModel {
    bool alloc = false;
    size_t max = 0;
    std::deque<int> dq;
    size_t b = 0, e = 0, mask = 0;
};

//! multi-argument emplace: the element with value v built in place from several constructor arguments
template <class RB>
void emplace_multi(RB& r, bool back, int v, int st, std::string*) {
    std::string s = mkstr(v, st);
    if (s.empty() || s.find_first_not_of(s[0]) != std::string::npos) { // not of the form (n, c): (ptr, len)
        if (back) r.emplace_back(s.c_str(), s.size());
        else r.emplace_front(s.c_str(), s.size());
    } else {
        if (back) r.emplace_back(s.size(), s[0]);
        else r.emplace_front(s.size(), s[0]);
    }
}
template <class RB>
void emplace_multi(RB& r, bool back, int v, int, Tracked*) {
    if (back) r.emplace_back(v);
    else r.emplace_front(v);
}
template <class RB>
void emplace_multi(RB& r, bool back, int v, int st, Rec*) {
    if (back) r.emplace_back(mkstr(v, st), v);
    else r.emplace_front(mkstr(v, st), v);
}

template <class T>
void ring_types_history(pbt::Source& src) {
    typedef tlx::RingBuffer<T, RingAlloc<T>> RB;
    typedef Mk<T> M;
    constexpr size_t NS = 2;
    verif::Ledger::get().reset();
    verif::AllocLedger::get().reset();
    size_t max0 = (size_t)src.range(1, 9);
    const int st = (int)src.range(0, 2);
    static const char* const SL[] = {"strings=short(incl. empty)", "strings=long", "strings=mixed"};
    pbt::label(SL[st]);
    auto mk = [&](int v) { return M::make(v, st); };
    {
        std::unique_ptr<RB> rb[NS];
        RModel m[NS];
        bool bwrap = false, ewrap = false, aliased = false, aliased_wrapped = false;

        auto check = [&](const char* after) {
            size_t stored = 0, blocks = 0;
            for (size_t s = 0; s < NS; ++s) {
                if (!m[s].alloc) continue;
                ++blocks;
                const std::deque<int>& d = m[s].dq;
                RB& r = *rb[s];
                const RB& cr = r;
                stored += d.size();
                PBT_CHECK(cr.size() == d.size(), "C16/ring-size", "after " << after << ": b" << s << ".size() = " << cr.size() << " but deque model " << show(d));
                PBT_CHECK(cr.empty() == d.empty(), "C16/ring-empty", "after " << after << ": b" << s << ".empty() = " << cr.empty() << ", model " << show(d));
                PBT_CHECK(cr.max_size() == m[s].max, "C16/ring-max_size", "after " << after << ": b" << s << ".max_size() = " << cr.max_size() << " expected " << m[s].max);
                if (d.empty()) continue;
                PBT_CHECK(cr.front() == mk(d.front()) && r.front() == mk(d.front()), "C16/ring-front", "after " << after << ": b" << s << ".front() = " << M::show(cr.front()) << " but model " << show(d));
                PBT_CHECK(cr.back() == mk(d.back()) && r.back() == mk(d.back()), "C16/ring-back", "after " << after << ": b" << s << ".back() = " << M::show(cr.back()) << " but model " << show(d));
                for (size_t i = 0; i < d.size(); ++i)
                    PBT_CHECK(cr[i] == mk(d[i]) && r[i] == mk(d[i]), "C16/ring-index", "after " << after << ": b" << s << "[" << i << "] = " << M::show(cr[i]) << " but model " << show(d));
            }
            PBT_CHECK(verif::Ledger::get().live_count() == stored * M::tracked, "C16/ring-live-elements",
                      "after " << after << ": " << verif::Ledger::get().live_count() << " Tracked objects alive but " << stored << " elements stored");
            PBT_CHECK(verif::AllocLedger::get().live_count() == blocks, "C16/ring-live-blocks",
                      "after " << after << ": " << verif::AllocLedger::get().live_count() << " storage blocks alive but " << blocks << " allocated buffers");
        };
        auto pushed_back = [&](RModel& x) {
            x.e = (x.e + 1) & x.mask;
            if (x.e == 0 && x.mask) ewrap = true;
        };
        auto pushed_front = [&](RModel& x) {
            if (x.b == 0 && x.mask) bwrap = true;
            x.b = (x.b - 1) & x.mask;
        };
        auto popped_front = [&](RModel& x) {
            x.b = (x.b + 1) & x.mask;
            if (x.b == 0) bwrap = true;
        };
        auto popped_back = [&](RModel& x) {
            if (x.e == 0) ewrap = true;
            x.e = (x.e - 1) & x.mask;
        };
        auto create = [&](size_t s, size_t max) {
            PBT_LOG("b" << s << " = RingBuffer(" << max << ")\n");
            rb[s].reset();
            rb[s].reset(new RB(max));
            m[s] = RModel();
            m[s].alloc = true, m[s].max = max, m[s].mask = rb[s]->capacity() - 1;
        };
        //! make room for one push at the given end by popping the other end (window slides, cursors wrap)
        auto make_room = [&](size_t s, bool push_at_back) {
            RModel& x = m[s];
            if (x.dq.size() < x.max) return;
            if (push_at_back) {
                PBT_LOG("b" << s << ".pop_front() [make room]\n");
                rb[s]->pop_front(), x.dq.pop_front(), popped_front(x);
            } else {
                PBT_LOG("b" << s << ".pop_back() [make room]\n");
                rb[s]->pop_back(), x.dq.pop_back(), popped_back(x);
            }
        };

        create(0, max0);
        rb[1].reset(new RB());
        check("construction");
        unsigned nops = 0;
        while (src.more() && nops < 120) {
            ++nops;
            size_t s = src.weighted({6, 1});
            RModel& x = m[s];
            RB& r = *rb[s];
            if (!x.alloc) { // unallocated (default constructed, moved-from, deallocated): give it storage again
                size_t n = (size_t)src.range(1, 9);
                PBT_LOG("b" << s << ".allocate(" << n << ")\n");
                r.allocate(n);
                x = RModel();
                x.alloc = true, x.max = n, x.mask = r.capacity() - 1;
                pbt::label("allocate");
                check("allocate");
                continue;
            }
            //                                    pb pf  po po  ALIAS asg clr cpy mvt self two dea multi
            unsigned op = (unsigned)src.weighted({6, 6, 3, 3, 12, 3, 1, 2, 2, 2, 3, 1, 3});
            switch (op) {
            case 0:
            case 1: {
                bool back = op == 0;
                make_room(s, back);
                int v = (int)src.range(0, 99);
                unsigned how = (unsigned)src.range(0, 4);
                PBT_LOG("b" << s << (back ? ".push_back" : ".push_front")
                            << (how == 0 ? "(const& " : how == 1 ? "(&& " : how == 2 ? " via emplace(&& " : how == 3 ? " via emplace(non-const lvalue " : "(non-const lvalue ") << v << ")\n");
                if (how == 0) {
                    const T tmp(mk(v));
                    back ? r.push_back(tmp) : r.push_front(tmp);
                } else if (how == 1) {
                    T tmp(mk(v));
                    back ? r.push_back(std::move(tmp)) : r.push_front(std::move(tmp));
                } else if (how == 2) {
                    T tmp(mk(v));
                    back ? r.emplace_back(std::move(tmp)) : r.emplace_front(std::move(tmp));
                } else {
                    // a NON-CONST LVALUE argument is copied: the caller's object keeps its value
                    T tmp(mk(v));
                    if (how == 3) back ? r.emplace_back(tmp) : r.emplace_front(tmp);
                    else back ? r.push_back(tmp) : r.push_front(tmp);
                    PBT_CHECK(tmp == mk(v), "C16/ring-lvalue-argument-changed", "the caller's lvalue argument " << v << " of a push/emplace was modified: now " << M::show(tmp));
                    pbt::label("push_nonconst_lvalue");
                }
                if (back) x.dq.push_back(v), pushed_back(x);
                else x.dq.push_front(v), pushed_front(x);
                pbt::label("push_fresh");
                break;
            }
            case 2: {
                if (x.dq.empty()) continue;
                PBT_LOG("b" << s << ".pop_front()\n");
                r.pop_front(), x.dq.pop_front(), popped_front(x);
                pbt::label("pop_front");
                break;
            }
            case 3: {
                if (x.dq.empty()) continue;
                PBT_LOG("b" << s << ".pop_back()\n");
                r.pop_back(), x.dq.pop_back(), popped_back(x);
                pbt::label("pop_back");
                break;
            }
            case 4: { // the argument of the push is an element of this buffer
                bool back = src.boolean();
                if (x.max < 2 && x.dq.size() == x.max) continue; // making room would empty the buffer
                if (x.dq.empty()) continue;
                make_room(s, back);
                unsigned from = (unsigned)src.range(0, 2); // front(), back(), [i]
                size_t i = from == 0 ? 0 : from == 1 ? x.dq.size() - 1 : src.index(x.dq.size());
                unsigned how = (unsigned)src.range(0, 5); // const&, emplace(const&), &&, emplace(&&), non-const lvalue, emplace(non-const lvalue)
                int v = x.dq[i];
                bool fills = x.dq.size() + 1 == x.max;
                PBT_LOG("b" << s << (back ? (how & 1 ? ".emplace_back(" : ".push_back(") : (how & 1 ? ".emplace_front(" : ".push_front(")) << (how == 2 || how == 3 ? "std::move(" : how >= 4 ? "non-const lvalue " : "")
                            << (from == 0 ? "front()" : from == 1 ? "back()" : "[" + std::to_string(i) + "]") << (how == 2 || how == 3 ? ")" : "") << ") [own element " << v << (fills ? ", fills the buffer" : "") << "]\n");
                T& srcel = from == 0 ? r.front() : from == 1 ? r.back() : r[i];
                switch (how) {
                case 0: back ? r.push_back(static_cast<const T&>(srcel)) : r.push_front(static_cast<const T&>(srcel)); break;
                case 1: back ? r.emplace_back(static_cast<const T&>(srcel)) : r.emplace_front(static_cast<const T&>(srcel)); break;
                case 2: back ? r.push_back(std::move(srcel)) : r.push_front(std::move(srcel)); break;
                case 3: back ? r.emplace_back(std::move(srcel)) : r.emplace_front(std::move(srcel)); break;
                case 4: back ? r.push_back(srcel) : r.push_front(srcel); break; // T&: a copy, the source element keeps its value
                default: back ? r.emplace_back(srcel) : r.emplace_front(srcel); break;
                }
                if (how >= 4) pbt::label("alias_push_nonconst_lvalue");
                if (how == 2 || how == 3) {
                    // the source element is moved-from (valid, unspecified): the caller gives it a new value
                    int nv = (int)src.range(0, 99);
                    srcel = mk(nv);
                    x.dq[i] = nv;
                    pbt::label("alias_push_move");
                } else pbt::label("alias_push_copy");
                if (back) x.dq.push_back(v), pushed_back(x);
                else x.dq.push_front(v), pushed_front(x);
                if (fills) pbt::label("alias_push_fills_buffer");
                aliased = true;
                if (bwrap && ewrap) aliased_wrapped = true, pbt::label("alias_push_after_both_wrapped");
                break;
            }
            case 5: { // element assignment between own elements (also i == j)
                if (x.dq.empty()) continue;
                size_t i = src.index(x.dq.size()), j = src.index(x.dq.size());
                bool mv = i != j && src.boolean();
                PBT_LOG("b" << s << "[" << i << "] = " << (mv ? "std::move(" : "") << "b" << s << "[" << j << "]" << (mv ? ")" : "") << (i == j ? " [self]" : "") << "\n");
                if (mv) {
                    r[i] = std::move(r[j]);
                    x.dq[i] = x.dq[j];
                    int nv = (int)src.range(0, 99);
                    r[j] = mk(nv);
                    x.dq[j] = nv;
                } else {
                    r[i] = static_cast<const RB&>(r)[j];
                    x.dq[i] = x.dq[j];
                }
                pbt::label(i == j ? "element_self_assign" : "element_assign_own");
                break;
            }
            case 6: {
                PBT_LOG("b" << s << ".clear()\n");
                r.clear();
                x.dq.clear();
                x.b = x.e;
                pbt::label("clear");
                break;
            }
            case 7: { // copy_to, then the buffer and the copies are both used
                PBT_LOG("b" << s << ".copy_to(vector), push the copies back in\n");
                std::vector<T> out; // destroyed at the end of this case block, before check("op")
                static_cast<const RB&>(r).copy_to(&out);
                PBT_CHECK(out.size() == x.dq.size(), "C16/ring-copy_to", "copy_to appended " << out.size() << " elements, model " << show(x.dq));
                for (size_t i = 0; i < x.dq.size(); ++i) PBT_CHECK(out[i] == mk(x.dq[i]), "C16/ring-copy_to", "copy_to element " << i << " = " << M::show(out[i]) << ", model " << show(x.dq));
                std::deque<int> snap = x.dq;
                for (size_t i = 0; i < snap.size() && i < 3; ++i) { // slide: pop one if full, push a copy of what copy_to delivered
                    make_room(s, true);
                    r.push_back(out[i]);
                    x.dq.push_back(snap[i]);
                    pushed_back(x);
                }
                pbt::label("copy_to_reuse");
                break;
            }
            case 8: { // move_to, then reuse of the emptied buffer and of the extracted elements
                PBT_LOG("b" << s << ".move_to(vector), then emplace some of them back\n");
                std::vector<T> out;
                std::deque<int> old = x.dq;
                r.move_to(&out);
                PBT_CHECK(out.size() == old.size(), "C16/ring-move_to", "move_to produced " << out.size() << " elements, model " << show(old));
                for (size_t i = 0; i < old.size(); ++i) PBT_CHECK(out[i] == mk(old[i]), "C16/ring-move_to", "move_to element " << i << " = " << M::show(out[i]) << ", model " << show(old));
                for (size_t i = 0; i < old.size(); ++i) popped_front(x);
                x.dq.clear();
                {
                    // the vector owns the elements now: buffer empty, ledger = vector's elements only (checked with the
                    // second buffer's elements added)
                    size_t other = 0;
                    for (size_t q = 0; q < NS; ++q)
                        if (m[q].alloc) other += m[q].dq.size();
                    PBT_CHECK(r.empty() && r.size() == 0, "C16/ring-move_to", "buffer not empty after move_to");
                    PBT_CHECK(verif::Ledger::get().live_count() == (other + out.size()) * M::tracked, "C16/ring-live-elements",
                              "after move_to: " << verif::Ledger::get().live_count() << " Tracked objects alive, expected " << (other + out.size()) * M::tracked);
                }
                size_t back_in = old.empty() ? 0 : src.index(old.size() + 1);
                for (size_t i = 0; i < back_in; ++i) {
                    if (i & 1) r.emplace_front(std::move(out[i])), x.dq.push_front(old[i]), pushed_front(x);
                    else r.emplace_back(std::move(out[i])), x.dq.push_back(old[i]), pushed_back(x);
                }
                out.clear();
                pbt::label(old.empty() ? "move_to_empty" : "move_to_reuse");
                break;
            }
            case 9: { // self-assignment: tlx returns *this untouched for both
                bool mv = src.boolean();
                PBT_LOG("b" << s << " = " << (mv ? "std::move(b" : "(b") << s << ") [self]\n");
                RB& alias = r;
                if (mv) r = std::move(alias);
                else r = static_cast<const RB&>(alias);
                pbt::label(mv ? "self_move_assign" : "self_copy_assign");
                break;
            }
            case 10: { // copies / moves between the two buffers, the source keeps being used
                size_t t = 1 - s;
                unsigned how = (unsigned)src.range(0, 3);
                static const char* const HN[] = {"copy-assign", "move-assign", "copy-construct", "move-construct"};
                PBT_LOG("b" << t << " <- b" << s << " [" << HN[how] << (m[t].alloc ? "" : ", target unallocated") << "]\n");
                switch (how) {
                case 0: *rb[t] = static_cast<const RB&>(r); break;
                case 1: *rb[t] = std::move(r); break;
                case 2: {
                    std::unique_ptr<RB> n(new RB(static_cast<const RB&>(r)));
                    rb[t] = std::move(n);
                    break;
                }
                default: {
                    std::unique_ptr<RB> n(new RB(std::move(r)));
                    rb[t] = std::move(n);
                    break;
                }
                }
                m[t] = x;
                if (how == 0 || how == 2) m[t].b = 0, m[t].e = x.dq.size() & x.mask;
                else x = RModel(); // moved-from: unallocated
                pbt::label(how & 1 ? "two_buffers_move" : "two_buffers_copy");
                break;
            }
            case 11: {
                PBT_LOG("b" << s << ".deallocate()\n");
                r.deallocate();
                x = RModel();
                pbt::label("deallocate");
                break;
            }
            default: { // multi-argument emplace
                bool back = src.boolean();
                make_room(s, back);
                int v = (int)src.range(0, 99);
                PBT_LOG("b" << s << (back ? ".emplace_back" : ".emplace_front") << "(constructor arguments of " << v << ")\n");
                emplace_multi(r, back, v, st, (T*)nullptr);
                if (back) x.dq.push_back(v), pushed_back(x);
                else x.dq.push_front(v), pushed_front(x);
                pbt::label("emplace_args");
                break;
            }
            }
            check("op");
            if (bwrap && ewrap) pbt::label("both_cursors_wrapped");
        }
        if (aliased && aliased_wrapped) pbt::nontrivial();
        size_t first = src.index(NS);
        for (size_t i = 0; i < NS; ++i) {
            size_t s = (first + i) % NS;
            rb[s].reset(new RB());
            m[s] = RModel();
            check("destruction");
        }
    }
    PBT_CHECK(verif::Ledger::get().live_count() == 0 && verif::Ledger::get().constructed == verif::Ledger::get().destroyed, "C16/ring-live-elements",
              "at the end: constructed " << verif::Ledger::get().constructed << " destroyed " << verif::Ledger::get().destroyed);
    PBT_CHECK(verif::AllocLedger::get().live_count() == 0, "C16/ring-live-blocks", "at the end: " << verif::AllocLedger::get().live_count() << " blocks not freed");
}

// ------------------------------------------------------------------------------------------------ SimpleVector

template <class T>
void sv_types_history(pbt::Source& src) {
    typedef tlx::SimpleVector<T> SV;
    typedef Mk<T> M;
    constexpr size_t NS = 2;
    verif::Ledger::get().reset();
    size_t n0 = (size_t)src.range(0, 9);
    const int st = (int)src.range(0, 2);
    static const char* const SL[] = {"strings=short(incl. empty)", "strings=long", "strings=mixed"};
    pbt::label(SL[st]);
    auto mk = [&](int v) { return M::make(v, st); };
    {
        std::unique_ptr<SV> sv[NS];
        std::vector<int> m[NS]; // -1 = default constructed
        bool grew = false, shrank = false, aliased = false;
        auto check = [&](const char* after) {
            size_t stored = 0;
            for (size_t s = 0; s < NS; ++s) {
                SV& r = *sv[s];
                const SV& cr = r;
                const std::vector<int>& x = m[s];
                stored += x.size();
                PBT_CHECK(cr.size() == x.size(), "C16/vec-size", "after " << after << ": v" << s << ".size() = " << cr.size() << " but model " << show(x));
                PBT_CHECK((size_t)(cr.end() - cr.begin()) == x.size() && cr.data() == cr.begin() && r.data() == r.begin(), "C16/vec-iterators", "after " << after << ": v" << s << " begin/end/data inconsistent with size " << x.size());
                for (size_t i = 0; i < x.size(); ++i)
                    PBT_CHECK(cr[i] == mk(x[i]) && r.at(i) == mk(x[i]), "C16/vec-index", "after " << after << ": v" << s << "[" << i << "] = " << M::show(cr[i]) << " but model " << show(x) << " (-1 = default constructed)");
                if (!x.empty()) {
                    PBT_CHECK(cr.front() == mk(x.front()), "C16/vec-front", "after " << after << ": v" << s << ".front() = " << M::show(cr.front()) << ", model " << show(x));
                    PBT_CHECK(cr.back() == mk(x.back()), "C16/vec-back", "after " << after << ": v" << s << ".back() = " << M::show(cr.back()) << ", model " << show(x));
                }
            }
            PBT_CHECK(verif::Ledger::get().live_count() == stored * M::tracked, "C16/vec-live-elements",
                      "after " << after << ": " << verif::Ledger::get().live_count() << " Tracked objects alive but " << stored << " elements stored");
        };
        sv[0].reset(new SV(n0));
        m[0].assign(n0, -1);
        sv[1].reset(new SV());
        check("construction");
        unsigned nops = 0;
        while (src.more() && nops < 100) {
            ++nops;
            size_t s = src.weighted({3, 1});
            std::vector<int>& x = m[s];
            SV& r = *sv[s];
            //                                    rsz wr  own fillown fill mvc mva swp stdswap destroy
            unsigned op = (unsigned)src.weighted({8, 8, 4, 5, 2, 2, 3, 3, 2, 1});
            switch (op) {
            case 0: {
                size_t n = (size_t)src.range(0, 12), old = x.size();
                PBT_LOG("v" << s << ".resize(" << n << ") [from " << old << "]\n");
                r.resize(n);
                if (n > old && old > 0) grew = true, pbt::label("resize_grow");
                if (n < old && n > 0) shrank = true, pbt::label("resize_shrink");
                if (old == 0) pbt::label("resize_from_empty");
                x.resize(n, -1);
                break;
            }
            case 1: {
                if (x.empty()) continue;
                size_t i = src.index(x.size());
                int v = (int)src.range(0, 99);
                bool mv = src.boolean();
                PBT_LOG("v" << s << "[" << i << "] = " << v << (mv ? " (moved in)" : "") << "\n");
                if (mv) r[i] = mk(v);
                else {
                    const T tmp(mk(v));
                    r[i] = tmp;
                }
                x[i] = v;
                pbt::label("element_write");
                break;
            }
            case 2: { // v[i] = v[j] (copy, also self) or moved (source rewritten)
                if (x.empty()) continue;
                size_t i = src.index(x.size()), j = src.index(x.size());
                bool mv = i != j && src.boolean();
                PBT_LOG("v" << s << "[" << i << "] = " << (mv ? "std::move(" : "") << "v" << s << "[" << j << "]" << (mv ? ")" : "") << (i == j ? " [self]" : "") << "\n");
                if (mv) {
                    r[i] = std::move(r[j]);
                    x[i] = x[j];
                    int nv = (int)src.range(0, 99);
                    r[j] = mk(nv);
                    x[j] = nv;
                } else {
                    r[i] = static_cast<const SV&>(r)[j];
                    x[i] = x[j];
                }
                pbt::label(i == j ? "element_self_assign" : "element_assign_own");
                break;
            }
            case 3: { // fill with a value that lives in the vector itself
                if (x.empty()) continue;
                unsigned from = (unsigned)src.range(0, 2);
                size_t i = from == 0 ? 0 : from == 1 ? x.size() - 1 : src.index(x.size());
                int v = x[i];
                PBT_LOG("v" << s << ".fill(v" << s << "[" << i << "]) [own element " << v << "]\n");
                r.fill(static_cast<const SV&>(r)[i]);
                for (size_t q = 0; q < x.size(); ++q) x[q] = v;
                aliased = true;
                pbt::label(i == 0 ? "fill_own_first" : i + 1 == x.size() ? "fill_own_last" : "fill_own_middle");
                break;
            }
            case 4: {
                bool dflt = src.boolean();
                int v = dflt ? -1 : (int)src.range(0, 99);
                PBT_LOG("v" << s << ".fill(" << (dflt ? std::string() : std::to_string(v)) << ")\n");
                if (dflt) r.fill();
                else r.fill(mk(v));
                for (size_t q = 0; q < x.size(); ++q) x[q] = v;
                pbt::label("fill");
                break;
            }
            case 5: { // move-construct into the other slot; the moved-from vector stays in use (empty)
                size_t t = 1 - s;
                PBT_LOG("v" << t << " = SimpleVector(std::move(v" << s << ")); v" << s << " stays in use\n");
                std::unique_ptr<SV> n(new SV(std::move(r)));
                sv[t] = std::move(n);
                m[t] = x;
                x.clear();
                pbt::label("move_construct");
                break;
            }
            case 6: {
                size_t t = src.boolean() ? s : 1 - s;
                PBT_LOG("v" << t << " = std::move(v" << s << ")" << (t == s ? " [self]" : "") << "\n");
                SV& target = *sv[t];
                target = std::move(r);
                if (t != s) {
                    m[t] = x;
                    x.clear();
                }
                pbt::label(t == s ? "move_assign_self" : "move_assign");
                break;
            }
            case 7: {
                size_t t = src.boolean() ? s : 1 - s;
                PBT_LOG("v" << s << ".swap(v" << t << ")" << (t == s ? " [self]" : "") << "\n");
                r.swap(*sv[t]);
                if (t != s) std::swap(m[t], x);
                pbt::label(t == s ? "swap_self" : "swap");
                break;
            }
            case 8: { // std::swap = move-construct + two move-assignments (with t == s: self-move-assignment inside)
                size_t t = src.boolean() ? s : 1 - s;
                PBT_LOG("std::swap(v" << s << ", v" << t << ")" << (t == s ? " [self]" : "") << "\n");
                std::swap(r, *sv[t]);
                if (t != s) std::swap(m[t], x);
                pbt::label(t == s ? "std_swap_self" : "std_swap");
                break;
            }
            default: {
                PBT_LOG("v" << s << ".destroy(); stays in use\n");
                r.destroy();
                x.clear();
                pbt::label("destroy");
                break;
            }
            }
            check("op");
        }
        if (grew && shrank && aliased) pbt::nontrivial();
        size_t first = src.index(NS);
        for (size_t i = 0; i < NS; ++i) {
            size_t s = (first + i) % NS;
            sv[s].reset(new SV());
            m[s].clear();
            check("destruction");
        }
    }
    PBT_CHECK(verif::Ledger::get().live_count() == 0 && verif::Ledger::get().constructed == verif::Ledger::get().destroyed, "C16/vec-live-elements",
              "at the end: constructed " << verif::Ledger::get().constructed << " destroyed " << verif::Ledger::get().destroyed);
}

} // namespace

PBT_PROPERTY(ring_types) {
    unsigned et = (unsigned)src.range(0, 2);
    static const char* const L[] = {"elem=string", "elem=Tracked", "elem=Rec(no default ctor)"};
    pbt::label(L[et]);
    PBT_LOG("RingBuffer<" << L[et] << ", CountingAllocator>\n");
    switch (et) {
    case 0: return ring_types_history<std::string>(src);
    case 1: return ring_types_history<Tracked>(src);
    default: return ring_types_history<Rec>(src);
    }
}

PBT_PROPERTY(simplevec_types) {
    unsigned et = (unsigned)src.range(0, 2);
    static const char* const L[] = {"elem=string", "elem=Tracked", "elem=RecD"};
    pbt::label(L[et]);
    PBT_LOG("SimpleVector<" << L[et] << ", Normal>\n");
    switch (et) {
    case 0: return sv_types_history<std::string>(src);
    case 1: return sv_types_history<Tracked>(src);
    default: return sv_types_history<RecD>(src);
    }
}
