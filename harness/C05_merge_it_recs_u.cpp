// C05 — target merge_iters: RecS, unstable entry points, (input iterator kind, output iterator kind) pairs 0..3, owning comparator
#include "C05_merge.hpp"

namespace c05 {
void run_it_recs_u(pbt::Source& src, const Cfg& cfg) { run_iters<RecS, false>(src, cfg); }
} // namespace c05
