// C18 — tlx::StringView answers every query exactly like std::string_view.
// Oracle: the same call on std::string_view over the same bytes.
#include "C18_common.hpp"



PBT_PROPERTY(string_view) {
    int q = (int)src.range(0, 79); // selectors first: short buffers must still reach every query
    // scale class (1 in 16): long haystacks / needles, so that size-dependent paths of the search
    // routines (unrolled loops, memchr/memcmp hand-offs, clamps against large sizes) are sampled too
    const bool longcase = src.weighted({15, 1}) == 1;
    const size_t maxh = longcase ? (src.boolean() ? 300 : 70) : 10, maxn = longcase ? 40 : 6;
    std::string hs = gen_str(src, maxh, false);
    std::string ns = gen_str(src, maxn, false);
    // run-structured long strings (half of the long cases): needles beyond 256 bytes made of a few long
    // runs, haystacks that contain the needle late, preceded by material that shares only part of it —
    // the shapes on which skip tables, narrow shift types and block-wise compares go wrong
    if (longcase && src.boolean()) {
        auto runs = [&](size_t maxruns, size_t maxrun) {
            std::string r;
            size_t k = (size_t)src.range(1, (int64_t)maxruns);
            for (size_t i = 0; i < k; ++i) r.append((size_t)src.range(1, (int64_t)maxrun), (char)ALPHA[src.range(0, sizeof(ALPHA) - 1)]);
            return r;
        };
        ns = runs(4, 320);
        std::string pre = runs(4, 400);
        if (src.boolean() && !ns.empty()) pre += ns.substr(0, (size_t)src.range(0, (int64_t)ns.size() - 1)); // a partial occurrence first
        hs = pre + (src.chance(200) ? ns : std::string()) + runs(2, 20);
        pbt::label(ns.size() > 256 ? "needle>256" : "needle_runs<=256");
    }
    if (longcase) pbt::label("long_strings");
    // the needle is often derived from the haystack so that hits are common
    switch (src.range(0, 3)) {
    case 1:
        if (!hs.empty()) {
            size_t b = src.index(hs.size()), l = (size_t)src.range(0, longcase ? 40 : 4);
            ns = hs.substr(b, l);
        }
        break;
    case 2: ns = hs; break;
    case 3:
        if (!hs.empty()) {
            ns = hs;
            size_t i = src.index(ns.size());
            ns[i] = (char)ALPHA[src.range(0, sizeof(ALPHA) - 1)];
        }
        break;
    default: break;
    }
    Buf hb(hs), nb(ns);
    Buf nz(ns, true); // NUL-terminated copy for the C-string overloads (same pointer goes to both sides)
    const SV th(hb.data(), hb.n), tn(nb.data(), nb.n);
    const STD sh(hb.data(), hb.n), sn(nb.data(), nb.n);
    size_t pos = gen_pos(src, hs.size()), n = gen_pos(src, hs.size());
    size_t pos2 = gen_pos(src, ns.size()), n2 = gen_pos(src, ns.size());
    size_t cnt = (size_t)src.range(0, (int64_t)ns.size()); // valid count for (ptr,n) overloads
    char c = ns.empty() ? (char)ALPHA[src.range(0, sizeof(ALPHA) - 1)] : ns[0];
    const std::string nstr = ns;
    bool special = pos != 0;
    for (unsigned char ch : hs + ns) special = special || ch == 0 || ch >= 0x80;
    if (special) pbt::nontrivial();

    const char* qname = "";
    Res rt, rs;
    switch (q) {
    case 0: QUERY("compare(v)", r.v = sgn(th.compare(tn)), r.v = sgn(sh.compare(sn))); break;
    case 1: QUERY("compare(pos,n,v)", r.v = sgn(th.compare(pos, n, tn)), r.v = sgn(sh.compare(pos, n, sn))); break;
    case 2:
        QUERY("compare(pos,n,v,pos2,n2)", r.v = sgn(th.compare(pos, n, tn, pos2, n2)),
              r.v = sgn(sh.compare(pos, n, sn, pos2, n2)));
        break;
    case 3: QUERY("compare(cstr)", r.v = sgn(th.compare(nz.data())), r.v = sgn(sh.compare(nz.data()))); break;
    case 4:
        QUERY("compare(pos,n,cstr)", r.v = sgn(th.compare(pos, n, nz.data())), r.v = sgn(sh.compare(pos, n, nz.data())));
        break;
    case 5:
        QUERY("compare(pos,n,ptr,n2)", r.v = sgn(th.compare(pos, n, nb.data(), cnt)),
              r.v = sgn(sh.compare(pos, n, nb.data(), cnt)));
        break;
    case 6: QUERY("v==v", r.v = (th == tn), r.v = (sh == sn)); break;
    case 7: QUERY("v!=v", r.v = (th != tn), r.v = (sh != sn)); break;
    case 8: QUERY("v<v", r.v = (th < tn), r.v = (sh < sn)); break;
    case 9: QUERY("v<=v", r.v = (th <= tn), r.v = (sh <= sn)); break;
    case 10: QUERY("v>v", r.v = (th > tn), r.v = (sh > sn)); break;
    case 11: QUERY("v>=v", r.v = (th >= tn), r.v = (sh >= sn)); break;
    case 12: QUERY("v==string", r.v = (th == nstr), r.v = (sh == nstr)); break;
    case 13: QUERY("string==v", r.v = (nstr == th), r.v = (nstr == sh)); break;
    case 14: QUERY("v!=string", r.v = (th != nstr), r.v = (sh != nstr)); break;
    case 15: QUERY("string!=v", r.v = (nstr != th), r.v = (nstr != sh)); break;
    case 16: QUERY("v<string", r.v = (th < nstr), r.v = (sh < nstr)); break;
    case 17: QUERY("string<v", r.v = (nstr < th), r.v = (nstr < sh)); break;
    case 18: QUERY("v>string", r.v = (th > nstr), r.v = (sh > nstr)); break;
    case 19: QUERY("string>v", r.v = (nstr > th), r.v = (nstr > sh)); break;
    case 20: QUERY("v<=string", r.v = (th <= nstr), r.v = (sh <= nstr)); break;
    case 21: QUERY("string<=v", r.v = (nstr <= th), r.v = (nstr <= sh)); break;
    case 22: QUERY("v>=string", r.v = (th >= nstr), r.v = (sh >= nstr)); break;
    case 23: QUERY("string>=v", r.v = (nstr >= th), r.v = (nstr >= sh)); break;
    case 24: QUERY("v==cstr", r.v = (th == nz.data()), r.v = (sh == nz.data())); break;
    case 25: QUERY("cstr==v", r.v = (nz.data() == th), r.v = (nz.data() == sh)); break;
    case 26: QUERY("v!=cstr", r.v = (th != nz.data()), r.v = (sh != nz.data())); break;
    case 27: QUERY("cstr!=v", r.v = (nz.data() != th), r.v = (nz.data() != sh)); break;
    case 28: QUERY("v<cstr", r.v = (th < nz.data()), r.v = (sh < nz.data())); break;
    case 29: QUERY("cstr<v", r.v = (nz.data() < th), r.v = (nz.data() < sh)); break;
    case 30: QUERY("v>cstr", r.v = (th > nz.data()), r.v = (sh > nz.data())); break;
    case 31: QUERY("cstr>v", r.v = (nz.data() > th), r.v = (nz.data() > sh)); break;
    case 32: QUERY("v<=cstr", r.v = (th <= nz.data()), r.v = (sh <= nz.data())); break;
    case 33: QUERY("cstr<=v", r.v = (nz.data() <= th), r.v = (nz.data() <= sh)); break;
    case 34: QUERY("v>=cstr", r.v = (th >= nz.data()), r.v = (sh >= nz.data())); break;
    case 35: QUERY("cstr>=v", r.v = (nz.data() >= th), r.v = (nz.data() >= sh)); break;
#define FINDFAM(BASE, FN)                                                                                         \
    case BASE: QUERY(#FN "(v,pos)", r.v = (long long)th.FN(tn, pos), r.v = (long long)sh.FN(sn, pos)); break;     \
    case BASE + 1: QUERY(#FN "(char,pos)", r.v = (long long)th.FN(c, pos), r.v = (long long)sh.FN(c, pos)); break; \
    case BASE + 2:                                                                                                \
        QUERY(#FN "(ptr,pos,n)", r.v = (long long)th.FN(nb.data(), pos, cnt), r.v = (long long)sh.FN(nb.data(), pos, cnt)); \
        break;                                                                                                    \
    case BASE + 3:                                                                                                \
        QUERY(#FN "(cstr,pos)", r.v = (long long)th.FN(nz.data(), pos), r.v = (long long)sh.FN(nz.data(), pos));  \
        break;                                                                                                    \
    case BASE + 4: QUERY(#FN "(v)", r.v = (long long)th.FN(tn), r.v = (long long)sh.FN(sn)); break;
        FINDFAM(36, find)
        FINDFAM(41, rfind)
        FINDFAM(46, find_first_of)
        FINDFAM(51, find_last_of)
        FINDFAM(56, find_first_not_of)
        FINDFAM(61, find_last_not_of)
    case 66: QUERY("starts_with(v)", r.v = th.starts_with(tn), r.v = sh.starts_with(sn)); break;
    case 67: QUERY("starts_with(char)", r.v = th.starts_with(c), r.v = sh.starts_with(c)); break;
    case 68: QUERY("ends_with(v)", r.v = th.ends_with(tn), r.v = sh.ends_with(sn)); break;
    case 69: QUERY("ends_with(char)", r.v = th.ends_with(c), r.v = sh.ends_with(c)); break;
    case 70:
        QUERY("substr(pos,n)",
              {
                  SV x = th.substr(pos, n);
                  r.v = (long long)(x.data() - hb.data()) * 1000 + (long long)x.size();
                  r.s = x.to_string();
              },
              {
                  STD x = sh.substr(pos, n);
                  r.v = (long long)(x.data() - hb.data()) * 1000 + (long long)x.size();
                  r.s = std::string(x);
              });
        break;
    case 71: {
        // copy into an exact-size destination: min(n, size) bytes at most are legal to write
        size_t want = n > hs.size() ? hs.size() : n;
        QUERY("copy(dst,n,pos)",
              {
                  std::unique_ptr<char[]> d(new char[want + 1]);
                  memset(d.get(), '#', want + 1);
                  r.v = (long long)th.copy(d.get(), n, pos);
                  r.s.assign(d.get(), want + 1);
              },
              {
                  std::unique_ptr<char[]> d(new char[want + 1]);
                  memset(d.get(), '#', want + 1);
                  r.v = (long long)sh.copy(d.get(), n, pos);
                  r.s.assign(d.get(), want + 1);
              });
        break;
    }
    case 72: {
        size_t k = (size_t)src.range(0, (int64_t)hs.size()); // defined only for k <= size
        QUERY("remove_prefix(k)",
              {
                  SV x = th;
                  x.remove_prefix(k);
                  r.v = (long long)(x.data() - hb.data()) * 1000 + (long long)x.size();
                  r.s = x.to_string();
              },
              {
                  STD x = sh;
                  x.remove_prefix(k);
                  r.v = (long long)(x.data() - hb.data()) * 1000 + (long long)x.size();
                  r.s = std::string(x);
              });
        break;
    }
    case 73: {
        size_t k = (size_t)src.range(0, (int64_t)hs.size());
        QUERY("remove_suffix(k)",
              {
                  SV x = th;
                  x.remove_suffix(k);
                  r.v = (long long)(x.data() - hb.data()) * 1000 + (long long)x.size();
                  r.s = x.to_string();
              },
              {
                  STD x = sh;
                  x.remove_suffix(k);
                  r.v = (long long)(x.data() - hb.data()) * 1000 + (long long)x.size();
                  r.s = std::string(x);
              });
        break;
    }
    case 74: QUERY("at(pos)", r.v = (unsigned char)th.at(pos), r.v = (unsigned char)sh.at(pos)); break;
    case 75:
        if (!hs.empty()) {
            size_t i = src.index(hs.size());
            QUERY("[i]/front/back",
                  r.v = (unsigned char)th[i] * 65536 + (unsigned char)th.front() * 256 + (unsigned char)th.back(),
                  r.v = (unsigned char)sh[i] * 65536 + (unsigned char)sh.front() * 256 + (unsigned char)sh.back());
        }
        break;
    case 76:
        QUERY("to_string/std::string",
              {
                  r.s = th.to_string();
                  r.v = (std::string(th) == r.s);
              },
              {
                  r.s = std::string(sh);
                  r.v = 1;
              });
        break;
    case 77:
        QUERY("size/empty/iteration",
              {
                  r.v = (long long)th.size() * 2 + th.empty();
                  r.s.assign(th.begin(), th.end());
                  r.s.append(th.rbegin(), th.rend());
              },
              {
                  r.v = (long long)sh.size() * 2 + sh.empty();
                  r.s.assign(sh.begin(), sh.end());
                  r.s.append(sh.rbegin(), sh.rend());
              });
        break;
    case 78:
        QUERY("substr(pos)", r.s = th.substr(pos).to_string(), r.s = std::string(sh.substr(pos)));
        break;
    default:
        QUERY("copy(dst,n)", // pos defaulted
              {
                  std::unique_ptr<char[]> d(new char[hs.size() + 1]);
                  memset(d.get(), '#', hs.size() + 1);
                  r.v = (long long)th.copy(d.get(), n);
                  r.s.assign(d.get(), hs.size() + 1);
              },
              {
                  std::unique_ptr<char[]> d(new char[hs.size() + 1]);
                  memset(d.get(), '#', hs.size() + 1);
                  r.v = (long long)sh.copy(d.get(), n);
                  r.s.assign(d.get(), hs.size() + 1);
              });
        break;
    }
    pbt::label(qname);
    PBT_LOG("hay=" << pbt::show_bytes(hs) << " needle=" << pbt::show_bytes(ns) << " query=" << qname << " pos=" << (long long)pos
                   << " n=" << (long long)n << " pos2=" << (long long)pos2 << " n2=" << (long long)n2 << " cnt=" << cnt
                   << " -> tlx: " << rt << " | std: " << rs << "\n");
    PBT_CHECK(rt == rs, std::string("C18/") + qname,
              "hay=" << pbt::show_bytes(hs) << " needle=" << pbt::show_bytes(ns) << " pos=" << (long long)pos << " n=" << (long long)n
                     << " pos2=" << (long long)pos2 << " n2=" << (long long)n2 << " cnt=" << cnt << ": tlx " << rt
                     << " but std::string_view " << rs);
}
