// C17 (part 5) — SplayTree with key TYPES whose move is destructive, COMPARATOR OBJECTS that own state, keys that
// are equivalent but distinct, and ALIASING call patterns (target splay_types).
//   * keys: std::string (short incl. the empty string / long / mixed) and Rec = {Tracked cls, Tracked id,
//     std::string pad} without default constructor (a moved-from Rec has poison cls/id and an empty pad);
//   * comparators: std::less / std::greater<std::string>; StrTableLess (owns a std::vector<std::string> giving an
//     arbitrary order, no default constructor); TableLess (owns a rank table and a name, no default constructor;
//     PROJECTION on cls with several classes per rank = large equivalence classes); FnLess (owns a std::function
//     whose closure owns the table through a shared_ptr).  A comparator that lost its state (default constructed,
//     moved-from) or is asked to compare a moved-from key fails the case;
//   * arguments that are references INTO the tree: insert(n->key), erase(n->key), exists(n->key), find(n->key),
//     erase(n) with n the node returned by find() right now or earlier (not the root any more);
//   * erase / find / exists with keys that are equivalent to but distinct from the stored ones.
// Reference: a multiset of (cls, id) items.  Exact oracle after every step: return values, size(), empty(),
// allocated nodes == stored keys, live Tracked == 2 * stored Rec keys, own in-order walk from root_ (distinct live
// nodes, ranks sorted — strictly for sets —, the multiset of stored (cls,id) == model), traverse_preorder == walk,
// check() while all ranks are distinct.  Rule 2: the order of equivalent keys among each other is not specified by
// tlx (std::multiset would keep insertion order), and erase(key) / erase(node) remove ONE key equivalent to the
// argument — which one is read off the tree (model minus walk must be exactly one equivalent item).
#include "../engine/pbt.hpp"
#include "../engine/tracked.hpp"

#include <algorithm>
#include <cstdio>
#include <functional>
#include <memory>
#include <set>
#include <string>
#include <utility>
#include <vector>

#include "C17_splay_impl.hpp"

namespace c17t2 {

using verif::Tracked;

inline std::string mkstr(int idx, int style) {
    bool lng = style == 1 || (style == 2 && (idx & 1));
    if (!lng) return idx == 0 ? std::string() : std::string(1, char('a' + (idx - 1) % 26));
    char buf[16];
    snprintf(buf, sizeof buf, "%03d", idx);
    return std::string("a-key-that-does-not-fit-the-small-buffer-") + buf;
}

struct Rec {
    Tracked cls, id;
    std::string pad;
    Rec(int c, int i, const std::string& p) : cls(c), id(i), pad(p) {}
};

typedef std::pair<int, int> Item; // (cls, id)

inline void need_class(int c, size_t n, const char* who) {
    if (c == Tracked::kMovedFrom) pbt::fail("C17/splay-moved-from-key", std::string(who) + " was asked to compare a moved-from key");
    if (c < 0 || (size_t)c >= n) pbt::fail("C17/splay-comparator-state", std::string(who) + ": class " + std::to_string(c) + " outside its table of " + std::to_string(n) + " entries (comparator state lost?)");
}

//! owns its rank table; projection on cls
struct TableLess {
    std::vector<int> rank;
    std::string name;
    explicit TableLess(const std::vector<int>& r) : rank(r), name("table comparator with a heap allocated name") {}
    bool operator()(const Rec& a, const Rec& b) const {
        int ca = a.cls.value(), cb = b.cls.value();
        need_class(ca, rank.size(), "TableLess"), need_class(cb, rank.size(), "TableLess");
        return rank[ca] < rank[cb];
    }
};

//! owns a std::function (closure owns the table)
struct FnLess {
    std::function<bool(const Rec&, const Rec&)> fn;
    explicit FnLess(const std::vector<int>& r) {
        std::shared_ptr<std::vector<int>> t = std::make_shared<std::vector<int>>(r);
        fn = [t](const Rec& a, const Rec& b) {
            int ca = a.cls.value(), cb = b.cls.value();
            need_class(ca, t->size(), "FnLess"), need_class(cb, t->size(), "FnLess");
            return (*t)[ca] < (*t)[cb];
        };
    }
    bool operator()(const Rec& a, const Rec& b) const {
        if (!fn) pbt::fail("C17/splay-comparator-state", "FnLess: empty std::function (comparator state lost)");
        return fn(a, b);
    }
};

//! arbitrary strict order on a table of strings it owns
struct StrTableLess {
    std::vector<std::string> order; // order[r] = the string of rank r
    explicit StrTableLess(const std::vector<std::string>& o) : order(o) {}
    int rank(const std::string& s) const {
        for (size_t i = 0; i < order.size(); ++i)
            if (order[i] == s) return (int)i;
        pbt::fail("C17/splay-comparator-state", "StrTableLess: string " + pbt::show_bytes(s) + " is not in its table of " + std::to_string(order.size()) + " entries (moved-from key or comparator state lost)");
    }
    bool operator()(const std::string& a, const std::string& b) const { return rank(a) < rank(b); }
};

template <class Key>
struct Codec;
template <>
struct Codec<std::string> {
    static constexpr bool has_id = false;
    static std::string make(int cls, int, int st) { return mkstr(cls, st); }
    static Item decode(const std::string& s, int st, int C) {
        for (int c = 0; c < C; ++c)
            if (s == mkstr(c, st)) return Item(c, 0);
        return Item(-1, 0);
    }
};
template <>
struct Codec<Rec> {
    static constexpr bool has_id = true;
    static Rec make(int cls, int id, int st) { return Rec(cls, id, mkstr(cls * 4 + id, st == 0 ? 2 : st)); }
    static Item decode(const Rec& r, int st, int) {
        int c = r.cls.value(), i = r.id.value();
        if (r.pad != mkstr(c * 4 + i, st == 0 ? 2 : st)) return Item(-2, i);
        return Item(c, i);
    }
};

std::string show(const std::vector<Item>& v) {
    std::ostringstream os;
    os << "{";
    for (size_t i = 0; i < v.size(); ++i) os << (i ? " " : "") << v[i].first << "." << v[i].second;
    os << "}";
    return os.str();
}

template <class Key, class Cmp, bool Dup>
struct Types {
    typedef tlx::SplayTree<Key, Cmp, Dup, verif::CountingAllocator<Key>> Tree;
};

//! the history; rank[cls] = position of class cls in the comparator's order (equal rank = equivalent)
template <class Key, class Cmp, bool Dup>
void history(pbt::Source& src, const Cmp& cmp_proto, const std::vector<int>& rank, int st) {
    typedef typename Types<Key, Cmp, Dup>::Tree Tree;
    typedef typename Tree::Node Node;
    typedef Codec<Key> CD;
    const int C = (int)rank.size();
    {
        // the tree gets a COPY of a comparator that is destroyed before the first operation
        std::unique_ptr<Tree> tp;
        {
            std::unique_ptr<Cmp> tmp(new Cmp(cmp_proto));
            tp.reset(new Tree(*tmp, verif::CountingAllocator<Key>()));
        }
        Tree& t = *tp;
        std::vector<Item> model; // unordered multiset
        const Node* held = nullptr; // a node returned by an earlier find(), still in the tree
        bool cleared = false, nt = false;

        std::vector<const Node*> nodes; // in-order
        std::vector<Item> inorder;
        auto walk = [&](const char* after) {
            nodes.clear(), inorder.clear();
            const Node* root = t.*get_root_ptr(c17::RootTag<Tree>());
            std::set<const Node*> seen;
            std::vector<const Node*> stack;
            const Node* cur = root;
            while (cur || !stack.empty()) {
                while (cur) {
                    PBT_CHECK(seen.insert(cur).second, "C17/splay-structure", "after " << after << ": a node is reachable twice (shared subtree or cycle)");
                    PBT_CHECK(seen.size() <= model.size() + 1, "C17/splay-structure", "after " << after << ": more nodes reachable than stored; model " << show(model));
                    {
                        verif::AllocLedger& l = verif::AllocLedger::get();
                        std::lock_guard<std::mutex> g(l.m);
                        PBT_CHECK(l.live.count(cur), "C17/splay-structure", "after " << after << ": a reachable node is not a live allocation");
                    }
                    stack.push_back(cur);
                    cur = cur->left;
                }
                cur = stack.back();
                stack.pop_back();
                nodes.push_back(cur);
                inorder.push_back(CD::decode(cur->key, st, C));
                cur = cur->right;
            }
        };
        auto has_rank = [&](int r) {
            for (auto& it : model)
                if (rank[it.first] == r) return true;
            return false;
        };
        auto in_model = [&](Item it) { return std::find(model.begin(), model.end(), it) != model.end(); };
        auto check = [&](const char* after) {
            const Tree& ct = t;
            PBT_CHECK(ct.size() == model.size(), "C17/splay-size", "after " << after << ": size() " << ct.size() << " but model " << show(model));
            PBT_CHECK(ct.empty() == model.empty(), "C17/splay-empty", "after " << after << ": empty() " << ct.empty() << " but model " << show(model));
            PBT_CHECK(verif::AllocLedger::get().live_count() == model.size(), "C17/splay-nodes",
                      "after " << after << ": " << verif::AllocLedger::get().live_count() << " nodes allocated but " << model.size() << " keys stored");
            if (CD::has_id)
                PBT_CHECK(verif::Ledger::get().live_count() == 2 * model.size(), "C17/splay-keys-alive",
                          "after " << after << ": " << verif::Ledger::get().live_count() << " Tracked members alive but " << model.size() << " keys (2 each) stored");
            walk(after);
            for (size_t i = 0; i < inorder.size(); ++i)
                PBT_CHECK(inorder[i].first >= 0, "C17/splay-inorder", "after " << after << ": node " << i << " in order holds a key that was never inserted (moved-from / corrupted); model " << show(model));
            for (size_t i = 1; i < inorder.size(); ++i) {
                int a = rank[inorder[i - 1].first], b = rank[inorder[i].first];
                PBT_CHECK(Dup ? a <= b : a < b, "C17/splay-order", "after " << after << ": not a search tree, in-order " << show(inorder));
            }
            std::vector<Item> a = inorder, b = model;
            std::sort(a.begin(), a.end()), std::sort(b.begin(), b.end());
            PBT_CHECK(a == b, "C17/splay-inorder", "after " << after << ": in-order walk " << show(inorder) << " but model (unordered) " << show(model));
            std::vector<Item> tr;
            ct.traverse_preorder([&](const Key& k) { tr.push_back(CD::decode(k, st, C)); });
            PBT_CHECK(tr == inorder, "C17/splay-traverse", "after " << after << ": traverse_preorder gives " << show(tr) << " but the walk " << show(inorder));
            bool distinct = true;
            for (size_t i = 1; i < inorder.size(); ++i)
                if (rank[inorder[i - 1].first] == rank[inorder[i].first]) distinct = false;
            if (distinct) PBT_CHECK(ct.check(), "C17/splay-check", "after " << after << ": check() false; in-order " << show(inorder));
            // the held node stays usable only while it is a node of the tree
            if (held && std::find(nodes.begin(), nodes.end(), held) == nodes.end()) held = nullptr;
        };
        //! after a successful erase of a key of rank r: exactly one equivalent item is gone — find out which
        auto model_erase_by_diff = [&](int r, const char* what) -> Item {
            walk(what);
            std::vector<Item> rest = model;
            for (auto& it : inorder) {
                auto p = std::find(rest.begin(), rest.end(), it);
                PBT_CHECK(p != rest.end(), "C17/splay-inorder", "after " << what << ": the tree holds " << show(inorder) << " but the model before the erase was " << show(model));
                rest.erase(p);
            }
            PBT_CHECK(rest.size() == 1 && rank[rest[0].first] == r, "C17/splay-erase",
                      what << " returned true but the keys that disappeared are " << show(rest) << " (expected exactly one of rank " << r << "); model before " << show(model));
            model.erase(std::find(model.begin(), model.end(), rest[0]));
            return rest[0];
        };
        auto draw_key = [&](bool prefer_present, int& cls, int& id) {
            if (prefer_present && !model.empty() && src.chance(128)) {
                Item it = model[src.index(model.size())];
                cls = it.first;
                id = CD::has_id ? (int)src.range(0, 3) : 0; // usually an equivalent but DISTINCT key
                return;
            }
            cls = (int)src.range(0, C - 1);
            id = CD::has_id ? (int)src.range(0, 3) : 0;
        };
        auto do_insert = [&](const Key& k, Item it, const char* what) {
            bool present = has_rank(rank[it.first]);
            bool r = t.insert(k);
            PBT_LOG(what << " insert(" << it.first << "." << it.second << ") -> " << r << (present ? " [equivalent key stored]" : "") << "\n");
            bool want = Dup || !present;
            PBT_CHECK(r == want, "C17/splay-insert", what << " insert(" << it.first << "." << it.second << ") returned " << r << "; model " << show(model));
            if (want) model.push_back(it);
            if (present && Dup) pbt::label(in_model(it) && std::count(model.begin(), model.end(), it) > 1 ? "insert_duplicate_identical" : "insert_equivalent_distinct");
            if (present && !Dup) pbt::label("insert_existing_rejected");
        };
        auto do_erase_key = [&](const Key& k, Item it, const char* what) {
            int r = rank[it.first];
            bool present = has_rank(r);
            bool res = t.erase(k);
            PBT_LOG(what << " erase(" << it.first << "." << it.second << ") -> " << res << "\n");
            PBT_CHECK(res == present, "C17/splay-erase", what << " erase(" << it.first << "." << it.second << ") returned " << res << "; model " << show(model));
            if (present) {
                size_t equiv = 0;
                for (auto& m : model) equiv += rank[m.first] == r;
                if (equiv > 1) pbt::label("erase_one_of_equivalents");
                Item gone = model_erase_by_diff(r, what);
                if (gone != it) pbt::label("erase_by_distinct_equivalent_key");
            }
        };

        unsigned nops = 0;
        check("construction");
        while (src.more() && nops < 120) {
            ++nops;
            //                                    ins era exi fnd e(f) clr held fresh
            unsigned op = (unsigned)src.weighted({16, 4, 2, 4, 2, 1, 8, 4});
            if (model.empty() && op != 0) pbt::label("op_on_empty");
            switch (op) {
            case 0: {
                int cls, id;
                draw_key(false, cls, id);
                do_insert(CD::make(cls, id, st), Item(cls, id), "");
                pbt::label("insert");
                break;
            }
            case 1: {
                int cls, id;
                draw_key(true, cls, id);
                do_erase_key(CD::make(cls, id, st), Item(cls, id), "");
                pbt::label("erase");
                break;
            }
            case 2: {
                int cls, id;
                draw_key(true, cls, id);
                bool r = t.exists(CD::make(cls, id, st));
                PBT_LOG("exists(" << cls << "." << id << ") -> " << r << "\n");
                PBT_CHECK(r == has_rank(rank[cls]), "C17/splay-exists", "exists(" << cls << "." << id << ") returned " << r << "; model " << show(model));
                pbt::label("exists");
                break;
            }
            case 3:
            case 4: {
                int cls, id;
                draw_key(true, cls, id);
                bool present = has_rank(rank[cls]);
                const Node* n = t.find(CD::make(cls, id, st));
                if (!n) {
                    PBT_LOG("find(" << cls << "." << id << ") -> nullptr\n");
                    PBT_CHECK(model.empty(), "C17/splay-find", "find(" << cls << "." << id << ") returned nullptr on a non-empty tree " << show(model));
                    pbt::label("find_on_empty");
                    break;
                }
                PBT_CHECK(!model.empty(), "C17/splay-find", "find(" << cls << "." << id << ") on an empty tree returned a node");
                walk("find");
                PBT_CHECK(std::find(nodes.begin(), nodes.end(), n) != nodes.end(), "C17/splay-find", "find(" << cls << "." << id << ") returned a pointer that is not a node of the tree");
                Item got = CD::decode(n->key, st, C);
                PBT_LOG("find(" << cls << "." << id << ") -> node " << got.first << "." << got.second << "\n");
                PBT_CHECK(got.first >= 0 && in_model(got), "C17/splay-find", "find(" << cls << "." << id << ") returned a node whose key " << got.first << "." << got.second << " is not stored; model " << show(model));
                if (present) PBT_CHECK(rank[got.first] == rank[cls], "C17/splay-find", "find(" << cls << "." << id << ") returned key " << got.first << "." << got.second << " although an equivalent key is stored; model " << show(model));
                else PBT_CHECK(rank[got.first] != rank[cls], "C17/splay-find", "find(" << cls << "." << id << ") returned an equivalent key although none is stored");
                pbt::label(present ? "find_present" : "find_absent");
                if (op == 3) {
                    held = n; // keep it for later aliasing steps
                    break;
                }
                // erase(const Node*) right away
                bool res = t.erase(n);
                PBT_LOG("erase(that node) -> " << res << "\n");
                PBT_CHECK(res, "C17/splay-erase", "erase(node " << got.first << "." << got.second << ") returned false");
                Item gone = model_erase_by_diff(rank[got.first], "erase(find())");
                if (gone != got) pbt::label("erase_node_removed_other_equivalent");
                pbt::label("erase_node");
                break;
            }
            case 5: {
                PBT_LOG("clear()\n");
                if (!model.empty()) pbt::label("clear_nonempty");
                t.clear();
                model.clear();
                held = nullptr;
                cleared = true;
                pbt::label("clear");
                break;
            }
            default: { // arguments that live inside the tree
                const Node* n = nullptr;
                bool stale = false;
                if (op == 6) {
                    if (!held) continue;
                    n = held;
                    const Node* root = t.*get_root_ptr(c17::RootTag<Tree>());
                    stale = n != root;
                } else {
                    if (model.empty()) continue;
                    Item it = model[src.index(model.size())];
                    n = t.find(CD::make(it.first, it.second, st));
                    PBT_CHECK(n != nullptr, "C17/splay-find", "find of a stored key returned nullptr");
                    walk("find");
                    PBT_CHECK(std::find(nodes.begin(), nodes.end(), n) != nodes.end(), "C17/splay-find", "find returned a pointer that is not a node of the tree");
                }
                Item it = CD::decode(n->key, st, C);
                PBT_CHECK(it.first >= 0 && in_model(it), "C17/splay-inorder", "a node of the tree holds the key " << it.first << "." << it.second << " which is not stored; model " << show(model));
                if (stale) pbt::label("alias_node_not_root");
                if (model.size() >= 2) nt = true;
                unsigned sub = (unsigned)src.weighted({5, 5, 2, 2, 3});
                switch (sub) {
                case 0:
                    do_insert(n->key, it, "[key reference into the tree]");
                    pbt::label("alias_insert");
                    break;
                case 1:
                    do_erase_key(n->key, it, "[key reference into the tree]");
                    pbt::label("alias_erase_key");
                    break;
                case 2: {
                    bool r = t.exists(n->key);
                    PBT_LOG("[key reference into the tree] exists(" << it.first << "." << it.second << ") -> " << r << "\n");
                    PBT_CHECK(r, "C17/splay-exists", "exists(key of a stored node) returned false");
                    pbt::label("alias_exists");
                    break;
                }
                case 3: {
                    const Node* f = t.find(n->key);
                    PBT_CHECK(f != nullptr, "C17/splay-find", "find(key of a stored node) returned nullptr");
                    walk("find");
                    PBT_CHECK(std::find(nodes.begin(), nodes.end(), f) != nodes.end(), "C17/splay-find", "find(key of a stored node) returned a pointer that is not a node of the tree");
                    Item got = CD::decode(f->key, st, C);
                    PBT_LOG("[key reference into the tree] find(" << it.first << "." << it.second << ") -> node " << got.first << "." << got.second << "\n");
                    PBT_CHECK(got.first >= 0 && rank[got.first] == rank[it.first], "C17/splay-find", "find(key of a stored node " << it.first << "." << it.second << ") returned " << got.first << "." << got.second);
                    pbt::label("alias_find");
                    break;
                }
                default: {
                    bool res = t.erase(n);
                    PBT_LOG("erase(node " << it.first << "." << it.second << (stale ? ", not the root" : "") << ") -> " << res << "\n");
                    PBT_CHECK(res, "C17/splay-erase", "erase(node " << it.first << "." << it.second << ") returned false");
                    Item gone = model_erase_by_diff(rank[it.first], "erase(node)");
                    if (gone != it || std::find(nodes.begin(), nodes.end(), n) != nodes.end()) pbt::label("erase_node_removed_other_equivalent");
                    pbt::label("alias_erase_node");
                    break;
                }
                }
                break;
            }
            }
            check("op");
            if (cleared && !model.empty()) pbt::label("reuse_after_clear");
            if (model.size() >= 6) pbt::label("size>=6");
            {
                bool eqd = false;
                for (size_t i = 0; i < model.size() && !eqd; ++i)
                    for (size_t j = i + 1; j < model.size(); ++j)
                        if (rank[model[i].first] == rank[model[j].first] && model[i] != model[j]) eqd = true;
                if (eqd) pbt::label("equivalent_distinct_keys_stored");
            }
        }
        if (nt) pbt::nontrivial();
        if (src.boolean()) {
            // drain through key references into the tree: erase(find(x)->key)
            PBT_LOG("drain by erase(find(k)->key)\n");
            while (!model.empty()) {
                Item it = model[src.index(model.size())];
                const Node* n = t.find(CD::make(it.first, it.second, st));
                PBT_CHECK(n != nullptr, "C17/splay-find", "drain: find of a stored key returned nullptr");
                walk("find");
                PBT_CHECK(std::find(nodes.begin(), nodes.end(), n) != nodes.end(), "C17/splay-find", "drain: find returned a pointer that is not a node of the tree");
                Item got = CD::decode(n->key, st, C);
                PBT_CHECK(got.first >= 0 && rank[got.first] == rank[it.first], "C17/splay-find", "drain: find(" << it.first << "." << it.second << ") returned " << got.first << "." << got.second);
                do_erase_key(n->key, got, "drain");
                check("drain step");
            }
            pbt::label("drained_by_alias");
        }
    }
    PBT_CHECK(verif::AllocLedger::get().live_count() == 0, "C17/splay-nodes", verif::AllocLedger::get().live_count() << " nodes not freed by the destructor");
    PBT_CHECK(verif::Ledger::get().live_count() == 0, "C17/splay-keys-alive", verif::Ledger::get().live_count() << " Tracked key members alive after destruction");
}

} // namespace c17t2

namespace c17 {
using c17t2::FnLess;
using c17t2::Rec;
using c17t2::StrTableLess;
using c17t2::TableLess;
template struct Rob<RootTag<tlx::SplayTree<std::string, std::less<std::string>, false, verif::CountingAllocator<std::string>>>, &tlx::SplayTree<std::string, std::less<std::string>, false, verif::CountingAllocator<std::string>>::root_>;
template struct Rob<RootTag<tlx::SplayTree<std::string, std::less<std::string>, true, verif::CountingAllocator<std::string>>>, &tlx::SplayTree<std::string, std::less<std::string>, true, verif::CountingAllocator<std::string>>::root_>;
template struct Rob<RootTag<tlx::SplayTree<std::string, std::greater<std::string>, false, verif::CountingAllocator<std::string>>>, &tlx::SplayTree<std::string, std::greater<std::string>, false, verif::CountingAllocator<std::string>>::root_>;
template struct Rob<RootTag<tlx::SplayTree<std::string, std::greater<std::string>, true, verif::CountingAllocator<std::string>>>, &tlx::SplayTree<std::string, std::greater<std::string>, true, verif::CountingAllocator<std::string>>::root_>;
template struct Rob<RootTag<tlx::SplayTree<std::string, StrTableLess, false, verif::CountingAllocator<std::string>>>, &tlx::SplayTree<std::string, StrTableLess, false, verif::CountingAllocator<std::string>>::root_>;
template struct Rob<RootTag<tlx::SplayTree<std::string, StrTableLess, true, verif::CountingAllocator<std::string>>>, &tlx::SplayTree<std::string, StrTableLess, true, verif::CountingAllocator<std::string>>::root_>;
template struct Rob<RootTag<tlx::SplayTree<Rec, TableLess, false, verif::CountingAllocator<Rec>>>, &tlx::SplayTree<Rec, TableLess, false, verif::CountingAllocator<Rec>>::root_>;
template struct Rob<RootTag<tlx::SplayTree<Rec, TableLess, true, verif::CountingAllocator<Rec>>>, &tlx::SplayTree<Rec, TableLess, true, verif::CountingAllocator<Rec>>::root_>;
template struct Rob<RootTag<tlx::SplayTree<Rec, FnLess, false, verif::CountingAllocator<Rec>>>, &tlx::SplayTree<Rec, FnLess, false, verif::CountingAllocator<Rec>>::root_>;
template struct Rob<RootTag<tlx::SplayTree<Rec, FnLess, true, verif::CountingAllocator<Rec>>>, &tlx::SplayTree<Rec, FnLess, true, verif::CountingAllocator<Rec>>::root_>;
} // namespace c17

PBT_PROPERTY(splay_types) {
    using namespace c17t2;
    unsigned kind = (unsigned)src.range(0, 9);
    static const char* const L[] = {"set/string/less",        "multiset/string/less",        "set/string/greater", "multiset/string/greater", "set/string/StrTableLess",
                                    "multiset/string/StrTableLess", "set/Rec/TableLess(projection)", "multiset/Rec/TableLess(projection)", "set/Rec/FnLess(projection)", "multiset/Rec/FnLess(projection)"};
    pbt::label(L[kind]);
    verif::Ledger::get().reset();
    verif::AllocLedger::get().reset();
    const int C = (int)src.range(2, 8);
    const int st = (int)src.range(0, 2);
    static const char* const SL[] = {"strings=short(incl. empty)", "strings=long", "strings=mixed"};
    pbt::label(SL[st]);
    PBT_LOG("SplayTree " << L[kind] << ", " << C << " classes, " << SL[st] << "\n");
    std::vector<int> rank(C);
    const bool dup = kind & 1;
    switch (kind / 2) {
    case 0:
    case 1: {
        // rank = position of the class' string in lexicographic order
        std::vector<std::string> s;
        for (int c = 0; c < C; ++c) s.push_back(mkstr(c, st));
        std::vector<std::string> sorted = s;
        std::sort(sorted.begin(), sorted.end());
        if (kind / 2 == 1) std::reverse(sorted.begin(), sorted.end());
        for (int c = 0; c < C; ++c) rank[c] = (int)(std::find(sorted.begin(), sorted.end(), s[c]) - sorted.begin());
        if (kind / 2 == 0) {
            if (dup) history<std::string, std::less<std::string>, true>(src, std::less<std::string>(), rank, st);
            else history<std::string, std::less<std::string>, false>(src, std::less<std::string>(), rank, st);
        } else {
            if (dup) history<std::string, std::greater<std::string>, true>(src, std::greater<std::string>(), rank, st);
            else history<std::string, std::greater<std::string>, false>(src, std::greater<std::string>(), rank, st);
        }
        break;
    }
    case 2: {
        // a drawn permutation of the classes
        std::vector<int> perm(C);
        for (int c = 0; c < C; ++c) perm[c] = c;
        for (int c = C - 1; c > 0; --c) std::swap(perm[c], perm[src.index(c + 1)]);
        std::vector<std::string> order;
        for (int r = 0; r < C; ++r) order.push_back(mkstr(perm[r], st)), rank[perm[r]] = r;
        StrTableLess cmp(order);
        if (dup) history<std::string, StrTableLess, true>(src, cmp, rank, st);
        else history<std::string, StrTableLess, false>(src, cmp, rank, st);
        break;
    }
    default: {
        // projection: classes are mapped to fewer ranks, so distinct classes (and ids) are equivalent
        int R = (int)src.range(1, C);
        for (int c = 0; c < C; ++c) rank[c] = (int)src.range(0, R - 1);
        if (R < C) pbt::label("several_classes_per_rank");
        if (kind / 2 == 3) {
            TableLess cmp(rank);
            if (dup) history<Rec, TableLess, true>(src, cmp, rank, st);
            else history<Rec, TableLess, false>(src, cmp, rank, st);
        } else {
            FnLess cmp(rank);
            if (dup) history<Rec, FnLess, true>(src, cmp, rank, st);
            else history<Rec, FnLess, false>(src, cmp, rank, st);
        }
        break;
    }
    }
}
