// C05 — target merge_iters: RecH, stable entry points, four (input iterator kind, output iterator kind) pairs (IT_PAIR_OF_TYPE), owning comparator
#include "C05_merge.hpp"

namespace c05 {
void run_it_rech_s(pbt::Source& src, const Cfg& cfg) { run_iters<RecH, true>(src, cfg); }
} // namespace c05
