// C13 (part 1) — tlx::DAryHeap: size/top/drain vs. a multiset model, for arity 1..8 and three comparators
// (std::less, std::greater, external priority table).  Oracle accepts any minimal element as top().
#include "../engine/pbt.hpp"

#include <algorithm>
#include <climits>
#include <functional>
#include <memory>
#include <vector>

#include "C13_dary_impl.hpp"

namespace {

static const int KEYS[] = {0, 1, 2, 3, 4, 5, 6, 7, -1, -2, INT_MAX, INT_MIN, INT_MAX - 1, INT_MIN + 1, 100, -100};

std::string show(const std::vector<int>& v) {
    std::ostringstream os;
    os << "{";
    for (size_t i = 0; i < v.size(); ++i) os << (i ? "," : "") << v[i];
    os << "}";
    return os.str();
}

using c13::IDary;
IDary* make_dary(unsigned arity, unsigned ck, const std::vector<int>* prio) {
    return arity <= 4 ? c13::make_dary_lo(arity, ck, prio) : c13::make_dary_hi(arity, ck, prio);
}

void dary_history(pbt::Source& src, unsigned A, unsigned ck) {
    const bool table = ck == 2;
    const size_t U = table ? (size_t)src.range(1, 12) : sizeof(KEYS) / sizeof(KEYS[0]);
    std::vector<int> prio(U, 0);
    if (table)
        for (size_t i = 0; i < U; ++i) prio[i] = (int)src.range(0, 5);
    auto cmp = [&](int a, int b) { return ck == 0 ? a < b : ck == 1 ? a > b : prio[(size_t)a] < prio[(size_t)b]; };
    std::unique_ptr<IDary> hp(make_dary(A, ck, &prio));
    IDary& h = *hp;
    std::vector<int> model; // multiset of keys
    PBT_LOG("DAryHeap arity=" << A << " cmp=" << (table ? "table" : (cmp(0, 1) ? "less" : "greater")) << " U=" << U
                              << (table ? " prio=" + show(prio) : std::string()) << "\n");

    auto gen_key = [&]() -> int { return table ? (int)src.index(U) : KEYS[src.index(U)]; };
    auto gen_keys = [&]() {
        std::vector<int> v;
        size_t n = (size_t)src.range(0, 12);
        for (size_t i = 0; i < n; ++i) v.push_back(gen_key());
        return v;
    };
    auto is_min = [&](int t) {
        for (int e : model)
            if (cmp(e, t)) return false;
        return true;
    };
    auto model_erase = [&](int k) {
        auto it = std::find(model.begin(), model.end(), k);
        if (it == model.end()) return false;
        model.erase(it);
        return true;
    };
    auto check = [&](const char* after) {
        PBT_CHECK(h.size() == model.size(), "C13/dary-size", "after " << after << ": size() " << h.size() << " but model has " << model.size());
        PBT_CHECK(h.empty() == model.empty(), "C13/dary-empty", "after " << after << ": empty() " << h.empty() << ", model size " << model.size());
        if (!model.empty()) {
            int t = h.top();
            PBT_CHECK(std::count(model.begin(), model.end(), t) > 0, "C13/dary-top-member",
                      "after " << after << ": top() = " << t << " is not stored; model " << show(model));
            PBT_CHECK(is_min(t), "C13/dary-top-min", "after " << after << ": top() = " << t << " is not minimal; model " << show(model)
                                                               << (table ? " prio " + show(prio) : std::string()));
        }
        PBT_CHECK(h.sanity_check(), "C13/dary-sanity", "after " << after << ": sanity_check() false; model " << show(model));
    };

    bool nt = false;
    unsigned nops = 0;
    check("construction");
    while (src.more() && nops < 200) {
        ++nops;
        unsigned op = (unsigned)src.weighted({8, 3, 5, 4, 1, 2, 2, 2, 3, 1, 2});
        switch (op) {
        case 0: {
            int k = gen_key();
            PBT_LOG("push(" << k << ")\n");
            h.push(k);
            model.push_back(k);
            pbt::label("push");
            break;
        }
        case 1: {
            int k = gen_key();
            PBT_LOG("push(move " << k << ")\n");
            int kk = k;
            h.push_move(std::move(kk));
            model.push_back(k);
            pbt::label("push_move");
            break;
        }
        case 2: {
            if (model.empty()) continue;
            int t = h.top();
            PBT_LOG("pop() [top " << t << "]\n");
            h.pop();
            PBT_CHECK(model_erase(t), "C13/dary-top-member", "top() " << t << " not in model " << show(model));
            if (model.size() >= 3) nt = true;
            pbt::label("pop");
            break;
        }
        case 3: {
            if (model.empty()) continue;
            PBT_CHECK(is_min(h.top()), "C13/dary-top-min", "before extract_top: top() " << h.top() << " is not minimal; model " << show(model));
            int t = h.extract_top();
            PBT_LOG("extract_top() -> " << t << "\n");
            PBT_CHECK(std::count(model.begin(), model.end(), t) > 0, "C13/dary-extract-member",
                      "extract_top() returned " << t << " which is not stored; model " << show(model));
            PBT_CHECK(is_min(t), "C13/dary-extract-min", "extract_top() returned " << t << " which is not minimal; model " << show(model));
            model_erase(t);
            if (model.size() >= 3) nt = true;
            pbt::label("extract_top");
            break;
        }
        case 4:
            PBT_LOG("clear()\n");
            h.clear();
            model.clear();
            pbt::label("clear");
            break;
        case 5: {
            std::vector<int> v = gen_keys();
            PBT_LOG("build_heap(first,last) " << show(v) << (model.empty() ? "" : " on non-empty") << "\n");
            if (!model.empty()) pbt::label("build_nonempty"), nt = true;
            h.build_iter(v);
            model = v;
            pbt::label("build_iter");
            break;
        }
        case 6: {
            std::vector<int> v = gen_keys();
            PBT_LOG("build_heap(const vector&) " << show(v) << (model.empty() ? "" : " on non-empty") << "\n");
            if (!model.empty()) pbt::label("build_nonempty"), nt = true;
            const std::vector<int>& cv = v;
            h.build_copy(cv);
            PBT_CHECK(cv == v, "C13/dary-build-copy", "build_heap(const&) changed its argument");
            model = v;
            pbt::label("build_copy");
            break;
        }
        case 7: {
            std::vector<int> v = gen_keys();
            PBT_LOG("build_heap(vector&&) " << show(v) << (model.empty() ? "" : " on non-empty") << "\n");
            if (!model.empty()) pbt::label("build_nonempty"), nt = true;
            model = v;
            h.build_move(std::move(v));
            pbt::label("build_move");
            break;
        }
        case 8: {
            // arbitrary priority changes, then update_all()
            if (table) {
                size_t n = (size_t)src.range(0, 4);
                for (size_t i = 0; i < n; ++i) {
                    size_t k = src.index(U);
                    int p = (int)src.range(0, 5);
                    PBT_LOG("prio[" << k << "] = " << p << "\n");
                    if (prio[k] != p && std::count(model.begin(), model.end(), (int)k)) pbt::label("update_all_changed"), nt = true;
                    prio[k] = p;
                }
            }
            PBT_LOG("update_all()\n");
            h.update_all();
            pbt::label("update_all");
            break;
        }
        case 9: {
            size_t n = (size_t)src.range(0, 40);
            PBT_LOG("reserve(" << n << ")\n");
            h.reserve(n);
            PBT_CHECK(h.capacity() >= n, "C13/dary-reserve", "capacity() " << h.capacity() << " after reserve(" << n << ")");
            pbt::label("reserve");
            break;
        }
        default: {
            unsigned how = (unsigned)src.range(0, 3);
            PBT_LOG("copy/move variant " << how << "\n");
            h.copy_move(how, gen_key());
            pbt::label("copy_move");
            break;
        }
        }
        check("op");
        if (model.size() >= 9) pbt::label("size>=9");
    }
    // drain: non-decreasing and a permutation of the model
    bool have_prev = false;
    int prev = 0;
    PBT_LOG("drain:");
    while (!model.empty()) {
        PBT_CHECK(!h.empty(), "C13/dary-size", "heap empty during drain but model still has " << show(model));
        int t = h.extract_top();
        PBT_LOG(" " << t);
        PBT_CHECK(model_erase(t), "C13/dary-drain-perm", "drain produced " << t << " which is not (any more) in the model " << show(model));
        PBT_CHECK(!have_prev || !cmp(t, prev), "C13/dary-drain-order", "drain produced " << t << " after " << prev);
        prev = t;
        have_prev = true;
    }
    PBT_LOG("\n");
    PBT_CHECK(h.empty() && h.size() == 0, "C13/dary-size", "heap not empty after draining the model: size " << h.size());
    if (nt) pbt::nontrivial();
}

} // namespace

PBT_PROPERTY(dary) {
    unsigned arity = 1 + (unsigned)src.range(0, 7);
    unsigned ck = (unsigned)src.weighted({2, 1, 3}); // less, greater, external priority table
    static const char* const AL[] = {"", "arity=1", "arity=2", "arity=3", "arity=4", "arity=5", "arity=6", "arity=7", "arity=8"};
    static const char* const CL[] = {"cmp=less", "cmp=greater", "cmp=table"};
    pbt::label(AL[arity]);
    pbt::label(CL[ck]);
    dary_history(src, arity, ck);
}
