// C17 (part 3) — SCALE classes.  C17_lru.cpp / C17_splay.cpp use key universes of <= 13 keys so that all orderings of
// operations are found; a tree or cache of <= 13 entries can never be deep or large.  This file samples the *size*
// dimension with few, long phases instead of many single operations:
//   splay_scale  SplayTree (set/multiset, less/greater, int/Tracked keys) over a universe of 64..4200 keys
//                key(i) = base + stride*i; every phase applies one operation (insert / erase / exists+find /
//                erase(find) ) to a window of the universe in an adversarial ORDER: ascending, descending, zig-zag,
//                organ-pipe, inside-out, sawtooth, random, each key twice, one key repeatedly.  Sorted insertion and
//                sorted access turn a splay tree into a chain of depth n, zig-zag into a zig-zag path.
//                After every single step: return value, size(), number of allocated nodes (and live Tracked keys)
//                against std::multiset; after every phase ("checkpoint") the full comparison of C17_splay.cpp:
//                in-order sequence by the own walk from root_ and by traverse_preorder, order, check(), ledgers.
//   lru_scale    LruCacheSet / LruCacheMap with up to 4200 entries: phases of put / touch / touch_if_exists /
//                get_touch / get / erase / erase_if_exists over a window in the same orders, runs of pop;
//                after every step return value / exception iff absent / value / size / popped == least recent;
//                checkpoints compare exists() for the whole universe; the final drain compares the full recency order.
// The orders are pure functions of the choice bytes (a drawn 16-bit seed expands the random order).
// Tree depth stays <= 4200: the recursive traversal / check() / clear() of tlx need a few hundred kB of stack.
#include "../engine/pbt.hpp"
#include "../engine/tracked.hpp"

#include <algorithm>
#include <list>
#include <memory>
#include <set>
#include <stdexcept>
#include <unordered_map>
#include <utility>
#include <vector>

#include <tlx/container/lru_cache.hpp>

#include "C17_splay_impl.hpp"

namespace {

using c17::ISplay;
using verif::Tracked;

inline int val(int x) { return x; }
inline int val(const Tracked& t) { return t.value(); }

struct Rng {
    uint64_t s;
    uint64_t next() {
        uint64_t z = (s += 0x9E3779B97F4A7C15ull);
        z = (z ^ (z >> 30)) * 0xBF58476D1CE4E5B9ull;
        z = (z ^ (z >> 27)) * 0x94D049BB133111EBull;
        return z ^ (z >> 31);
    }
    size_t below(size_t n) { return (size_t)(next() % n); }
};

enum { P_ASC, P_DESC, P_ZIGZAG, P_ORGAN, P_INSIDE_OUT, P_SAWTOOTH, P_RANDOM, P_TWICE, P_SAME, P_N };
const char* const PAT[P_N] = {"ascending", "descending", "zig-zag", "organ-pipe", "inside-out", "sawtooth", "random", "each-twice", "same-key"};
const char* const L_INS[P_N] = {"ins:ascending", "ins:descending", "ins:zig-zag", "ins:organ-pipe", "ins:inside-out", "ins:sawtooth", "ins:random", "ins:each-twice", "ins:same-key"};
const char* const L_ERA[P_N] = {"erase:ascending", "erase:descending", "erase:zig-zag", "erase:organ-pipe", "erase:inside-out", "erase:sawtooth", "erase:random", "erase:each-twice", "erase:same-key"};
const char* const L_QRY[P_N] = {"query:ascending", "query:descending", "query:zig-zag", "query:organ-pipe", "query:inside-out", "query:sawtooth", "query:random", "query:each-twice", "query:same-key"};
const char* const L_TCH[P_N] = {"touch:ascending", "touch:descending", "touch:zig-zag", "touch:organ-pipe", "touch:inside-out", "touch:sawtooth", "touch:random", "touch:each-twice", "touch:same-key"};

//! the order in which the m positions 0..m-1 of a window are visited (m steps)
std::vector<size_t> pattern(unsigned pat, size_t m, size_t block, Rng& rng) {
    std::vector<size_t> o;
    if (m == 0) return o;
    o.reserve(m);
    switch (pat) {
    case P_ASC:
        for (size_t i = 0; i < m; ++i) o.push_back(i);
        break;
    case P_DESC:
        for (size_t i = 0; i < m; ++i) o.push_back(m - 1 - i);
        break;
    case P_ZIGZAG: // 0, m-1, 1, m-2, ...
        for (size_t lo = 0, hi = m; lo < hi;) {
            o.push_back(lo++);
            if (lo < hi) o.push_back(--hi);
        }
        break;
    case P_ORGAN: // 0, 2, 4, ... then the odd positions downwards
        for (size_t i = 0; i < m; i += 2) o.push_back(i);
        for (size_t i = m; i-- > 0;)
            if (i & 1) o.push_back(i);
        break;
    case P_INSIDE_OUT: { // mid, mid+1, mid-1, mid+2, ...
        size_t mid = m / 2;
        o.push_back(mid);
        for (size_t d = 1; o.size() < m; ++d) {
            if (mid + d < m) o.push_back(mid + d);
            if (d <= mid) o.push_back(mid - d);
        }
        break;
    }
    case P_SAWTOOTH: { // ascending blocks, the blocks from the top down
        size_t nb = (m + block - 1) / block;
        for (size_t b = nb; b-- > 0;)
            for (size_t i = b * block; i < m && i < (b + 1) * block; ++i) o.push_back(i);
        break;
    }
    case P_RANDOM:
        for (size_t i = 0; i < m; ++i) o.push_back(i);
        for (size_t i = m; i > 1; --i) std::swap(o[i - 1], o[rng.below(i)]);
        break;
    case P_TWICE:
        for (size_t i = 0; i < m; ++i) o.push_back(i / 2);
        break;
    default:
        for (size_t i = 0; i < m; ++i) o.push_back(0);
        break;
    }
    return o;
}

//! number of keys in the universe; zero bytes give 64
size_t draw_universe(pbt::Source& src) {
    switch (src.weighted({4, 3, 1, 1, 1})) {
    case 0: return (size_t)src.range(64, 600);
    case 1: return (size_t)src.range(500, 540);   // around 512
    case 2: return (size_t)src.range(1010, 1040); // around 1024
    case 3: return (size_t)src.range(2040, 2060); // around 2048
    default: return (size_t)src.range(600, 4200);
    }
}

struct Universe {
    size_t U;
    int base, stride;
    int key(size_t i) const { return base + stride * (int)i; }
};
Universe draw_keys(pbt::Source& src) {
    Universe u;
    u.U = draw_universe(src);
    static const int STRIDE[] = {1, 2, 3, 1000};
    u.stride = STRIDE[src.index(4)];
    unsigned b = (unsigned)src.index(3);
    u.base = b == 0 ? 0 : b == 1 ? -(int)(u.U / 2) * u.stride : 1000000;
    return u;
}
void label_universe(size_t U) {
    if (U >= 513) pbt::label("universe>=513");
    if (U >= 1025) pbt::label("universe>=1025");
    if (U >= 2049) pbt::label("universe>=2049");
}

struct Window {
    size_t a, len;
    unsigned pat;
    std::vector<size_t> order;
};
Window draw_window(pbt::Source& src, size_t U, Rng& rng) {
    Window w;
    switch (src.weighted({4, 1, 1, 2})) {
    case 0: w.a = 0, w.len = U; break;
    case 1: w.a = 0, w.len = U / 2; break;
    case 2: w.a = U / 2, w.len = U - U / 2; break;
    default:
        w.a = src.index(U);
        w.len = 1 + src.index(U - w.a);
        break;
    }
    w.pat = (unsigned)src.weighted({4, 2, 2, 2, 1, 2, 3, 1, 1});
    size_t block = w.pat == P_SAWTOOTH ? (size_t)src.range(2, 64) : 1;
    w.order = pattern(w.pat, w.len, block, rng);
    return w;
}

/******************************************************************************/
// SplayTree

std::string brief(const std::vector<int>& v) {
    std::ostringstream os;
    os << "{" << v.size() << " keys:";
    for (size_t i = 0; i < v.size() && i < 4; ++i) os << " " << v[i];
    if (v.size() > 4) os << " ... " << v.back();
    os << "}";
    return os.str();
}

//! first position where two sequences differ
size_t first_diff(const std::vector<int>& a, const std::vector<int>& b) {
    size_t i = 0;
    while (i < a.size() && i < b.size() && a[i] == b[i]) ++i;
    return i;
}

void splay_scale_history(pbt::Source& src, unsigned kind) {
    const bool dup = kind & 1, greater = kind & 2, tracked = kind & 4;
    verif::Ledger::get().reset();
    verif::AllocLedger::get().reset();
    const Universe u = draw_keys(src);
    Rng rng{(uint64_t)src.bits(2)};
    label_universe(u.U);
    PBT_LOG("universe: " << u.U << " keys " << u.base << " + " << u.stride << "*i\n");
    {
        std::unique_ptr<ISplay> tp(tracked ? c17::make_splay_tracked(kind) : c17::make_splay_int(kind));
        ISplay& t = *tp;
        std::multiset<int> model;
        bool cleared = false, deep = false;
        size_t steps = 0;
        auto before = [&](int a, int b) { return greater ? a > b : a < b; };
        auto sorted_model = [&]() {
            std::vector<int> v(model.begin(), model.end());
            if (greater) std::reverse(v.begin(), v.end());
            return v;
        };
        auto erase_one = [&](int k) { model.erase(model.find(k)); };
        // O(1) part of the check, after every single step
        auto step_check = [&](const char* after, int k) {
            ++steps;
            PBT_CHECK(t.size() == model.size(), "C17/splay-size", "after " << after << "(" << k << "): size() " << t.size() << " but the model holds " << model.size() << " keys");
            PBT_CHECK(t.empty() == model.empty(), "C17/splay-empty", "after " << after << "(" << k << "): empty() " << t.empty() << " but the model holds " << model.size() << " keys");
            PBT_CHECK(verif::AllocLedger::get().live_count() == model.size(), "C17/splay-nodes",
                      "after " << after << "(" << k << "): " << verif::AllocLedger::get().live_count() << " nodes allocated but " << model.size() << " keys stored");
            if (tracked)
                PBT_CHECK(verif::Ledger::get().live_count() == model.size(), "C17/splay-keys-alive",
                          "after " << after << "(" << k << "): " << verif::Ledger::get().live_count() << " key objects alive but " << model.size() << " keys stored");
        };
        auto checkpoint = [&](const char* after) {
            std::vector<int> want = sorted_model();
            PBT_CHECK(t.size() == model.size(), "C17/splay-size", "after " << after << ": size() " << t.size() << " but model " << brief(want));
            PBT_CHECK(t.empty() == model.empty(), "C17/splay-empty", "after " << after << ": empty() " << t.empty() << " but model " << brief(want));
            PBT_CHECK(verif::AllocLedger::get().live_count() == model.size(), "C17/splay-nodes",
                      "after " << after << ": " << verif::AllocLedger::get().live_count() << " nodes allocated but " << model.size() << " keys stored");
            if (tracked)
                PBT_CHECK(verif::Ledger::get().live_count() == model.size(), "C17/splay-keys-alive",
                          "after " << after << ": " << verif::Ledger::get().live_count() << " key objects alive but " << model.size() << " keys stored");
            c17::Walk w;
            t.walk(w, model.size());
            PBT_CHECK(w.err.empty(), "C17/splay-structure", "after " << after << ": " << w.err << "; model " << brief(want));
            PBT_CHECK(w.inorder == want, "C17/splay-inorder",
                      "after " << after << ": in-order walk " << brief(w.inorder) << " but model " << brief(want) << ", first difference at position " << first_diff(w.inorder, want));
            bool has_dups = false;
            for (size_t i = 1; i < w.inorder.size(); ++i) {
                PBT_CHECK(dup ? !before(w.inorder[i], w.inorder[i - 1]) : before(w.inorder[i - 1], w.inorder[i]), "C17/splay-order",
                          "after " << after << ": not a search tree, in-order position " << i << ": " << w.inorder[i - 1] << ", " << w.inorder[i]);
                if (w.inorder[i] == w.inorder[i - 1]) has_dups = true;
            }
            if (w.max_depth > 64) deep = true, pbt::label("depth>64");
            if (w.max_depth > 512) pbt::label("depth>512");
            if (w.max_depth > 1024) pbt::label("depth>1024");
            if (w.max_depth > 2048) pbt::label("depth>2048");
            if (w.max_left_depth > 512) pbt::label("left_depth>512");
            if (w.max_left_depth > 1024) pbt::label("left_depth>1024");
            if (w.max_depth > 512 && w.max_depth - w.max_left_depth > 512) pbt::label("right_depth>512");
            PBT_LOG("  checkpoint: " << model.size() << " keys, depth " << w.max_depth << ", left depth " << w.max_left_depth << "\n");
            std::vector<int> tr;
            t.traverse(tr);
            PBT_CHECK(tr == want, "C17/splay-traverse",
                      "after " << after << ": traverse_preorder reports " << brief(tr) << " but model " << brief(want) << ", first difference at position " << first_diff(tr, want) << " (tree depth " << w.max_depth << ")");
            if (!has_dups) PBT_CHECK(t.check(), "C17/splay-check", "after " << after << ": check() false; model " << brief(want));
            if (model.size() >= 513) pbt::label("size>=513");
            if (model.size() >= 2049) pbt::label("size>=2049");
        };
        //! whatever find() returned must be a node of this tree (O(n): only at the ends of a phase)
        auto node_of_tree = [&](const void* node, int k) {
            c17::Walk w2;
            t.walk(w2, model.size());
            PBT_CHECK(w2.err.empty() && w2.nodes.count(node), "C17/splay-find", "find(" << k << ") returned a pointer that is not a node of the tree");
        };

        unsigned phases = 0;
        checkpoint("construction");
        while (src.more() && phases < 10 && steps < 40000) {
            ++phases;
            unsigned op = (unsigned)src.weighted({8, 3, 4, 2, 1, 2});
            if (op == 4) {
                PBT_LOG("clear() [" << model.size() << " keys]\n");
                if (model.size() >= 513) pbt::label("clear@size>=513");
                else if (!model.empty()) pbt::label("clear_nonempty");
                t.clear();
                model.clear();
                cleared = true;
                pbt::label("clear");
                checkpoint("clear");
                continue;
            }
            Window w = draw_window(src, u.U, rng);
            // erasures and queries also aim next to the keys (absent when stride > 1)
            int off = (op != 0 && src.chance(48)) ? 1 : 0;
            if (cleared) pbt::label("reuse_after_clear");
            if (model.empty() && op != 0) pbt::label("op_on_empty");
            switch (op) {
            case 0: {
                PBT_LOG("insert " << w.len << " keys of window [" << w.a << "," << w.a + w.len << ") in " << PAT[w.pat] << " order\n");
                pbt::label(L_INS[w.pat]);
                for (size_t i = 0; i < w.len; ++i) {
                    int k = u.key(w.a + w.order[i]);
                    bool present = model.find(k) != model.end();
                    bool r = t.insert(k);
                    bool want = dup || !present;
                    PBT_CHECK(r == want, "C17/splay-insert", "insert(" << k << ") returned " << r << " with the key " << (present ? "present" : "absent") << "; " << model.size() << " keys stored");
                    if (want) model.insert(k);
                    step_check("insert", k);
                }
                break;
            }
            case 1: {
                PBT_LOG("erase " << w.len << " keys (+" << off << ") of window [" << w.a << "," << w.a + w.len << ") in " << PAT[w.pat] << " order\n");
                pbt::label(L_ERA[w.pat]);
                for (size_t i = 0; i < w.len; ++i) {
                    int k = u.key(w.a + w.order[i]) + off;
                    bool present = model.find(k) != model.end();
                    bool r = t.erase(k);
                    PBT_CHECK(r == present, "C17/splay-erase", "erase(" << k << ") returned " << r << " with the key " << (present ? "present" : "absent") << "; " << model.size() << " keys stored");
                    if (present) erase_one(k);
                    step_check("erase", k);
                }
                break;
            }
            case 2:
            case 5: {
                bool use_find = op == 5;
                PBT_LOG((use_find ? "find " : "exists ") << w.len << " keys (+" << off << ") of window [" << w.a << "," << w.a + w.len << ") in " << PAT[w.pat] << " order\n");
                pbt::label(L_QRY[w.pat]);
                pbt::label(use_find ? "find_run" : "exists_run");
                for (size_t i = 0; i < w.len; ++i) {
                    int k = u.key(w.a + w.order[i]) + off;
                    bool present = model.find(k) != model.end();
                    if (!use_find) {
                        bool r = t.exists(k);
                        PBT_CHECK(r == present, "C17/splay-exists", "exists(" << k << ") returned " << r << " with the key " << (present ? "present" : "absent") << "; " << model.size() << " keys stored");
                    } else {
                        int key = 0;
                        const void* node = nullptr;
                        int r = t.find(k, &key, &node);
                        if (present) PBT_CHECK(r == 1 && key == k, "C17/splay-find", "find(" << k << ") did not return a node with that key although it is stored (got " << (r ? std::to_string(key) : std::string("nullptr")) << ")");
                        else PBT_CHECK(r == 0 || key != k, "C17/splay-find", "find(" << k << ") returned a node with key " << k << " although it is not stored");
                        if (model.empty()) PBT_CHECK(r == 0, "C17/splay-find", "find(" << k << ") on an empty tree returned a node");
                        if (r && (i == 0 || i + 1 == w.len)) node_of_tree(node, k);
                    }
                    step_check(use_find ? "find" : "exists", k);
                }
                break;
            }
            default: { // erase(const Node*) with whatever node find(k) returned
                PBT_LOG("erase(find()) " << w.len << " keys (+" << off << ") of window [" << w.a << "," << w.a + w.len << ") in " << PAT[w.pat] << " order\n");
                pbt::label(L_ERA[w.pat]);
                pbt::label("erase_node_run");
                for (size_t i = 0; i < w.len; ++i) {
                    int k = u.key(w.a + w.order[i]) + off;
                    bool present = model.find(k) != model.end();
                    int key = 0;
                    int r = t.erase_node(k, &key);
                    if (r < 0) {
                        PBT_CHECK(model.empty(), "C17/splay-find", "find(" << k << ") returned nullptr on a tree of " << model.size() << " keys");
                    } else {
                        PBT_CHECK(model.find(key) != model.end(), "C17/splay-find", "find(" << k << ") returned a node with key " << key << " which is not stored");
                        PBT_CHECK(r == 1, "C17/splay-erase", "erase(node with key " << key << ") returned false");
                        if (present) PBT_CHECK(key == k, "C17/splay-find", "find(" << k << ") returned key " << key << " although " << k << " is stored");
                        erase_one(key);
                    }
                    step_check("erase(find)", k);
                }
                break;
            }
            }
            checkpoint("phase");
        }
        if (deep && phases >= 2) pbt::nontrivial();
        if (src.boolean()) {
            // erase everything key by key before destruction, in a drawn order
            std::vector<int> keys = sorted_model();
            unsigned pat = (unsigned)src.weighted({2, 2, 1, 1, 1, 0, 2});
            std::vector<size_t> order = pattern(pat, keys.size(), 1, rng);
            PBT_LOG("final erase of " << keys.size() << " keys in " << PAT[pat] << " order\n");
            pbt::label("final_erase_all");
            for (size_t i : order) {
                PBT_CHECK(t.erase(keys[i]), "C17/splay-erase", "final erase(" << keys[i] << ") returned false");
                erase_one(keys[i]);
                step_check("final erase", keys[i]);
            }
            checkpoint("final erase");
        } else if (model.size() >= 513) pbt::label("dtor@size>=513");
    }
    // destructor ran: every node freed exactly once (double frees are reported by the allocator ledger / ASan)
    PBT_CHECK(verif::AllocLedger::get().live_count() == 0, "C17/splay-nodes", verif::AllocLedger::get().live_count() << " nodes not freed by the destructor");
    if (tracked) PBT_CHECK(verif::Ledger::get().live_count() == 0, "C17/splay-keys-alive", verif::Ledger::get().live_count() << " key objects alive after destruction");
}

/******************************************************************************/
// LRU caches

typedef std::list<std::pair<int, int>> Ref;

template <class K, bool IsMap>
struct CacheOps;
template <class K>
struct CacheOps<K, false> {
    typedef tlx::LruCacheSet<K, verif::CountingAllocator<K>> Cache;
    static void put(Cache& c, int k, int) { c.put(K(k)); }
    static std::pair<int, int> pop(Cache& c, int v_expected) {
        K k = c.pop();
        return std::make_pair(val(k), v_expected);
    }
};
template <class K>
struct CacheOps<K, true> {
    typedef tlx::LruCacheMap<K, K, verif::CountingAllocator<std::pair<K, K>>> Cache;
    static void put(Cache& c, int k, int v) { c.put(K(k), K(v)); }
    static std::pair<int, int> pop(Cache& c, int) {
        std::pair<K, K> p = c.pop();
        return std::make_pair(val(p.first), val(p.second));
    }
};
template <class Cache, class K>
int get_value(Cache& c, int k, bool touch, std::true_type) {
    return touch ? val(c.get_touch(K(k))) : val(c.get(K(k)));
}
template <class Cache, class K>
int get_value(Cache&, int, bool, std::false_type) {
    return 0;
}

template <class K, bool IsMap>
void lru_scale_history(pbt::Source& src) {
    typedef CacheOps<K, IsMap> Ops;
    typedef typename Ops::Cache Cache;
    verif::Ledger::get().reset();
    verif::AllocLedger::get().reset();
    const Universe u = draw_keys(src);
    Rng rng{(uint64_t)src.bits(2)};
    label_universe(u.U);
    PBT_LOG("universe: " << u.U << " keys " << u.base << " + " << u.stride << "*i\n");
    {
        Cache c;
        Ref ref;                                     // front = most recently put / touched
        std::unordered_map<int, Ref::iterator> pos;  // index of the reference list
        bool reordered = false, popped_after = false;
        size_t peak = 0, steps = 0;
        int nextv = 0;
        auto to_front = [&](Ref::iterator it) {
            if (it != ref.begin()) reordered = true;
            ref.splice(ref.begin(), ref, it);
        };
        auto step_check = [&](const char* after, int k) {
            ++steps;
            PBT_CHECK(c.size() == ref.size(), "C17/lru-size", "after " << after << "(" << k << "): size() " << c.size() << " but the reference holds " << ref.size() << " entries");
            if (ref.size() > peak) peak = ref.size();
        };
        auto checkpoint = [&](const char* after) {
            PBT_CHECK(c.size() == ref.size(), "C17/lru-size", "after " << after << ": size() " << c.size() << " but the reference holds " << ref.size() << " entries");
            const Cache& cc = c;
            for (size_t i = 0; i <= u.U; ++i) { // key(U) is never stored
                int k = u.key(i);
                bool want = pos.count(k) > 0;
                PBT_CHECK(cc.exists(K(k)) == want, "C17/lru-exists", "after " << after << ": exists(" << k << ") = " << cc.exists(K(k)) << " but the reference says " << want << " (" << ref.size() << " entries)");
            }
            if (u.stride > 1) PBT_CHECK(!cc.exists(K(u.key(0) + 1)), "C17/lru-exists", "after " << after << ": exists(" << u.key(0) + 1 << ") although that key was never stored");
            if (ref.size() >= 513) pbt::label("size>=513");
            if (ref.size() >= 2049) pbt::label("size>=2049");
            PBT_LOG("  checkpoint: " << ref.size() << " entries\n");
        };
        auto pop_one = [&](const char* what) {
            std::pair<int, int> want = ref.back();
            std::pair<int, int> got = Ops::pop(c, want.second);
            PBT_CHECK(got == want, "C17/lru-pop-order",
                      what << ": pop() returned " << got.first << ":" << got.second << " but the least recently used entry is " << want.first << ":" << want.second << " (" << ref.size() << " entries)");
            pos.erase(want.first);
            ref.pop_back();
        };

        unsigned phases = 0;
        checkpoint("construction");
        while (src.more() && phases < 10 && steps < 40000) {
            ++phases;
            unsigned op = (unsigned)src.weighted({8, 5, 3, 2, 2, 1});
            if (op == 5) {
                PBT_LOG("clear() [" << ref.size() << " entries]\n");
                if (ref.size() >= 513) pbt::label("clear@size>=513");
                c.clear();
                ref.clear();
                pos.clear();
                pbt::label("clear");
                checkpoint("clear");
                continue;
            }
            if (op == 2) { // run of pop
                if (ref.empty()) continue;
                size_t n = ref.size(), len;
                switch (src.weighted({2, 2, 2, 1})) {
                case 0: len = 1 + src.index(std::min<size_t>(n, 9)); break;
                case 1: len = (n + 1) / 2; break;
                case 2: len = n; break;
                default: len = 1 + src.index(n); break;
                }
                PBT_LOG("pop " << len << " of " << n << " entries\n");
                if (reordered) popped_after = true, pbt::label("pop_after_reorder");
                for (size_t i = 0; i < len; ++i) {
                    pop_one("pop run");
                    step_check("pop", 0);
                }
                pbt::label(len >= 64 ? "pop_run>=64" : "pop_run");
                checkpoint("pop run");
                continue;
            }
            Window w = draw_window(src, u.U, rng);
            int off = (op != 0 && src.chance(32)) ? 1 : 0;
            if (ref.empty() && op != 0) pbt::label("op_on_empty");
            switch (op) {
            case 0: {
                PBT_LOG("put " << w.len << " keys of window [" << w.a << "," << w.a + w.len << ") in " << PAT[w.pat] << " order\n");
                pbt::label(L_INS[w.pat]);
                bool replaced = false;
                for (size_t i = 0; i < w.len; ++i) {
                    int k = u.key(w.a + w.order[i]);
                    int v = IsMap ? (nextv = (nextv + 1) % 1000) : 0;
                    Ops::put(c, k, v);
                    auto it = pos.find(k);
                    if (it != pos.end()) {
                        if (it->second != ref.begin()) reordered = true;
                        ref.erase(it->second);
                        replaced = true;
                    }
                    ref.emplace_front(k, v);
                    pos[k] = ref.begin();
                    step_check("put", k);
                }
                if (replaced) pbt::label("put_replace");
                break;
            }
            case 1: { // touch / touch_if_exists / get_touch
                unsigned how = (unsigned)src.range(0, IsMap ? 2 : 1);
                PBT_LOG((how == 0 ? "touch " : how == 1 ? "touch_if_exists " : "get_touch ") << w.len << " keys (+" << off << ") of window [" << w.a << "," << w.a + w.len << ") in " << PAT[w.pat] << " order\n");
                pbt::label(L_TCH[w.pat]);
                pbt::label(how == 0 ? "touch_run" : how == 1 ? "touch_if_exists_run" : "get_touch_run");
                for (size_t i = 0; i < w.len; ++i) {
                    int k = u.key(w.a + w.order[i]) + off;
                    auto it = pos.find(k);
                    bool present = it != pos.end();
                    if (how == 1) {
                        bool r = c.touch_if_exists(K(k));
                        PBT_CHECK(r == present, "C17/lru-touch_if_exists", "touch_if_exists(" << k << ") = " << r << " with the key " << (present ? "present" : "absent"));
                    } else {
                        bool threw = false;
                        int v = 0;
                        try {
                            if (how == 0) c.touch(K(k));
                            else v = get_value<Cache, K>(c, k, true, std::integral_constant<bool, IsMap>());
                        } catch (const std::range_error&) {
                            threw = true;
                        }
                        PBT_CHECK(threw == !present, "C17/lru-exception", (how == 0 ? "touch(" : "get_touch(") << k << ") " << (threw ? "threw" : "did not throw") << " std::range_error with the key " << (present ? "present" : "absent"));
                        if (present && how == 2) PBT_CHECK(v == it->second->second, "C17/lru-value", "get_touch(" << k << ") = " << v << " but the latest value is " << it->second->second);
                    }
                    if (present) to_front(it->second);
                    else pbt::label("touch_absent");
                    step_check("touch", k);
                }
                break;
            }
            case 3: { // erase / erase_if_exists
                bool if_exists = src.boolean();
                PBT_LOG((if_exists ? "erase_if_exists " : "erase ") << w.len << " keys (+" << off << ") of window [" << w.a << "," << w.a + w.len << ") in " << PAT[w.pat] << " order\n");
                pbt::label(L_ERA[w.pat]);
                for (size_t i = 0; i < w.len; ++i) {
                    int k = u.key(w.a + w.order[i]) + off;
                    auto it = pos.find(k);
                    bool present = it != pos.end();
                    if (if_exists) {
                        bool r = c.erase_if_exists(K(k));
                        PBT_CHECK(r == present, "C17/lru-erase_if_exists", "erase_if_exists(" << k << ") = " << r << " with the key " << (present ? "present" : "absent"));
                    } else {
                        bool threw = false;
                        try {
                            c.erase(K(k));
                        } catch (const std::range_error&) {
                            threw = true;
                        }
                        PBT_CHECK(threw == !present, "C17/lru-exception", "erase(" << k << ") " << (threw ? "threw" : "did not throw") << " std::range_error with the key " << (present ? "present" : "absent"));
                    }
                    if (present) {
                        ref.erase(it->second);
                        pos.erase(it);
                    }
                    step_check("erase", k);
                }
                break;
            }
            default: { // get (no reordering)
                if (!IsMap) continue;
                PBT_LOG("get " << w.len << " keys (+" << off << ") of window [" << w.a << "," << w.a + w.len << ") in " << PAT[w.pat] << " order\n");
                pbt::label(L_QRY[w.pat]);
                for (size_t i = 0; i < w.len; ++i) {
                    int k = u.key(w.a + w.order[i]) + off;
                    auto it = pos.find(k);
                    bool present = it != pos.end();
                    bool threw = false;
                    int v = 0;
                    try {
                        v = get_value<Cache, K>(c, k, false, std::integral_constant<bool, IsMap>());
                    } catch (const std::range_error&) {
                        threw = true;
                    }
                    PBT_CHECK(threw == !present, "C17/lru-exception", "get(" << k << ") " << (threw ? "threw" : "did not throw") << " std::range_error with the key " << (present ? "present" : "absent"));
                    if (present) PBT_CHECK(v == it->second->second, "C17/lru-value", "get(" << k << ") = " << v << " but the latest value is " << it->second->second);
                    step_check("get", k);
                }
                break;
            }
            }
            checkpoint("phase");
        }
        // drain: the complete recency order
        PBT_LOG("drain " << ref.size() << " entries\n");
        if (ref.size() >= 513) pbt::label("drain@size>=513");
        if (reordered && !ref.empty()) popped_after = true;
        while (!ref.empty()) {
            pop_one("drain");
            step_check("drain pop", 0);
        }
        PBT_CHECK(c.size() == 0, "C17/lru-size", "size() " << c.size() << " after draining the reference");
        if (peak >= 64 && popped_after) pbt::nontrivial();
    }
    PBT_CHECK(verif::Ledger::get().live_count() == 0, "C17/lru-leak", verif::Ledger::get().live_count() << " key/value objects alive after the cache was destroyed");
    PBT_CHECK(verif::AllocLedger::get().live_count() == 0, "C17/lru-leak", verif::AllocLedger::get().live_count() << " blocks not freed after the cache was destroyed");
}

} // namespace

PBT_PROPERTY(splay_scale) {
    unsigned kind = (unsigned)src.range(0, 7);
    static const char* const L[] = {"set/less/int",     "multiset/less/int",     "set/greater/int",     "multiset/greater/int",
                                    "set/less/Tracked", "multiset/less/Tracked", "set/greater/Tracked", "multiset/greater/Tracked"};
    pbt::label(L[kind]);
    PBT_LOG("SplayTree " << L[kind] << "\n");
    splay_scale_history(src, kind);
}

PBT_PROPERTY(lru_scale) {
    unsigned kind = (unsigned)src.range(0, 3);
    switch (kind) {
    case 0:
        pbt::label("LruCacheSet<int>");
        PBT_LOG("LruCacheSet<int>\n");
        return lru_scale_history<int, false>(src);
    case 1:
        pbt::label("LruCacheMap<int,int>");
        PBT_LOG("LruCacheMap<int,int>\n");
        return lru_scale_history<int, true>(src);
    case 2:
        pbt::label("LruCacheSet<Tracked>");
        PBT_LOG("LruCacheSet<Tracked>\n");
        return lru_scale_history<Tracked, false>(src);
    default:
        pbt::label("LruCacheMap<Tracked,Tracked>");
        PBT_LOG("LruCacheMap<Tracked,Tracked>\n");
        return lru_scale_history<Tracked, true>(src);
    }
}
