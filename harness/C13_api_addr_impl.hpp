// C13 (api, part 2) — tlx::DAryAddressableIntHeap: the parts of the public interface the other addressable targets
// do not reach.
//   * DEFAULT template arguments (DAryAddressableIntHeap<K>: arity 2, std::less<K>), default constructor argument,
//     the alias tlx::d_ary_addressable_int_heap; arities 9, 13, 16, 64; key types uint8_t / uint16_t / uint32_t /
//     uint64_t / unsigned long long; comparators: function pointer, closure (construction only), pointer-table functor
//   * capacity() (never called elsewhere): >= size() always, >= n after reserve(n) on a freshly constructed heap
//   * push() with const lvalue / NON-CONST lvalue (left intact) / rvalue
//   * build_heap(first, last) with a true single-pass InputIterator and with a pointer sub-range, (const vector&),
//     (vector&&), all also on non-empty heaps; reserve() mid-history
//   * every observer (size, empty, capacity, top, contains) through a const reference
//   * FORKS: copies / moved-to / swapped heaps used SIDE BY SIDE with their source, each with its own key-set model;
//     all heaps share ONE external priority table: after prio[k] changed, update(k) is called on every heap that
//     holds k (and update_all() on every heap after several changes), as the documentation of update() demands
// Oracle = the one of target addressable: size, empty, contains() for every key of the universe (+3 and probes
// beyond), top() stored and minimal under the model order, sanity_check(), drain non-decreasing and a permutation.
#pragma once
#include "../engine/pbt.hpp"

#include <algorithm>
#include <cstdint>
#include <functional>
#include <limits>
#include <sstream>
#include <type_traits>
#include <vector>

#include <tlx/container/d_ary_addressable_int_heap.hpp>

#include "C13_api_impl.hpp"

namespace {

//! priority table read by the function-pointer comparator (set at the top of every case)
const std::vector<int>* g_prio = nullptr;
template <class K>
bool fn_prio_less(K a, K b) {
    return (*g_prio)[(size_t)a] < (*g_prio)[(size_t)b];
}
template <class K>
struct TableCmp {
    const std::vector<int>* prio;
    bool operator()(K a, K b) const { return (*prio)[(size_t)a] < (*prio)[(size_t)b]; }
};

template <class V>
std::string show(const V& v) {
    std::ostringstream os;
    os << "{";
    size_t n = 0;
    for (auto x : v) {
        if (n == 40) {
            os << ",...";
            break;
        }
        os << (n++ ? "," : "") << (unsigned long long)x;
    }
    os << "}";
    return os.str();
}

struct KeySet {
    std::vector<char> present;
    size_t n = 0;
};

enum { ORD_LESS = 0, ORD_GREATER = 1, ORD_TABLE = 2 };

template <class Heap, class Fresh>
void history(pbt::Source& src, int ord, size_t U, std::vector<int>& prio, Fresh fresh, size_t arity, const char* name) {
    typedef typename Heap::key_type Key;
    typedef c13api::Slot<Heap, KeySet> S;
    constexpr bool ASSIGNABLE = std::is_copy_assignable<typename Heap::compare_type>::value;
    const bool table = ord == ORD_TABLE;
    PBT_LOG(name << " U=" << U << (table ? " prio=" + show(prio) : std::string()) << "\n");
    PBT_CHECK(Heap::arity == arity, "C13/addr-config", name << ": static member arity is " << Heap::arity << ", expected " << arity);
    auto mless = [&](size_t a, size_t b) { return ord == ORD_LESS ? a < b : ord == ORD_GREATER ? a > b : prio[a] < prio[b]; };

    std::vector<std::unique_ptr<S>> slots;
    auto new_slot = [&](Heap&& h, const KeySet* m) {
        S* s = new S{std::move(h), KeySet()}; // (Heap is move-constructed here once more)
        if (m) s->m = *m;
        else s->m.present.assign(U, 0);
        slots.emplace_back(s);
    };
    new_slot(fresh(), nullptr);

    auto members = [&](const KeySet& m) {
        std::vector<size_t> v;
        for (size_t k = 0; k < U; ++k)
            if (m.present[k]) v.push_back(k);
        return v;
    };
    auto is_min = [&](const KeySet& m, size_t t) {
        for (size_t k = 0; k < U; ++k)
            if (m.present[k] && mless(k, t)) return false;
        return true;
    };
    auto set_model = [&](KeySet& m, const std::vector<size_t>& v) {
        std::fill(m.present.begin(), m.present.end(), 0);
        for (size_t k : v) m.present[k] = 1;
        m.n = v.size();
    };
    const Key NOT_PRESENT = static_cast<Key>(-1);
    const Key BEYOND[3] = {(Key)(NOT_PRESENT - 1), NOT_PRESENT, (Key)(std::numeric_limits<Key>::max() / 2)};
    auto check = [&](S& s, size_t idx, const char* after) {
        const Heap& ch = s.h; // all observers through a const reference
        PBT_CHECK(ch.size() == s.m.n, "C13/addr-size", "heap #" << idx << " after " << after << ": size() " << ch.size() << " but model has " << s.m.n << " " << show(members(s.m)));
        PBT_CHECK(ch.empty() == (s.m.n == 0), "C13/addr-empty", "heap #" << idx << " after " << after << ": empty() " << ch.empty() << ", model size " << s.m.n);
        PBT_CHECK(ch.capacity() >= ch.size(), "C13/addr-capacity", "heap #" << idx << " after " << after << ": capacity() " << ch.capacity() << " < size() " << ch.size());
        for (size_t k = 0; k < U + 3 && k < (size_t)NOT_PRESENT; ++k) {
            bool want = k < U && s.m.present[k];
            PBT_CHECK(ch.contains((Key)k) == want, "C13/addr-contains",
                      "heap #" << idx << " after " << after << ": contains(" << k << ") = " << ch.contains((Key)k) << " but model says " << want << "; model " << show(members(s.m)));
        }
        for (Key k : BEYOND)
            if ((size_t)k >= U) PBT_CHECK(!ch.contains(k), "C13/addr-contains", "heap #" << idx << " after " << after << ": contains(" << (unsigned long long)k << ") true for a key never inserted");
        if (s.m.n) {
            const Key& tr = ch.top();
            size_t t = (size_t)tr;
            PBT_CHECK(t < U && s.m.present[t], "C13/addr-top-member", "heap #" << idx << " after " << after << ": top() = " << t << " is not stored; model " << show(members(s.m)));
            PBT_CHECK(is_min(s.m, t), "C13/addr-top-min", "heap #" << idx << " after " << after << ": top() = " << t << " is not minimal; model " << show(members(s.m)) << (table ? " prio " + show(prio) : std::string()));
        }
        PBT_CHECK(s.h.sanity_check(), "C13/addr-sanity", "heap #" << idx << " after " << after << ": sanity_check() false; model " << show(members(s.m)));
    };
    auto check_all = [&](const char* after) {
        for (size_t i = 0; i < slots.size(); ++i) check(*slots[i], i, after);
    };
    auto drain = [&](S& s, size_t idx) {
        bool have_prev = false;
        size_t prev = 0;
        PBT_LOG("drain #" << idx << ":");
        while (s.m.n) {
            PBT_CHECK(!s.h.empty(), "C13/addr-size", "heap #" << idx << " empty during drain but model still has " << show(members(s.m)));
            size_t t = (size_t)s.h.extract_top();
            PBT_LOG(" " << t);
            PBT_CHECK(t < U && s.m.present[t], "C13/addr-drain-perm", "heap #" << idx << ": drain produced " << t << " which is not (any more) in the model " << show(members(s.m)));
            s.m.present[t] = 0, --s.m.n;
            PBT_CHECK(!have_prev || !mless(t, prev), "C13/addr-drain-order", "heap #" << idx << ": drain produced " << t << " after " << prev);
            const Heap& ch = s.h;
            PBT_CHECK(!ch.contains((Key)t), "C13/addr-contains", "heap #" << idx << ": contains(" << t << ") still true after it was extracted");
            prev = t;
            have_prev = true;
        }
        PBT_LOG("\n");
        PBT_CHECK(s.h.empty() && s.h.size() == 0, "C13/addr-size", "heap #" << idx << " not empty after draining the model: size " << s.h.size());
    };
    auto drop = [&](size_t j) {
        PBT_LOG("drop heap #" << j << "\n");
        check(*slots[j], j, "before drop");
        drain(*slots[j], j);
        slots.erase(slots.begin() + (std::ptrdiff_t)j);
    };
    auto pick = [&](const KeySet& m, bool want_present, bool* ok) -> size_t {
        std::vector<size_t> c;
        for (size_t k = 0; k < U; ++k)
            if ((m.present[k] != 0) == want_present) c.push_back(k);
        *ok = !c.empty();
        return c.empty() ? 0 : c[src.index(c.size())];
    };
    //! distinct keys of the universe in a generated order
    auto gen_keys = [&]() {
        std::vector<size_t> v;
        std::vector<char> used(U, 0);
        if (src.chance(64)) {
            size_t n = (size_t)src.range(0, (int64_t)U), a = src.index(U), step = 1 + src.index(U);
            for (size_t k : c13api::bulk_indices(n, a, step, U))
                if (!used[k]) used[k] = 1, v.push_back(k);
            pbt::label("keys_bulk");
        } else {
            size_t n = (size_t)src.range(0, (int64_t)std::min<size_t>(U, 14));
            for (size_t i = 0; i < n; ++i) {
                size_t k = src.index(U);
                if (!used[k]) used[k] = 1, v.push_back(k);
            }
        }
        return v;
    };
    auto push_key = [&](S& s, size_t k, unsigned cat) {
        if (cat == 0) {
            const Key v = (Key)k;
            s.h.push(v);
        } else if (cat == 1) {
            Key v = (Key)k;
            s.h.push(v);
            PBT_CHECK(v == (Key)k, "C13/addr-push-arg", "push() of a non-const lvalue changed the caller's object: " << k << " became " << (unsigned long long)v);
        } else {
            Key v = (Key)k;
            s.h.push(std::move(v));
        }
        s.m.present[k] = 1, ++s.m.n;
    };
    auto other = [&](size_t si) -> size_t {
        if (slots.size() == 1) {
            new_slot(fresh(), nullptr);
            size_t n = (size_t)src.range(0, 3);
            for (size_t i = 0; i < n; ++i) {
                size_t k = src.index(U);
                if (!slots.back()->m.present[k]) push_key(*slots.back(), k, 0);
            }
            return 1;
        }
        size_t j = src.index(slots.size() - 1);
        return j >= si ? j + 1 : j;
    };
    auto make_room = [&](size_t si) -> size_t {
        if (slots.size() < c13api::MAX_SLOTS) return si;
        size_t j = (si + 1) % slots.size();
        drop(j);
        return j < si ? si - 1 : si;
    };

    bool nt = false;
    unsigned nops = 0;
    check_all("construction");
    while (src.more() && nops < 200) {
        ++nops;
        unsigned op = (unsigned)src.weighted({9, 4, 3, 7, 1, 4, 2, 3, 5, 2});
        size_t si = src.index(slots.size());
        S* s = slots[si].get();
        if (slots.size() > 1) PBT_LOG("#" << si << ": ");
        switch (op) {
        case 0: {
            bool ok;
            size_t k = pick(s->m, false, &ok);
            if (!ok) { PBT_LOG("(skipped)\n"); continue; }
            unsigned cat = (unsigned)src.range(0, 2);
            static const char* const PL[3] = {"push_const_lvalue", "push_nonconst_lvalue", "push_rvalue"};
            PBT_LOG(PL[cat] << " " << k << "\n");
            push_key(*s, k, cat);
            pbt::label(PL[cat]);
            break;
        }
        case 1: {
            bool ok;
            size_t k = pick(s->m, true, &ok);
            if (!ok) { PBT_LOG("(skipped)\n"); continue; }
            PBT_LOG("remove(" << k << ")\n");
            s->h.remove((Key)k);
            s->m.present[k] = 0, --s->m.n;
            if (s->m.n >= 3) nt = true;
            pbt::label("remove");
            break;
        }
        case 2: {
            if (!s->m.n) { PBT_LOG("(skipped)\n"); continue; }
            if (src.boolean()) {
                const Heap& ch = s->h;
                size_t t = (size_t)ch.top();
                PBT_LOG("pop() [top " << t << "]\n");
                s->h.pop();
                PBT_CHECK(t < U && s->m.present[t], "C13/addr-top-member", "top() " << t << " not in model " << show(members(s->m)));
                s->m.present[t] = 0, --s->m.n;
                pbt::label("pop");
            } else {
                size_t t = (size_t)s->h.extract_top();
                PBT_LOG("extract_top() -> " << t << "\n");
                PBT_CHECK(t < U && s->m.present[t], "C13/addr-extract-member", "extract_top() returned " << t << " which is not stored; model " << show(members(s->m)));
                PBT_CHECK(is_min(s->m, t), "C13/addr-extract-min", "extract_top() returned " << t << " which is not minimal; model " << show(members(s->m)));
                s->m.present[t] = 0, --s->m.n;
                pbt::label("extract_top");
            }
            if (s->m.n >= 3) nt = true;
            break;
        }
        case 3: {
            // update(k): after one priority change (every heap holding k is told), or of an absent key (= push)
            bool ok;
            size_t k = (s->m.n && src.chance(170)) ? pick(s->m, true, &ok) : src.index(U);
            if (table) {
                int p = (int)src.range(0, 6);
                PBT_LOG("prio[" << k << "] " << prio[k] << " -> " << p << "; ");
                if (s->m.present[k] && p != prio[k] && s->m.n >= 2) nt = true, pbt::label(p < prio[k] ? "update_lowered" : "update_raised");
                bool changed = p != prio[k];
                prio[k] = p;
                if (changed)
                    for (size_t j = 0; j < slots.size(); ++j)
                        if (j != si && slots[j]->m.present[k]) {
                            PBT_LOG("#" << j << ".update(" << k << "); ");
                            slots[j]->h.update((Key)k);
                            pbt::label("update_in_other_heap");
                        }
            }
            PBT_LOG("update(" << k << ")" << (s->m.present[k] ? "" : " [absent: push]") << "\n");
            if (!s->m.present[k]) pbt::label("update_absent");
            s->h.update((Key)k);
            if (!s->m.present[k]) s->m.present[k] = 1, ++s->m.n;
            pbt::label("update");
            break;
        }
        case 4:
            PBT_LOG("clear()\n");
            s->h.clear();
            set_model(s->m, {});
            pbt::label("clear");
            break;
        case 5: {
            unsigned how = (unsigned)src.range(0, 3);
            std::vector<size_t> ks = gen_keys();
            static const char* const BL[4] = {"build_input_iter", "build_ptr_subrange", "build_const_vector", "build_move_vector"};
            PBT_LOG(BL[how] << " " << show(ks) << (s->m.n ? " on non-empty" : "") << "\n");
            if (s->m.n) pbt::label("build_nonempty"), nt = true;
            std::vector<Key> v;
            for (size_t k : ks) v.push_back((Key)k);
            const std::vector<Key> orig(v);
            if (how == 0) {
                c13api::InStream<Key> st(v);
                s->h.build_heap(c13api::InIt<Key>(&st), c13api::InIt<Key>());
                PBT_CHECK(st.pos == v.size(), "C13/addr-build-source", "build_heap(first, last) consumed " << st.pos << " of " << v.size() << " elements of its input range");
            } else if (how == 1) {
                std::vector<Key> w;
                w.push_back(NOT_PRESENT); // elements outside the range: never looked at
                w.push_back(NOT_PRESENT);
                w.insert(w.end(), v.begin(), v.end());
                w.push_back(NOT_PRESENT);
                const Key* first = w.data() + 2;
                s->h.build_heap(first, first + v.size());
                PBT_CHECK(w[0] == NOT_PRESENT && w[1] == NOT_PRESENT && w.back() == NOT_PRESENT && std::equal(v.begin(), v.end(), w.begin() + 2), "C13/addr-build-source", "build_heap(first, last) changed its source array");
            } else if (how == 2) {
                const std::vector<Key>& cv = v;
                s->h.build_heap(cv);
                PBT_CHECK(v == orig, "C13/addr-build-source", "build_heap(const vector&) changed its source");
            } else {
                s->h.build_heap(std::move(v));
                v.clear();
                v.push_back(0);
            }
            set_model(s->m, ks);
            pbt::label(BL[how]);
            break;
        }
        case 6: {
            if (table) {
                size_t n = (size_t)src.range(0, 4);
                for (size_t i = 0; i < n; ++i) {
                    size_t k = src.index(U);
                    int p = (int)src.range(0, 6);
                    PBT_LOG("prio[" << k << "] = " << p << "\n");
                    if (prio[k] != p && s->m.present[k]) pbt::label("update_all_changed"), nt = true;
                    prio[k] = p;
                }
            }
            PBT_LOG("update_all() on every heap\n");
            for (auto& p : slots) p->h.update_all(); // the table is shared: every heap has to be told
            pbt::label("update_all");
            break;
        }
        case 7: {
            size_t n = (size_t)src.range(0, (int64_t)U + 2); // never beyond the checked key range
            PBT_LOG("reserve(" << n << ")" << (s->m.n ? " mid-history" : "") << "\n");
            s->h.reserve(n);
            pbt::label(s->m.n ? "reserve_nonempty" : "reserve_empty");
            break;
        }
        case 8: {
            unsigned how = (unsigned)src.range(0, 6);
            if (!ASSIGNABLE) how = how == 1 ? 0 : how == 3 ? 2 : how == 4 ? 5 : how;
            switch (how) {
            case 0: {
                si = make_room(si), s = slots[si].get();
                PBT_LOG("fork: copy-construct heap #" << slots.size() << " from #" << si << "\n");
                const Heap& csrc = s->h;
                new_slot(Heap(csrc), &s->m);
                pbt::label("fork_copy_ctor");
                break;
            }
            case 1: {
                size_t j = other(si);
                PBT_LOG("fork: copy-assign #" << j << " = #" << si << " (destination holds " << slots[j]->m.n << ", source " << s->m.n << ")\n");
                if (slots[j]->m.n > s->m.n && s->m.n) pbt::label("fork_copy_assign_over_larger");
                if constexpr (ASSIGNABLE) {
                    const Heap& csrc = s->h;
                    slots[j]->h = csrc;
                }
                slots[j]->m = s->m;
                pbt::label("fork_copy_assign");
                break;
            }
            case 2: {
                si = make_room(si), s = slots[si].get();
                PBT_LOG("fork: move-construct heap #" << slots.size() << " from #" << si << "; #" << si << ".clear()\n");
                new_slot(Heap(std::move(s->h)), &s->m);
                s->h.clear(); // clear() resets both arrays of a moved-from heap
                set_model(s->m, {});
                pbt::label("fork_move_ctor");
                break;
            }
            case 3: {
                size_t j = other(si);
                PBT_LOG("fork: move-assign #" << j << " = std::move(#" << si << "); #" << si << ".clear()\n");
                if constexpr (ASSIGNABLE) slots[j]->h = std::move(s->h);
                slots[j]->m = s->m;
                s->h.clear();
                set_model(s->m, {});
                pbt::label("fork_move_assign");
                break;
            }
            case 4: {
                size_t j = other(si);
                PBT_LOG("fork: std::swap(#" << si << ", #" << j << ")\n");
                if constexpr (ASSIGNABLE) std::swap(s->h, slots[j]->h);
                std::swap(s->m, slots[j]->m);
                pbt::label("fork_swap");
                break;
            }
            case 5: {
                if (slots.size() < 2) { PBT_LOG("(skipped)\n"); continue; }
                drop(other(si));
                pbt::label("fork_drop");
                break;
            }
            default: {
                si = make_room(si);
                size_t n = (size_t)src.range(1, (int64_t)U + 2);
                PBT_LOG("new heap #" << slots.size() << " with reserve(" << n << ")\n");
                Heap f = fresh();
                f.reserve(n);
                const Heap& cf = f;
                PBT_CHECK(cf.capacity() >= n && cf.empty(), "C13/addr-reserve", "freshly constructed heap: capacity() " << cf.capacity() << " after reserve(" << n << "), size " << cf.size());
                new_slot(std::move(f), nullptr);
                pbt::label("fork_fresh_reserve");
                break;
            }
            }
            if (slots.size() >= 2) pbt::label("heaps>=2");
            break;
        }
        default: {
            // bulk push of absent keys (value categories alternate)
            size_t n = (size_t)src.range(1, 80), a = src.index(U), step = 1 + src.index(U);
            PBT_LOG("bulk push of up to " << n << " absent keys\n");
            for (size_t k : c13api::bulk_indices(n, a, step, U))
                if (!s->m.present[k]) push_key(*s, k, (unsigned)(k % 3));
            pbt::label("bulk_push");
            break;
        }
        }
        check_all("op");
        for (auto& p : slots) {
            if (p->m.n > arity + 1) pbt::label("size>arity+1");
            if (p->m.n > arity * arity + arity + 1) pbt::label("size>arity^2+arity+1");
        }
    }
    for (size_t i = 0; i < slots.size(); ++i) drain(*slots[i], i);
    if (nt) pbt::nontrivial();
}

} // namespace
