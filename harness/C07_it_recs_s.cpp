// C07 — target pmerge_iters: element type RecS, Stable = true, iterator kinds 0, 1 (deque / reverse inputs), owning comparator
#include "C07_common.hpp"

namespace c07 {
void run_it_recs_s(pbt::Source& src, const Cfg& cfg, int kind) { run_iters<RecS, true>(src, cfg, kind); }
} // namespace c07
