// C07 — instantiation: element type int, Stable = true
#include "C07_common.hpp"

namespace c07 {
void run_int_s(pbt::Source& src, const Cfg& cfg) { run_case<int, true>(src, cfg); }
} // namespace c07
