// C13 (part 2, scale classes) — type-erased wrapper around tlx::DAryAddressableIntHeap<K, Arity, Compare> for the
// key types K in {uint8_t, uint16_t, uint32_t, uint64_t} (the class static_asserts an unsigned integer type).  Keys
// cross the interface as uint64_t, so the history in C13_addressable_scale.cpp is compiled once; the 4 x 8 x 3
// instantiations are thin forwarders, one TU per key type (C13_addressable_k*.cpp).
#pragma once
#include <cstddef>
#include <cstdint>
#include <functional>
#include <vector>

#include <tlx/container/d_ary_addressable_int_heap.hpp>

namespace c13 {

typedef uint64_t SKey;

//! comparator reading priorities from an external table (keys are indices)
template <class K>
struct SPrioCmp {
    const std::vector<int>* prio;
    bool operator()(K a, K b) const { return (*prio)[(size_t)a] < (*prio)[(size_t)b]; }
};

struct IAddrS {
    virtual ~IAddrS() {}
    virtual void push(SKey k) = 0;      // push(const key_type&)
    virtual void push_move(SKey k) = 0; // push(key_type&&)
    virtual void remove(SKey k) = 0;
    virtual SKey top() = 0;
    virtual void pop() = 0;
    virtual SKey extract_top() = 0;
    virtual void update(SKey k) = 0;
    virtual bool contains(SKey k) = 0;
    virtual void clear() = 0;
    virtual size_t size() = 0;
    virtual bool empty() = 0;
    virtual void reserve(size_t n) = 0;
    virtual void build(unsigned how, const std::vector<SKey>& v) = 0; // 0 (first,last), 1 const vector&, 2 vector&&
    virtual void update_all() = 0;
    virtual bool sanity_check() = 0;
    virtual void copy_move(unsigned how, SKey extra) = 0;
};

template <class K, unsigned A, class Cmp>
struct AddrSImpl : IAddrS {
    typedef tlx::DAryAddressableIntHeap<K, A, Cmp> Heap;
    Cmp cmp;
    Heap h;
    explicit AddrSImpl(Cmp c) : cmp(c), h(c) {}
    void push(SKey k) override {
        const K kk = (K)k;
        h.push(kk);
    }
    void push_move(SKey k) override {
        K kk = (K)k;
        h.push(std::move(kk));
    }
    void remove(SKey k) override { h.remove((K)k); }
    SKey top() override { return h.top(); }
    void pop() override { h.pop(); }
    SKey extract_top() override { return h.extract_top(); }
    void update(SKey k) override { h.update((K)k); }
    bool contains(SKey k) override { return h.contains((K)k); }
    void clear() override { h.clear(); }
    size_t size() override { return h.size(); }
    bool empty() override { return h.empty(); }
    void reserve(size_t n) override { h.reserve(n); }
    void build(unsigned how, const std::vector<SKey>& v) override {
        std::vector<K> kv(v.begin(), v.end());
        if (how == 0) h.build_heap(kv.begin(), kv.end());
        else if (how == 1) {
            const std::vector<K>& cv = kv;
            h.build_heap(cv);
        } else h.build_heap(std::move(kv));
    }
    void update_all() override { h.update_all(); }
    bool sanity_check() override { return h.sanity_check(); }
    void copy_move(unsigned how, SKey extra) override {
        if (how == 0) {
            Heap c(h); // copy-construct, continue with the copy
            h.clear();
            h = std::move(c);
        } else if (how == 1) {
            Heap m(std::move(h)); // move-construct, copy-assign back into the moved-from heap
            h = m;
        } else if (how == 2) {
            Heap c(cmp);
            c.push((K)extra);
            c = h; // copy-assign over a non-empty heap
            h = c;
        } else {
            Heap& self = h;
            h = self; // self copy-assignment
        }
    }
};

template <class K, unsigned A>
IAddrS* make_addrs_a(unsigned ck, const std::vector<int>* prio) {
    switch (ck) {
    case 0: return new AddrSImpl<K, A, std::less<K>>(std::less<K>());
    case 1: return new AddrSImpl<K, A, std::greater<K>>(std::greater<K>());
    default: return new AddrSImpl<K, A, SPrioCmp<K>>(SPrioCmp<K>{prio});
    }
}
template <class K>
IAddrS* make_addrs_k(unsigned arity, unsigned ck, const std::vector<int>* prio) {
    switch (arity) {
    case 1: return make_addrs_a<K, 1>(ck, prio);
    case 2: return make_addrs_a<K, 2>(ck, prio);
    case 3: return make_addrs_a<K, 3>(ck, prio);
    case 4: return make_addrs_a<K, 4>(ck, prio);
    case 5: return make_addrs_a<K, 5>(ck, prio);
    case 6: return make_addrs_a<K, 6>(ck, prio);
    case 7: return make_addrs_a<K, 7>(ck, prio);
    default: return make_addrs_a<K, 8>(ck, prio);
    }
}
// defined in the per-key-type TUs; arity 1..8, ck 0 less / 1 greater / 2 external priority table
IAddrS* make_addrs_u8(unsigned arity, unsigned ck, const std::vector<int>* prio);
IAddrS* make_addrs_u16(unsigned arity, unsigned ck, const std::vector<int>* prio);
IAddrS* make_addrs_u32(unsigned arity, unsigned ck, const std::vector<int>* prio);
IAddrS* make_addrs_u64(unsigned arity, unsigned ck, const std::vector<int>* prio);

} // namespace c13
