// C09 — target loser_tree_api: dispatcher + the 8-byte value type (see C09_loser_tree_api.hpp)
#include "C09_loser_tree_api.hpp"

namespace c09api {
void run_k8(pbt::Source& src, int tc) { run_api<K8>(src, tc, "type=K8"); }
} // namespace c09api

PBT_PROPERTY(loser_tree_api) {
    c09api::g_default_key = 0;
    // ---- selectors first: tree configuration (8 classes + 4 switch aliases; the unguarded ones twice as often: the
    // sentinel classes are the larger sub-domain), value type
    static const int TC[18] = {7, 5, 6, 4, 11, 10, 0, 1, 2, 3, 8, 9, 7, 5, 6, 4, 11, 10};
    const int tc = TC[src.range(0, 17)];
    const int kt = (int)src.range(0, 3);
    switch (kt) {
    case 0: c09api::run_k8(src, tc); break;
    case 1: c09api::run_k16(src, tc); break;
    case 2: c09api::run_k24(src, tc); break;
    default: c09api::run_ks(src, tc); break;
    }
}
