// C13 — DAryHeap instantiations, arity 1..4
#include "C13_dary_impl.hpp"
namespace c13 {
IDary* make_dary_lo(unsigned arity, unsigned ck, const std::vector<int>* prio) {
    switch (arity) {
    case 1: return make_dary_a<1>(ck, prio);
    case 2: return make_dary_a<2>(ck, prio);
    case 3: return make_dary_a<3>(ck, prio);
    default: return make_dary_a<4>(ck, prio);
    }
}
} // namespace c13
