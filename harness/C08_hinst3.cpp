// C08 huge-size oracle instantiation: 2-byte record / key less
#include "C08_huge.hpp"
namespace c08h {
void run_hcfg3(const HugeShape& sh, const Model& mo, const std::vector<uint64_t>& ranks, bool dp, bool ds, HStats& st, int rsel) {
    disp_huge<CfgRec>(sh, mo, ranks, dp, ds, st, rsel);
}
} // namespace c08h
