// C03 — StdStringSet (std::string objects) and the std::string* / vector<std::string> front-ends.
#include "C03_runner.hpp"

namespace c03 {
namespace {

struct StdRep {
    typedef ssd::StdStringSet Set;
    std::vector<std::string> arr; // exactly n objects

    void build(const Case& c) {
        arr = std::vector<std::string>(c.strs.size());
        for (size_t i = 0; i < arr.size(); ++i) arr[i] = std::string(c.strs[i].data(), c.strs[i].size());
    }
    size_t size() const { return arr.size(); }
    Set set() { return Set(arr.data(), arr.data() + arr.size()); }

    bool call_front(const Case& c, uint32_t* lcp, size_t mem) {
        size_t n = arr.size();
        bool dflt = (mem == 0 && (c.mem_rsel & 1));
        if (c.front % 2 == 0) {
            C03_FRONT(arr.data(), n);
        } else {
            C03_FRONT(arr);
            PBT_CHECK(arr.size() == n, "C03/permutation", "vector<std::string> front-end changed the vector size");
        }
        return true;
    }
    void check_before_order(const Case&) {}
    std::pair<const unsigned char*, size_t> view(size_t i) {
        return std::make_pair((const unsigned char*)arr[i].data(), arr[i].size());
    }
    //! the output is in order (checked before): it is a permutation iff it equals the sorted original contents
    void check_after_order(const Case& c) {
        std::vector<const std::string*> exp(c.strs.size());
        for (size_t i = 0; i < exp.size(); ++i) exp[i] = &c.strs[i];
        std::sort(exp.begin(), exp.end(), [](const std::string* a, const std::string* b) { return less_str(*a, *b); });
        for (size_t i = 0; i < exp.size(); ++i)
            PBT_CHECK(arr[i] == *exp[i], "C03/permutation",
                      describe(c, exp.size()) << ": contents are not a permutation of the input: output[" << i
                                              << "]=" << pbt::show_bytes(arr[i].substr(0, 80)) << " but the " << i
                                              << "-th smallest input is " << pbt::show_bytes(exp[i]->substr(0, 80)));
    }
};

} // namespace

C03_DEFINE_RUN(run_std, StdRep)

} // namespace c03
