// C08 — targets partition_iters / selection_iters: the iterator-category / element-type / comparator dimension.
//
// The routines take "random-access iterator pairs"; the other C08 targets pass raw pointers, std::vector iterators or
// (huge) a counting wrapper around a pointer, i.e. always CONTIGUOUS storage, trivially copyable elements and empty
// comparator objects. Here the same oracle runs on
//   * sequences held in a std::deque (libstdc++: 512-byte blocks; lengths crossing several blocks; begin moved off the
//     block start by pop_front or by building the deque from the back),
//   * std::reverse_iterator over a std::vector / std::deque that stores the sequence back to front,
//   * an own strided random-access iterator (element j is cell off + j*stride of a vector, stride 2, 3 or -2; the cells
//     in between hold a filler that must never influence the result),
//   * the sequence of iterator pairs itself in a std::deque (begin off the block start), the split positions written
//     through std::deque iterators (partition),
//   * element types int, the 8-byte record, and a record OWNING a std::string (non-trivial copy, destructive move: the
//     routines sort / heap (value, sequence) sample pairs),
//   * a comparator that owns a std::string, a std::vector and a std::function (less / greater / projection key/4 is
//     run-time state of the object).
// Split positions are compared through iterator DISTANCES (offs[i] - seqs[i].first), never through addresses.
#pragma once
#include "C08_common.hpp"

#include <deque>
#include <iterator>
#include <string>

namespace c08 {

//! record owning a std::string longer than the small-string buffer; a moved-from RecS has an empty string and key -1
//! (no generated key is negative), one whose string / checksum does not match its fields reads as key -2
struct RecS {
    int key = 0;
    short seq = 0;
    short pos = 0;
    uint32_t chk = 0; // checksum of (key, seq, pos) and of the string's length and first characters (cheap integrity test)
    std::string tag;
    static std::string tag_of(int k, int s, int p) { return "k" + std::to_string(k) + "s" + std::to_string(s) + "p" + std::to_string(p) + ";pad-beyond-the-sso-buffer"; }
    uint32_t sum() const {
        uint32_t h = (uint32_t)key * 2654435761u ^ ((uint32_t)(uint16_t)seq << 16 | (uint16_t)pos) * 40503u ^ (uint32_t)tag.size() * 97u;
        return tag.size() >= 2 ? h ^ (uint32_t)(unsigned char)tag[1] << 8 ^ (uint32_t)(unsigned char)tag[tag.size() - 1] : h;
    }
    RecS() : tag(tag_of(0, 0, 0)) { chk = sum(); }
    RecS(int k, int s, int p) : key(k), seq((short)s), pos((short)p), tag(tag_of(k, (short)s, (short)p)) { chk = sum(); }
    RecS(const RecS&) = default;
    RecS& operator=(const RecS&) = default;
    RecS(RecS&& o) noexcept : key(o.key), seq(o.seq), pos(o.pos), chk(o.chk), tag(std::move(o.tag)) { o.key = -1, o.tag.clear(); }
    RecS& operator=(RecS&& o) noexcept {
        if (this != &o) {
            key = o.key, seq = o.seq, pos = o.pos, chk = o.chk, tag = std::move(o.tag);
            o.key = -1, o.tag.clear();
        }
        return *this;
    }
};
inline int keyof(const RecS& r) { return r.tag.size() > 16 && r.chk == r.sum() ? r.key : r.tag.empty() && r.key == -1 ? -1 : -2; }
template <>
inline RecS mk<RecS>(int key, int seq, int pos) { return RecS(key, seq, pos); }
inline bool same(const RecS& a, const RecS& b) { return a.key == b.key && a.seq == b.seq && a.pos == b.pos && a.tag == b.tag; }

namespace it {

//! comparator owning state (mode 0 key less, 1 key greater, 2 projection key/4 less)
template <class T>
struct OwnCmp {
    std::string canary;
    std::vector<signed char> mode;
    std::function<int(const T&)> proj;
    static const char* expected() { return "C08-owning-comparator-canary-longer-than-sso"; }
    explicit OwnCmp(int m) : canary(expected()), mode(1, (signed char)m), proj([](const T& x) { return keyof(x); }) {}
    OwnCmp() = default; // default-constructible like std::less, but must never be CALLED in that state
    bool operator()(const T& a, const T& b) const {
        if (canary != expected() || mode.size() != 1 || !proj)
            pbt::fail("C08/comparator-lost", "the routine used a comparator that is not a (live) copy of the one passed: moved-from or default-constructed");
        const int x = proj(a), y = proj(b);
        return mode[0] == 0 ? x < y : mode[0] == 1 ? x > y : x / 4 < y / 4;
    }
};

// ---- storage kinds: a store holds the logical sequence and hands out a random-access iterator to element 0

template <class T>
struct DequeKind {
    typedef typename std::deque<T>::iterator It;
    static constexpr const char* name = "deque";
    std::deque<T> d;
    size_t off = 0;
    void fill(const std::vector<T>& lg, uint64_t salt) {
        const size_t blk = std::max<size_t>(1, 512 / sizeof(T));
        off = (size_t)(salt % (blk + 3));
        if ((salt >> 20) & 1) {
            for (size_t j = lg.size(); j-- > 0;) d.push_front(lg[j]);
            for (size_t j = 0; j < off; ++j) d.push_front(lg[0]);
        } else {
            for (size_t j = 0; j < off; ++j) d.push_back(lg[0]);
            for (const T& e : lg) d.push_back(e);
        }
        for (size_t j = 0; j < off; ++j) d.pop_front();
    }
    It begin() { return d.begin(); }
    const T& at(size_t j) const { return d[j]; }
    bool mid_block() const { return off % std::max<size_t>(1, 512 / sizeof(T)) != 0; }
    bool fillers_intact() const { return true; }
};
template <class T, bool Deque>
struct ReverseKind {
    typedef typename std::conditional<Deque, std::deque<T>, std::vector<T>>::type Cont;
    typedef std::reverse_iterator<typename Cont::iterator> It;
    static constexpr const char* name = Deque ? "reverse_deque" : "reverse_vector";
    Cont c;
    void fill(const std::vector<T>& lg, uint64_t salt) {
        size_t off = 0;
        if (Deque) off = (size_t)(salt % (std::max<size_t>(1, 512 / sizeof(T)) + 3));
        for (size_t j = lg.size(); j-- > 0;) c.push_back(lg[j]);
        for (size_t j = 0; j < off; ++j) c.push_back(lg[0]); // moves the physical end (= logical begin) off the block start
        for (size_t j = 0; j < off; ++j) c.pop_back();
        if (!Deque) Cont(c).swap(c); // exact-size heap block (ASan red zones on both sides)
    }
    It begin() { return It(c.end()); }
    const T& at(size_t j) const { return c[c.size() - 1 - j]; }
    bool mid_block() const { return Deque; }
    bool fillers_intact() const { return true; }
};
template <class T>
struct StrideIt {
    typedef std::random_access_iterator_tag iterator_category;
    typedef T value_type;
    typedef std::ptrdiff_t difference_type;
    typedef T* pointer;
    typedef T& reference;
    T* base = nullptr;
    std::ptrdiff_t off = 0, stride = 1, idx = 0;
    reference operator*() const { return base[off + idx * stride]; }
    pointer operator->() const { return &base[off + idx * stride]; }
    reference operator[](difference_type n) const { return base[off + (idx + n) * stride]; }
    StrideIt& operator++() { return ++idx, *this; }
    StrideIt& operator--() { return --idx, *this; }
    StrideIt operator++(int) { StrideIt t = *this; return ++idx, t; }
    StrideIt operator--(int) { StrideIt t = *this; return --idx, t; }
    StrideIt& operator+=(difference_type n) { return idx += n, *this; }
    StrideIt& operator-=(difference_type n) { return idx -= n, *this; }
    friend StrideIt operator+(StrideIt a, difference_type n) { return a += n; }
    friend StrideIt operator+(difference_type n, StrideIt a) { return a += n; }
    friend StrideIt operator-(StrideIt a, difference_type n) { return a -= n; }
    friend difference_type operator-(const StrideIt& a, const StrideIt& b) { return a.idx - b.idx; }
    friend bool operator==(const StrideIt& a, const StrideIt& b) { return a.base == b.base && a.idx == b.idx; }
    friend bool operator!=(const StrideIt& a, const StrideIt& b) { return !(a == b); }
    friend bool operator<(const StrideIt& a, const StrideIt& b) { return a.idx < b.idx; }
    friend bool operator>(const StrideIt& a, const StrideIt& b) { return a.idx > b.idx; }
    friend bool operator<=(const StrideIt& a, const StrideIt& b) { return a.idx <= b.idx; }
    friend bool operator>=(const StrideIt& a, const StrideIt& b) { return a.idx >= b.idx; }
};
template <class T>
struct StrideKind {
    typedef StrideIt<T> It;
    static constexpr const char* name = "stride";
    std::vector<T> v;
    std::ptrdiff_t stride = 2, off = 0;
    size_t m = 0;
    void fill(const std::vector<T>& lg, uint64_t salt) {
        static const int S[3] = {2, 3, -2};
        stride = S[salt % 3];
        m = lg.size();
        const size_t a = (size_t)(stride < 0 ? -stride : stride);
        // fillers: a key far outside the generated range, alternating below / above every real key
        v.clear();
        v.reserve((m - 1) * a + 1);
        for (size_t x = 0; x < (m - 1) * a + 1; ++x) v.push_back(mk<T>(filler_key(x), 0, 0));
        off = stride < 0 ? (std::ptrdiff_t)((m - 1) * a) : 0;
        for (size_t j = 0; j < m; ++j) v[(size_t)(off + (std::ptrdiff_t)j * stride)] = lg[j];
    }
    static int filler_key(size_t x) { return (x & 2) ? 1999999999 - (int)(x % 7) : 1999999000 + (int)(x % 5); }
    It begin() {
        It i;
        i.base = v.data(), i.off = off, i.stride = stride, i.idx = 0;
        return i;
    }
    const T& at(size_t j) const { return v[(size_t)(off + (std::ptrdiff_t)j * stride)]; }
    bool mid_block() const { return false; }
    bool fillers_intact() const {
        const size_t a = (size_t)(stride < 0 ? -stride : stride);
        for (size_t x = 0; x < v.size(); ++x)
            if (x % a != 0 && keyof(v[x]) != filler_key(x)) return false;
        return true;
    }
};

//! statistics / labels of one tuple (out)
struct ItStats {
    bool mid_block = false;
    size_t rank_budget = 0; // in: check at most this many ranks per tuple (0 = no bound), see thin_ranks
    bool thinned = false;   // out
};

//! cost bound of the iters targets: keeps rank 0, 1, N-1, N and a pseudo-random subset (seeded by the case) of the other
//! candidate ranks; the candidates are either all ranks or the boundary-biased sample of sample_ranks, so the bias stays
inline void thin_ranks(std::vector<ptrdiff_t>& ranks, size_t budget, uint64_t seed) {
    if (budget < 8 || ranks.size() <= budget) return;
    std::vector<ptrdiff_t> keep = {ranks[0], ranks[1], ranks[ranks.size() - 2], ranks[ranks.size() - 1]};
    std::vector<ptrdiff_t> mid(ranks.begin() + 2, ranks.end() - 2);
    uint64_t s = seed ^ 0x7F4A7C15ull;
    for (size_t i = 0; i + 1 < mid.size() && i < budget - 4; ++i) std::swap(mid[i], mid[i + (size_t)(splitmix(s) % (uint64_t)(mid.size() - i))]);
    keep.insert(keep.end(), mid.begin(), mid.begin() + (ptrdiff_t)std::min(mid.size(), budget - 4));
    std::sort(keep.begin(), keep.end());
    ranks.swap(keep);
}

//! the C08 oracle for one tuple on iterator kind K; `defcomp`: never (the comparator is always passed)
template <class T, class K, class RankT, bool DequeOffsets>
void check_tuple_it(const std::vector<std::vector<int>>& keys, int cmpmode, bool do_partition, bool do_selection, uint64_t salt, Stats& st,
                    ItStats& ist) {
    typedef typename K::It It;
    typedef OwnCmp<T> Comp;
    const Comp comp(cmpmode);
    const int m = (int)keys.size();

    // logical sequences (sorted by the comparator, (seq,pos) stamped), then one store per sequence
    std::vector<std::vector<T>> lg(m);
    for (int i = 0; i < m; ++i) {
        std::vector<T> tmp;
        for (size_t j = 0; j < keys[i].size(); ++j) tmp.push_back(mk<T>(keys[i][j], i, 0));
        std::stable_sort(tmp.begin(), tmp.end(), comp);
        for (size_t j = 0; j < tmp.size(); ++j) lg[i].push_back(mk<T>(keyof(tmp[j]), i, (int)j));
    }
    uint64_t lay = salt * 0x9E3779B97F4A7C15ull + 0xC08;
    std::vector<K> data(m);
    for (int i = 0; i < m; ++i) {
        data[i].fill(lg[i], splitmix(lay) >> 8);
        ist.mid_block = ist.mid_block || data[i].mid_block();
    }

    // the sequence of iterator pairs lives in a std::deque whose begin is not at a block start
    std::deque<std::pair<It, It>> seqs;
    const size_t seqs_off = (size_t)(splitmix(lay) % 11);
    for (size_t j = 0; j < seqs_off; ++j) seqs.push_back(std::pair<It, It>());
    ptrdiff_t N = 0;
    for (int i = 0; i < m; ++i) {
        It b = data[i].begin();
        seqs.push_back(std::make_pair(b, b + (ptrdiff_t)lg[i].size()));
        N += (ptrdiff_t)lg[i].size();
    }
    for (size_t j = 0; j < seqs_off; ++j) seqs.pop_front();
    const std::vector<std::pair<It, It>> seqs_copy(seqs.begin(), seqs.end());

    // reference: stable merge
    struct M {
        T v;
        int seq;
    };
    std::vector<M> merged;
    for (int i = 0; i < m; ++i)
        for (const T& x : lg[i]) merged.push_back(M{x, i});
    std::stable_sort(merged.begin(), merged.end(), [&](const M& a, const M& b) { return comp(a.v, b.v); });

    const bool big = N > 600;
    if (pbt::verbose() && !st.quiet) {
        if (!big)
            for (int i = 0; i < m; ++i) PBT_LOG("  seq" << i << " (" << lg[i].size() << ") " << show_seq(lg[i]) << "\n");
        else {
            PBT_LOG("  N=" << N << " lengths:");
            for (int i = 0; i < m; ++i) PBT_LOG(" " << lg[i].size());
            PBT_LOG("\n");
        }
    }

    std::vector<ptrdiff_t> ranks;
    if (st.sample_ranks && big) {
        std::vector<ptrdiff_t> lens, run_starts;
        for (int i = 0; i < m; ++i) lens.push_back((ptrdiff_t)lg[i].size());
        for (ptrdiff_t r = 1; r < N; ++r)
            if (comp(merged[r - 1].v, merged[r].v)) run_starts.push_back(r);
        ranks = sample_ranks(N, lens, run_starts, st.rank_seed);
        st.sampled = true;
    } else {
        for (ptrdiff_t r = 0; r <= N; ++r) ranks.push_back(r);
    }
    if (ist.rank_budget && ranks.size() > ist.rank_budget) {
        thin_ranks(ranks, ist.rank_budget, st.rank_seed + (uint64_t)N);
        ist.thinned = true;
    }
    st.ranks_checked += ranks.size();

    // "not written" marker: an iterator into a store of its own
    K dummy;
    dummy.fill(std::vector<T>(1, mk<T>(0, 0, 0)), 0);
    const It poison = dummy.begin();
    typedef typename std::conditional<DequeOffsets, std::deque<It>, std::vector<It>>::type OffCont;
    const size_t offs_off = DequeOffsets ? (size_t)(splitmix(lay) % 9) : 0;
    std::vector<ptrdiff_t> expect(m, 0);

    ptrdiff_t upto = 0; // expect[] = per-sequence counts among the first `upto` elements of the stable merge
    for (ptrdiff_t r : ranks) {
        while (upto < r) ++expect[merged[upto++].seq];

        if (do_partition) {
            OffCont offs((size_t)m + offs_off, poison);
            if constexpr (DequeOffsets)
                for (size_t j = 0; j < offs_off; ++j) offs.pop_front();
            const RankT rank = (RankT)r;
            tlx::multisequence_partition(seqs.begin(), seqs.end(), rank, offs.begin(), comp);

            std::vector<ptrdiff_t> o(m);
            auto show = [&]() {
                std::ostringstream os;
                os << "rank " << r << " of " << N << ": offsets (";
                for (int i = 0; i < m; ++i) os << (i ? "," : "") << o[i];
                os << ") expected (";
                for (int i = 0; i < m; ++i) os << (i ? "," : "") << expect[i];
                if (!big) {
                    os << "); sequences";
                    for (int i = 0; i < m; ++i) os << " " << show_seq(lg[i]);
                } else {
                    os << "); " << m << " sequences, lengths";
                    for (int i = 0; i < m; ++i) os << " " << lg[i].size();
                    int shown = 0;
                    for (int i = 0; i < m && shown < 6; ++i) {
                        if (o[i] == expect[i]) continue;
                        ++shown;
                        ptrdiff_t lo = std::max<ptrdiff_t>(0, std::min(o[i], expect[i]) - 3);
                        ptrdiff_t hi = std::min<ptrdiff_t>((ptrdiff_t)lg[i].size(), std::max(o[i], expect[i]) + 3);
                        if (hi - lo > 40) hi = lo + 40;
                        os << "; seq" << i << "[" << lo << ".." << hi << ") = {";
                        for (ptrdiff_t j = lo; j < hi; ++j) os << (j > lo ? "," : "") << keyof(lg[i][j]);
                        os << "}";
                    }
                }
                return os.str();
            };
            // 1. offsets written and inside their sequences (iterator distances)
            for (int i = 0; i < m; ++i) {
                PBT_CHECK(!(offs[i] == poison), "C08/offset-range", "offset of sequence " << i << " not written at rank " << r);
                const ptrdiff_t d = offs[i] - seqs_copy[i].first;
                const bool inside = d >= 0 && d <= (ptrdiff_t)lg[i].size();
                o[i] = inside ? d : -1;
                PBT_CHECK(inside, "C08/offset-range", "offset of sequence " << i << " outside the sequence (begin" << (d >= 0 ? "+" : "") << d << "); " << show());
            }
            // 2. left parts hold exactly rank elements
            ptrdiff_t sum = 0;
            for (int i = 0; i < m; ++i) sum += o[i];
            PBT_CHECK(sum == r, "C08/sum", "left parts hold " << sum << " elements; " << show());
            // 3. no element on the left is greater than any element on the right
            const T* maxleft = nullptr;
            const T* minright = nullptr;
            for (int i = 0; i < m; ++i) {
                if (o[i] > 0 && (!maxleft || comp(*maxleft, lg[i][o[i] - 1]))) maxleft = &lg[i][o[i] - 1];
                if (o[i] < (ptrdiff_t)lg[i].size() && (!minright || comp(lg[i][o[i]], *minright))) minright = &lg[i][o[i]];
            }
            if (maxleft && minright)
                PBT_CHECK(!comp(*minright, *maxleft), "C08/order",
                          "left element " << keyof(*maxleft) << " is greater than right element " << keyof(*minright) << "; " << show());
            // 4. tie rule on the class cut by the split
            if (maxleft && minright && !comp(*maxleft, *minright)) {
                int present = 0;
                bool higher_has_left = false;
                for (int i = m - 1; i >= 0; --i) {
                    ptrdiff_t lb = std::lower_bound(lg[i].begin(), lg[i].end(), *minright, comp) - lg[i].begin();
                    ptrdiff_t ub = std::upper_bound(lg[i].begin(), lg[i].end(), *minright, comp) - lg[i].begin();
                    if (ub > lb) ++present;
                    PBT_CHECK(!(higher_has_left && o[i] < ub), "C08/tie-rule",
                              "equivalent elements across the split are not taken from lower-numbered sequences first (sequence "
                                  << i << " keeps one on the right); " << show());
                    if (o[i] > lb) higher_has_left = true;
                }
                if (present >= 2) st.cut_multi = true;
                if (present >= 3) st.cut3 = true;
            }
            // safety net: 1-4 determine the split uniquely
            for (int i = 0; i < m; ++i)
                PBT_CHECK(o[i] == expect[i], "C08/oracle-inconsistent", "oracles 1-4 passed but split differs from the stable merge; " << show());
        }

        if (do_selection && r < N) {
            RankT off = (RankT)12345;
            const RankT rank = (RankT)r;
            T v = tlx::multisequence_selection<T>(seqs.begin(), seqs.end(), rank, off, comp);
            const T& want = merged[r].v;
            PBT_CHECK(!comp(v, want) && !comp(want, v), "C08/sel-value",
                      "selection at rank " << r << " returned key " << keyof(v) << ", merged[rank] has key " << keyof(want));
            ptrdiff_t lb = std::lower_bound(merged.begin(), merged.end(), v, [&](const M& a, const T& b) { return comp(a.v, b); }) -
                           merged.begin();
            PBT_CHECK((ptrdiff_t)off == r - lb, "C08/sel-offset",
                      "selection at rank " << r << " (key " << keyof(v) << "): offset " << (long long)off << ", expected " << (r - lb));
        }
    }

    // inputs and iterator pairs untouched
    for (int i = 0; i < m; ++i) {
        PBT_CHECK(seqs[i] == seqs_copy[i], "C08/inputs-modified", "iterator pair " << i << " changed");
        for (size_t j = 0; j < lg[i].size(); ++j)
            PBT_CHECK(same(data[i].at(j), lg[i][j]), "C08/inputs-modified", "sequence " << i << " element " << j << " changed");
        PBT_CHECK(data[i].fillers_intact(), "C08/inputs-modified", "sequence " << i << ": a cell between the cells of the strided iterator changed");
    }
}

//! kind: 0 deque | 1 reverse_iterator over vector | 2 strided | 3 reverse_iterator over deque. The rank type and the
//! container the split positions are written to are tied to the kind (ptrdiff_t/deque, size_t/vector, int/vector,
//! ptrdiff_t/deque) to keep the template matrix small.
template <class T>
void disp_kind_a(int kind, const std::vector<std::vector<int>>& keys, int cmpmode, bool dp, bool ds, uint64_t salt, Stats& st, ItStats& ist) {
    if (kind == 0) check_tuple_it<T, DequeKind<T>, ptrdiff_t, true>(keys, cmpmode, dp, ds, salt, st, ist);
    else check_tuple_it<T, ReverseKind<T, false>, size_t, false>(keys, cmpmode, dp, ds, salt, st, ist);
}
template <class T>
void disp_kind_b(int kind, const std::vector<std::vector<int>>& keys, int cmpmode, bool dp, bool ds, uint64_t salt, Stats& st, ItStats& ist) {
    if (kind == 2) check_tuple_it<T, StrideKind<T>, int, false>(keys, cmpmode, dp, ds, salt, st, ist);
    else check_tuple_it<T, ReverseKind<T, true>, ptrdiff_t, true>(keys, cmpmode, dp, ds, salt, st, ist);
}

static const char* const KIND_LABEL[4] = {"it=deque", "it=reverse_vector", "it=stride", "it=reverse_deque"};

// one function per (element type, kind pair): C08_itinst<N>.cpp
void run_it_int_a(int kind, const std::vector<std::vector<int>>& keys, int cmpmode, bool dp, bool ds, uint64_t salt, Stats& st, ItStats& ist);
void run_it_int_b(int kind, const std::vector<std::vector<int>>& keys, int cmpmode, bool dp, bool ds, uint64_t salt, Stats& st, ItStats& ist);
void run_it_rec_a(int kind, const std::vector<std::vector<int>>& keys, int cmpmode, bool dp, bool ds, uint64_t salt, Stats& st, ItStats& ist);
void run_it_rec_b(int kind, const std::vector<std::vector<int>>& keys, int cmpmode, bool dp, bool ds, uint64_t salt, Stats& st, ItStats& ist);
void run_it_recs_a(int kind, const std::vector<std::vector<int>>& keys, int cmpmode, bool dp, bool ds, uint64_t salt, Stats& st, ItStats& ist);
void run_it_recs_b(int kind, const std::vector<std::vector<int>>& keys, int cmpmode, bool dp, bool ds, uint64_t salt, Stats& st, ItStats& ist);

} // namespace it
} // namespace c08
