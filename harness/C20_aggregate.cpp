// C20 — generated-input target aggregate: Aggregate<T> combined with + / += equals feeding all values into one
// Aggregate (and a two-pass reference).
#include "../engine/pbt.hpp"

#include <algorithm>
#include <cmath>
#include <cstdint>
#include <vector>

#include <tlx/math/aggregate.hpp>

// ---- Aggregate -------------------------------------------------------------------------------------

namespace {

bool close_abs_rel(double a, double b, double rel, double abs_) {
    double m = std::max(std::fabs(a), std::fabs(b));
    return std::fabs(a - b) <= rel * m + abs_; // false for NaN
}

template <class T>
struct Gen;
template <>
struct Gen<int> {
    static int get(pbt::Source& src) { // zig-zag: byte 0 -> 0, small bytes -> small magnitudes
        int r = (int)src.range(0, 200);
        return (r & 1) ? -((r + 1) / 2) : r / 2;
    }
};
template <>
struct Gen<uint8_t> {
    static uint8_t get(pbt::Source& src) { return src.u8(); }
};
template <>
struct Gen<double> {
    static double get(pbt::Source& src) { // -100 … 100 in steps of 1/8, zig-zag
        int r = (int)src.range(0, 1600);
        return (double)((r & 1) ? -((r + 1) / 2) : r / 2) / 8.0;
    }
};

template <class T>
void show_agg(const char* name, const tlx::Aggregate<T>& a, std::ostream& os) {
    os << name << ": count=" << a.count() << " min=" << +a.min() << " max=" << +a.max() << " mean=" << a.mean()
       << " var0=" << a.variance(0) << " var1=" << a.variance(1);
}

template <class T>
void aggregate_case(pbt::Source& src, int k, unsigned opsel) {
    typedef tlx::Aggregate<T> Agg;
    std::vector<std::vector<T>> sets((size_t)k);
    for (auto& s : sets) {
        size_t n = 0;
        switch (src.range(0, 3)) {
        case 0: n = 0; break;
        case 1: n = 1; break;
        case 2: n = (size_t)src.range(2, 5); break;
        default: n = (size_t)src.range(0, 30); break;
        }
        for (size_t i = 0; i < n; ++i) s.push_back(Gen<T>::get(src));
    }
    std::vector<Agg> parts((size_t)k);
    Agg single;
    std::vector<double> all;
    for (int i = 0; i < k; ++i)
        for (T v : sets[(size_t)i]) {
            parts[(size_t)i].add(v);
            single.add(v);
            all.push_back((double)v);
        }
    // combine left to right; per step one of:  acc = acc + p,  acc += p,  acc = p + acc
    Agg acc = parts[0];
    int ops[4] = {0, 0, 0, 0};
    bool used_pluseq = false, both_nonempty_diff = false;
    size_t acc_n = sets[0].size();
    for (int i = 1; i < k; ++i) {
        unsigned op = (opsel >> (2 * (i - 1))) & 3;
        if (op == 3) op = 0;
        ops[i] = (int)op;
        if (acc_n && !sets[(size_t)i].empty() && acc.mean() != parts[(size_t)i].mean()) both_nonempty_diff = true;
        if (op == 0) acc = acc + parts[(size_t)i];
        else if (op == 1) acc += parts[(size_t)i], used_pluseq = true;
        else acc = parts[(size_t)i] + acc;
        acc_n += sets[(size_t)i].size();
    }
    auto how = [&]() {
        std::ostringstream os;
        os << "A0";
        for (int i = 1; i < k; ++i) {
            if (ops[i] == 0) os << " + A" << i;
            else if (ops[i] == 1) os << " += A" << i;
            else os << " (A" << i << " + acc)";
        }
        return os.str();
    };
    pbt::label(used_pluseq ? "op:+=" : "op:+");
    if (all.empty()) pbt::label("all-empty");
    else if (!both_nonempty_diff) pbt::label("one-side-empty-or-equal-means");
    else pbt::label("both-nonempty-different-means"), pbt::nontrivial();
    for (auto& s : sets)
        if (s.empty()) {
            pbt::label("has-empty-part");
            break;
        }

    // two-pass reference
    double n = (double)all.size(), mean = 0, ss = 0;
    for (double v : all) mean += v;
    if (!all.empty()) mean /= n;
    for (double v : all) ss += (v - mean) * (v - mean);
    double var0 = all.size() > 1 ? ss / n : 0.0, var1 = all.size() > 1 ? ss / (n - 1) : 0.0;

    auto describe = [&](std::ostream& os) {
        for (int i = 0; i < k; ++i) {
            os << "A" << i << " = {";
            for (size_t j = 0; j < sets[(size_t)i].size(); ++j) os << (j ? ", " : "") << +sets[(size_t)i][j];
            os << "}  ";
        }
        os << "combined as " << how() << "\n  ";
        show_agg("combined", acc, os);
        os << "\n  ";
        show_agg("single  ", single, os);
        os << "\n  two-pass: mean=" << mean << " var0=" << var0 << " var1=" << var1;
    };
    if (pbt::verbose()) {
        std::ostringstream os;
        describe(os);
        PBT_LOG(os.str() << "\n");
    }
#define AGG_CHECK(cond, lab)                                  \
    do {                                                      \
        if (!(cond)) {                                        \
            std::ostringstream os;                            \
            describe(os);                                     \
            pbt::fail(lab, os.str());                         \
        }                                                     \
    } while (0)
    AGG_CHECK(acc.count() == all.size() && acc.count() == single.count(), "C20/aggregate-count");
    AGG_CHECK(acc.min() == single.min(), "C20/aggregate-min");
    AGG_CHECK(acc.max() == single.max(), "C20/aggregate-max");
    if (!all.empty()) {
        double lo = all[0], hi = all[0];
        for (double v : all) lo = std::min(lo, v), hi = std::max(hi, v);
        AGG_CHECK((double)acc.min() == lo && (double)acc.max() == hi, "C20/aggregate-minmax");
    }
    // tolerances of DESIGN §3 rule 2; values are bounded by 255 and counts by 120, so correct code is within ~1e-12
    const double MT = 1e-9, VT = 1e-7, VA = 1e-8;
    AGG_CHECK(std::fabs(acc.mean() - single.mean()) <= MT * std::max(1.0, std::max(std::fabs(acc.mean()), std::fabs(single.mean()))),
              "C20/aggregate-mean");
    AGG_CHECK(std::fabs(acc.mean() - mean) <= MT * std::max(1.0, std::max(std::fabs(acc.mean()), std::fabs(mean))),
              "C20/aggregate-mean");
    AGG_CHECK(close_abs_rel(acc.variance(0), single.variance(0), VT, VA), "C20/aggregate-variance");
    AGG_CHECK(close_abs_rel(acc.variance(1), single.variance(1), VT, VA), "C20/aggregate-variance");
    AGG_CHECK(close_abs_rel(acc.variance(0), var0, VT, VA), "C20/aggregate-variance");
    AGG_CHECK(close_abs_rel(acc.variance(1), var1, VT, VA), "C20/aggregate-variance");
    AGG_CHECK(close_abs_rel(acc.variance(), var1, VT, VA), "C20/aggregate-variance");
    AGG_CHECK(close_abs_rel(acc.stdev(0), std::sqrt(var0), VT, 1e-6), "C20/aggregate-stdev");
    AGG_CHECK(close_abs_rel(acc.standard_deviation(1), std::sqrt(var1), VT, 1e-6), "C20/aggregate-stdev");
    // the single-fed aggregate itself against the two-pass reference (Welford update)
    AGG_CHECK(close_abs_rel(single.variance(0), var0, VT, VA) && close_abs_rel(single.variance(1), var1, VT, VA),
              "C20/aggregate-add-variance");
    AGG_CHECK(std::fabs(single.mean() - mean) <= MT * std::max(1.0, std::fabs(mean)), "C20/aggregate-add-mean");
#undef AGG_CHECK
}

} // namespace

PBT_PROPERTY(aggregate) {
    int type = (int)src.range(0, 2);
    int k = 2 + (int)src.weighted({6, 2, 2}); // number of aggregates combined: mostly two
    unsigned opsel = src.u8();
    switch (type) {
    case 0: pbt::label("type:int"), aggregate_case<int>(src, k, opsel); break;
    case 1: pbt::label("type:double"), aggregate_case<double>(src, k, opsel); break;
    default: pbt::label("type:uint8"), aggregate_case<uint8_t>(src, k, opsel); break;
    }
}
