// C20 — generated-input target aggregate: Aggregate<T> combined with + / += equals feeding all values into one
// Aggregate (and a two-pass reference).
#include "../engine/pbt.hpp"

#include <algorithm>
#include <cmath>
#include <cstdint>
#include <vector>

#include <tlx/math/aggregate.hpp>

// ---- Aggregate -------------------------------------------------------------------------------------

namespace {

bool close_abs_rel(double a, double b, double rel, double abs_) {
    double m = std::max(std::fabs(a), std::fabs(b));
    return std::fabs(a - b) <= rel * m + abs_; // false for NaN
}

template <class T>
struct Gen;
template <>
struct Gen<int> {
    static int get(pbt::Source& src) { // zig-zag: byte 0 -> 0, small bytes -> small magnitudes
        int r = (int)src.range(0, 200);
        return (r & 1) ? -((r + 1) / 2) : r / 2;
    }
};
template <>
struct Gen<uint8_t> {
    static uint8_t get(pbt::Source& src) { return src.u8(); }
};
template <>
struct Gen<double> {
    static double get(pbt::Source& src) { // -100 … 100 in steps of 1/8, zig-zag
        int r = (int)src.range(0, 1600);
        return (double)((r & 1) ? -((r + 1) / 2) : r / 2) / 8.0;
    }
};

template <class T>
void show_agg(const char* name, const tlx::Aggregate<T>& a, std::ostream& os) {
    os << name << ": count=" << a.count() << " min=" << +a.min() << " max=" << +a.max() << " mean=" << a.mean()
       << " var0=" << a.variance(0) << " var1=" << a.variance(1);
}

template <class T>
void aggregate_case(pbt::Source& src, int k, unsigned opsel) {
    typedef tlx::Aggregate<T> Agg;
    std::vector<std::vector<T>> sets((size_t)k);
    for (auto& s : sets) {
        size_t n = 0;
        switch (src.range(0, 3)) {
        case 0: n = 0; break;
        case 1: n = 1; break;
        case 2: n = (size_t)src.range(2, 5); break;
        default: n = (size_t)src.range(0, 30); break;
        }
        for (size_t i = 0; i < n; ++i) s.push_back(Gen<T>::get(src));
    }
    std::vector<Agg> parts((size_t)k);
    Agg single;
    std::vector<double> all;
    for (int i = 0; i < k; ++i)
        for (T v : sets[(size_t)i]) {
            parts[(size_t)i].add(v);
            single.add(v);
            all.push_back((double)v);
        }
    // combine left to right; per step one of:  acc = acc + p,  acc += p,  acc = p + acc
    Agg acc = parts[0];
    int ops[4] = {0, 0, 0, 0};
    bool used_pluseq = false, both_nonempty_diff = false;
    size_t acc_n = sets[0].size();
    for (int i = 1; i < k; ++i) {
        unsigned op = (opsel >> (2 * (i - 1))) & 3;
        if (op == 3) op = 0;
        ops[i] = (int)op;
        if (acc_n && !sets[(size_t)i].empty() && acc.mean() != parts[(size_t)i].mean()) both_nonempty_diff = true;
        if (op == 0) acc = acc + parts[(size_t)i];
        else if (op == 1) acc += parts[(size_t)i], used_pluseq = true;
        else acc = parts[(size_t)i] + acc;
        acc_n += sets[(size_t)i].size();
    }
    auto how = [&]() {
        std::ostringstream os;
        os << "A0";
        for (int i = 1; i < k; ++i) {
            if (ops[i] == 0) os << " + A" << i;
            else if (ops[i] == 1) os << " += A" << i;
            else os << " (A" << i << " + acc)";
        }
        return os.str();
    };
    pbt::label(used_pluseq ? "op:+=" : "op:+");
    if (all.empty()) pbt::label("all-empty");
    else if (!both_nonempty_diff) pbt::label("one-side-empty-or-equal-means");
    else pbt::label("both-nonempty-different-means"), pbt::nontrivial();
    for (auto& s : sets)
        if (s.empty()) {
            pbt::label("has-empty-part");
            break;
        }

    // two-pass reference
    double n = (double)all.size(), mean = 0, ss = 0;
    for (double v : all) mean += v;
    if (!all.empty()) mean /= n;
    for (double v : all) ss += (v - mean) * (v - mean);
    double var0 = all.size() > 1 ? ss / n : 0.0, var1 = all.size() > 1 ? ss / (n - 1) : 0.0;

    auto describe = [&](std::ostream& os) {
        for (int i = 0; i < k; ++i) {
            os << "A" << i << " = {";
            for (size_t j = 0; j < sets[(size_t)i].size(); ++j) os << (j ? ", " : "") << +sets[(size_t)i][j];
            os << "}  ";
        }
        os << "combined as " << how() << "\n  ";
        show_agg("combined", acc, os);
        os << "\n  ";
        show_agg("single  ", single, os);
        os << "\n  two-pass: mean=" << mean << " var0=" << var0 << " var1=" << var1;
    };
    if (pbt::verbose()) {
        std::ostringstream os;
        describe(os);
        PBT_LOG(os.str() << "\n");
    }
#define AGG_CHECK(cond, lab)                                  \
    do {                                                      \
        if (!(cond)) {                                        \
            std::ostringstream os;                            \
            describe(os);                                     \
            pbt::fail(lab, os.str());                         \
        }                                                     \
    } while (0)
    AGG_CHECK(acc.count() == all.size() && acc.count() == single.count(), "C20/aggregate-count");
    AGG_CHECK(acc.min() == single.min(), "C20/aggregate-min");
    AGG_CHECK(acc.max() == single.max(), "C20/aggregate-max");
    if (!all.empty()) {
        double lo = all[0], hi = all[0];
        for (double v : all) lo = std::min(lo, v), hi = std::max(hi, v);
        AGG_CHECK((double)acc.min() == lo && (double)acc.max() == hi, "C20/aggregate-minmax");
    }
    // tolerances of DESIGN §3 rule 2; values are bounded by 255 and counts by 120, so correct code is within ~1e-12
    const double MT = 1e-9, VT = 1e-7, VA = 1e-8;
    AGG_CHECK(std::fabs(acc.mean() - single.mean()) <= MT * std::max(1.0, std::max(std::fabs(acc.mean()), std::fabs(single.mean()))),
              "C20/aggregate-mean");
    AGG_CHECK(std::fabs(acc.mean() - mean) <= MT * std::max(1.0, std::max(std::fabs(acc.mean()), std::fabs(mean))),
              "C20/aggregate-mean");
    AGG_CHECK(close_abs_rel(acc.variance(0), single.variance(0), VT, VA), "C20/aggregate-variance");
    AGG_CHECK(close_abs_rel(acc.variance(1), single.variance(1), VT, VA), "C20/aggregate-variance");
    AGG_CHECK(close_abs_rel(acc.variance(0), var0, VT, VA), "C20/aggregate-variance");
    AGG_CHECK(close_abs_rel(acc.variance(1), var1, VT, VA), "C20/aggregate-variance");
    AGG_CHECK(close_abs_rel(acc.variance(), var1, VT, VA), "C20/aggregate-variance");
    AGG_CHECK(close_abs_rel(acc.stdev(0), std::sqrt(var0), VT, 1e-6), "C20/aggregate-stdev");
    AGG_CHECK(close_abs_rel(acc.standard_deviation(1), std::sqrt(var1), VT, 1e-6), "C20/aggregate-stdev");
    // the single-fed aggregate itself against the two-pass reference (Welford update)
    AGG_CHECK(close_abs_rel(single.variance(0), var0, VT, VA) && close_abs_rel(single.variance(1), var1, VT, VA),
              "C20/aggregate-add-variance");
    AGG_CHECK(std::fabs(single.mean() - mean) <= MT * std::max(1.0, std::fabs(mean)), "C20/aggregate-add-mean");
#undef AGG_CHECK
}

} // namespace

PBT_PROPERTY(aggregate) {
    int type = (int)src.range(0, 2);
    int k = 2 + (int)src.weighted({6, 2, 2}); // number of aggregates combined: mostly two
    unsigned opsel = src.u8();
    switch (type) {
    case 0: pbt::label("type:int"), aggregate_case<int>(src, k, opsel); break;
    case 1: pbt::label("type:double"), aggregate_case<double>(src, k, opsel); break;
    default: pbt::label("type:uint8"), aggregate_case<uint8_t>(src, k, opsel); break;
    }
}

// =====================================================================================================================
// Scale classes (added after seeded change C20-r3: the count product n1*n2 of combine_variance() computed in 32 bits).
//
// aggregate_scale: Aggregates with LARGE counts (around 2^16, 2^24, 2^31, 2^32, 2^40, random up to 2^41) built with
//   the public state constructor Aggregate(count, mean, nvar, min, max) from an explicit weighted multiset
//   {lo x a, mid x c, hi x b} (so every state is the state of a real multiset of values, up to the rounding of mean and
//   nvar to double), mixed with really fed small Aggregates and empty ones, combined with + / += / reversed + in a
//   generated order, optionally followed by a few add() calls. The result is compared with
//     R1: the closed form computed in long double from the (count, mean, nvar) states of the parts
//         N = sum n_i, mean = sum n_i m_i / N, nvar = sum nvar_i + sum_{i<j} n_i n_j (m_i - m_j)^2 / N
//         (an identity that does not go through the pairwise update formula of the implementation), and
//     R2: count / mean / sum (v - mean)^2 of the pooled weighted multiset, i.e. what "feeding all their values into one
//         Aggregate" computes in exact arithmetic.
//   Tolerance: |nvar - ref| <= 1e-9 * ref + slack, slack = sum over the combination steps of w (2 |delta| eta + eta^2)
//   with w = n1 n2 / (n1 + n2), delta = difference of the two means and eta = 2^-40 (1 + max |value|), i.e. the effect
//   of an error of 4096 ulps in every intermediate mean (double rounding gives a few ulps). A wrong weight changes
//   nvar by O(w delta^2), which is >= 10^7 times the slack because non-zero deltas are never tiny relative to the
//   values (values are multiples of 1/8, |value| <= 255).
//   Count products n1*n2 >= 2^64 (2^24 with 2^40, 2^32 with 2^32, ...) are part of the domain: this class found F34
//   (the size_t product count_ * other.count_ wrapped; fixed in /repo 71835c2). Totals stay below 2^43.
//
// aggregate_bulk: the property literally: two (or three) Aggregates really fed with 65536..200000 values each (rarely
//   1000 vs. 5 000 000) from cheap seeded patterns, combined with +, reversed + and +=, compared with one Aggregate fed
//   all values and with a two-pass long double reference.

namespace {

typedef long double LD;
typedef std::vector<std::pair<double, uint64_t>> WSet; // weighted multiset: (value, multiplicity > 0)

struct WStats {
    uint64_t n = 0;
    LD mean = 0, nvar = 0;
    double lo = 0, hi = 0;
};

WStats wstats(const WSet& s) {
    WStats r;
    LD sum = 0;
    for (auto& p : s) {
        if (r.n == 0) r.lo = r.hi = p.first;
        r.lo = std::min(r.lo, p.first), r.hi = std::max(r.hi, p.first);
        r.n += p.second;
        sum += (LD)p.first * (LD)p.second; // exact: |value*8| < 2^12, multiplicity < 2^42
    }
    if (r.n) r.mean = sum / (LD)r.n;
    for (auto& p : s) r.nvar += (LD)p.second * ((LD)p.first - r.mean) * ((LD)p.first - r.mean);
    return r;
}

struct Tol {
    LD rel, slack;
    bool ok(double got, LD ref, LD scale = 1) const { // |got - ref| <= rel*|ref| + slack/scale; false for NaN
        LD d = (LD)got - ref;
        if (d < 0) d = -d;
        LD a = ref < 0 ? -ref : ref;
        return d <= rel * a + slack / scale;
    }
};

template <class T>
void scale_case(pbt::Source& src, int k, unsigned opsel) {
    typedef tlx::Aggregate<T> Agg;
    static const uint64_t kBase[5] = {1ull << 16, 1ull << 24, 1ull << 31, 1ull << 32, 1ull << 40};
    static const int kDelta[5] = {0, -1, 1, -2, 2};
    struct Part {
        int kind; // 0 state-constructed large, 1 fed small, 2 empty
        WSet set;
        WStats st;
        uint64_t n = 0;
        double mean = 0, nvar = 0; // the state handed to / read from tlx
    };
    std::vector<Part> parts((size_t)k);
    std::vector<Agg> aggs((size_t)k);
    // selectors first
    int kinds[4], cls[4], dsel[4];
    for (int i = 0; i < k; ++i) {
        kinds[i] = (int)src.weighted({5, 2, 1});
        cls[i] = (int)src.range(0, 6);
        dsel[i] = (int)src.range(0, 4);
    }
    int nadds = (int)src.weighted({4, 1, 1, 1}); // add() calls after the combination
    double maxabs = 0;
    for (int i = 0; i < k; ++i) {
        Part& p = parts[(size_t)i];
        p.kind = kinds[i];
        if (p.kind == 0) {
            uint64_t n;
            if (cls[i] < 5) n = kBase[cls[i]] + (uint64_t)(int64_t)kDelta[dsel[i]];
            else if (cls[i] == 5) n = 1 + (src.bits(6) % (1ull << 41));
            else n = 1 + (uint64_t)src.range(0, 3);
            double v[3] = {(double)Gen<T>::get(src), (double)Gen<T>::get(src), (double)Gen<T>::get(src)};
            std::sort(v, v + 3);
            unsigned pa = (unsigned)src.range(0, 8), pb = (unsigned)src.range(0, 8);
            if (n == 1) p.set = {{v[1], 1}};
            else if (n == 2) p.set = {{v[0], 1}, {v[2], 1}};
            else {
                uint64_t a = 1 + ((n - 2) / 16) * pa, b = 1 + ((n - 2) / 16) * pb, c = n - a - b;
                p.set = {{v[0], a}, {v[2], b}};
                if (c) p.set.push_back({v[1], c});
            }
            p.st = wstats(p.set);
            p.n = p.st.n, p.mean = (double)p.st.mean, p.nvar = (double)p.st.nvar;
            aggs[(size_t)i] = Agg((size_t)p.n, p.mean, p.nvar, (T)p.st.lo, (T)p.st.hi);
            switch (cls[i]) {
            case 0: pbt::label("count:2^16"); break;
            case 1: pbt::label("count:2^24"); break;
            case 2: pbt::label("count:2^31"); break;
            case 3: pbt::label("count:2^32"); break;
            case 4: pbt::label("count:2^40"); break;
            case 5: pbt::label(n >> 32 ? "count:random>=2^32" : "count:random<2^32"); break;
            default: pbt::label("count:state-tiny"); break;
            }
        }
        else if (p.kind == 1) {
            size_t m = (size_t)src.range(1, 30);
            for (size_t j = 0; j < m; ++j) {
                T x = Gen<T>::get(src);
                p.set.push_back({(double)x, 1});
                aggs[(size_t)i].add(x);
            }
            p.st = wstats(p.set);
            p.n = aggs[(size_t)i].count(), p.mean = aggs[(size_t)i].mean();
            p.nvar = aggs[(size_t)i].variance(0) * (double)p.n;
            pbt::label("part:fed-small");
        }
        else
            pbt::label("part:empty");
        for (auto& e : p.set) maxabs = std::max(maxabs, std::fabs(e.first));
    }
    const LD eta = std::ldexp((LD)(1.0 + maxabs), -40);
    auto slack_of = [&](LD w, LD delta) { return w * (2 * (delta < 0 ? -delta : delta) * eta + eta * eta); };

    // combine left to right; per step one of:  acc = acc + p,  acc += p,  acc = p + acc
    Agg acc = aggs[0];
    WSet pooled = parts[0].set;
    LD slack = 0;
    for (auto& e : parts[0].set)
        if (parts[0].kind == 1) slack += slack_of(1, (LD)e.first - parts[0].st.mean);
    int ops[4] = {0, 0, 0, 0};
    bool used_pluseq = false, big_product = false, any_diff = false;
    for (int i = 1; i < k; ++i) {
        unsigned op = (opsel >> (2 * (i - 1))) & 3;
        if (op == 3) op = 0;
        ops[i] = (int)op;
        const Part& p = parts[(size_t)i];
        WStats a = wstats(pooled);
        if (p.kind == 1)
            for (auto& e : p.set) slack += slack_of(1, (LD)e.first - p.st.mean);
        if (a.n && p.st.n) {
            LD w = (LD)a.n * (LD)p.st.n / ((LD)a.n + (LD)p.st.n), delta = a.mean - p.st.mean;
            slack += slack_of(w, delta);
            if (delta != 0) {
                any_diff = true;
                unsigned __int128 prod = (unsigned __int128)a.n * p.st.n;
                if (prod >> 32) big_product = true, pbt::label("prod>=2^32");
                if (prod >> 48) pbt::label("prod>=2^48");
                if (prod >> 64) pbt::label("prod>=2^64");
            }
        }
        if (op == 0) acc = acc + aggs[(size_t)i];
        else if (op == 1) acc += aggs[(size_t)i], used_pluseq = true;
        else acc = aggs[(size_t)i] + acc;
        pooled.insert(pooled.end(), p.set.begin(), p.set.end());
    }
    Agg combined = acc; // state right after the combination, before the trailing add() calls
    WSet pooled_combined = pooled;
    LD slack_combined = slack;
    T added[3] = {T(), T(), T()};
    for (int j = 0; j < nadds; ++j) {
        T x = Gen<T>::get(src);
        added[j] = x;
        WStats a = wstats(pooled);
        if (a.n) slack += slack_of((LD)a.n / ((LD)a.n + 1), a.mean - (LD)x);
        acc.add(x);
        pooled.push_back({(double)x, 1});
        maxabs = std::max(maxabs, std::fabs((double)x));
    }
    pbt::label(used_pluseq ? "op:+=" : "op:+");
    if (k > 2) pbt::label("chain:3+");
    if (nadds) pbt::label("trailing-add");
    if (big_product) pbt::nontrivial();
    else if (any_diff) pbt::label("different-means-small-product");
    else pbt::label("one-side-empty-or-equal-means");

    auto describe = [&](std::ostream& os) {
        os.precision(17);
        for (int i = 0; i < k; ++i) {
            const Part& p = parts[(size_t)i];
            os << "A" << i << (p.kind == 0 ? " = Aggregate(" : p.kind == 1 ? " = fed{" : " = empty");
            if (p.kind == 0)
                os << p.n << ", " << p.mean << ", " << p.nvar << ", " << +(T)p.st.lo << ", " << +(T)p.st.hi << ") ~ {";
            if (p.kind != 2) {
                for (size_t j = 0; j < p.set.size(); ++j)
                    os << (j ? ", " : "") << p.set[j].first << " x" << p.set[j].second;
                os << "}";
            }
            os << "\n  ";
        }
        os << "combined as A0";
        for (int i = 1; i < k; ++i) {
            if (ops[i] == 0) os << " + A" << i;
            else if (ops[i] == 1) os << " += A" << i;
            else os << " (A" << i << " + acc)";
        }
        for (int j = 0; j < nadds; ++j) os << " .add(" << +added[j] << ")";
        os << "\n  ";
        show_agg("combined", combined, os);
        if (nadds) os << "\n  ", show_agg("after add", acc, os);
    };
    if (pbt::verbose()) {
        std::ostringstream os;
        describe(os);
        PBT_LOG(os.str() << "\n");
    }

    auto check = [&](const Agg& got, const WSet& all, LD slk, bool with_r1, const char* lc, const char* lmm,
                     const char* lm, const char* lv, const char* ls) {
        WStats r2 = wstats(all);
        auto failwith = [&](const char* lab, const char* what, LD ref) {
            std::ostringstream os;
            describe(os);
            os.precision(17);
            os << "\n  " << what << ": reference " << (double)ref << " (pooled multiset: count=" << r2.n
               << " mean=" << (double)r2.mean << " nvar=" << (double)r2.nvar << " slack=" << (double)slk << ")";
            pbt::fail(lab, os.str());
        };
        if (got.count() != r2.n) failwith(lc, "count", (LD)r2.n);
        if (r2.n) {
            if ((double)got.min() != r2.lo) failwith(lmm, "min", r2.lo);
            if ((double)got.max() != r2.hi) failwith(lmm, "max", r2.hi);
        }
        else {
            if (got.min() != std::numeric_limits<T>::max() || got.max() != std::numeric_limits<T>::lowest())
                failwith(lmm, "min/max of an empty aggregate", 0);
        }
        Tol mt{0, (LD)(k + nadds + 1) * eta};
        if (r2.n && !mt.ok(got.mean(), r2.mean)) failwith(lm, "mean", r2.mean);
        // references for nvar: R2 = pooled multiset; R1 = closed form from the part states
        LD refs[2] = {r2.nvar, 0};
        int nrefs = 1;
        if (with_r1) {
            LD N = 0, nv = 0, between = 0, ms = 0;
            for (auto& p : parts) N += (LD)p.n, nv += (LD)p.nvar, ms += (LD)p.n * (LD)p.mean;
            for (size_t i = 0; i < parts.size(); ++i)
                for (size_t j = i + 1; j < parts.size(); ++j) {
                    LD d = (LD)parts[i].mean - (LD)parts[j].mean;
                    between += (LD)parts[i].n * (LD)parts[j].n * d * d;
                }
            if (N > 0) {
                refs[nrefs++] = nv + between / N;
                if (!mt.ok(got.mean(), ms / N)) failwith(lm, "mean (closed form from the part states)", ms / N);
            }
        }
        Tol vt{1e-9L, slk};
        for (int r = 0; r < nrefs; ++r) {
            const char* which = r ? "closed form from the part states" : "pooled multiset";
            for (unsigned ddof = 0; ddof <= 1; ++ddof) {
                LD div = r2.n > 1 ? (LD)(r2.n - ddof) : 1, ref = r2.n > 1 ? refs[r] / div : 0;
                if (!vt.ok(got.variance(ddof), ref, div)) failwith(lv, ddof ? "variance(1)" : which, ref);
                if (!vt.ok(got.var(ddof), ref, div)) failwith(lv, "var(ddof)", ref);
                // stdev: sqrt of a value within the variance tolerance (+ 1e-12 relative for the sqrt rounding)
                LD t = vt.rel * ref + vt.slack / div;
                LD lo = std::sqrt(std::max((LD)0, ref - t)) * (1 - 1e-12L), hi = std::sqrt(ref + t) * (1 + 1e-12L);
                double sd = got.standard_deviation(ddof), sd2 = got.stdev(ddof);
                if (!((LD)sd >= lo && (LD)sd <= hi && sd2 == sd)) failwith(ls, ddof ? "stdev(1)" : "stdev(0)", std::sqrt(ref));
            }
            LD div1 = r2.n > 1 ? (LD)(r2.n - 1) : 1;
            if (!vt.ok(got.variance(), r2.n > 1 ? refs[r] / div1 : 0, div1)) failwith(lv, "variance()", refs[r] / div1);
        }
    };
    check(combined, pooled_combined, slack_combined, true, "C20/aggregate-count", "C20/aggregate-minmax",
          "C20/aggregate-mean", "C20/aggregate-variance", "C20/aggregate-stdev");
    if (nadds)
        check(acc, pooled, slack, false, "C20/aggregate-add-count", "C20/aggregate-add-minmax", "C20/aggregate-add-mean",
              "C20/aggregate-add-variance", "C20/aggregate-add-stdev");
}

// ---- bulk: really fed aggregates --------------------------------------------------------------------------------

struct XorShift {
    uint64_t s;
    explicit XorShift(uint64_t seed) : s(seed * 0x9E3779B97F4A7C15ull + 0x1234567ull) {
        if (!s) s = 1;
    }
    uint64_t next() {
        s ^= s << 13, s ^= s >> 7, s ^= s << 17;
        return s;
    }
};

template <class T>
struct BulkVal;
template <>
struct BulkVal<int> {
    static int make(int64_t base, uint64_t r, unsigned spread) { return (int)(base + (int64_t)(r % spread)); }
};
template <>
struct BulkVal<uint16_t> {
    static uint16_t make(int64_t base, uint64_t r, unsigned spread) {
        return (uint16_t)(20000 + base + (int64_t)(r % spread));
    }
};
template <>
struct BulkVal<double> {
    static double make(int64_t base, uint64_t r, unsigned spread) {
        return (double)base + (double)(r % (8ull * spread)) / 8.0;
    }
};

template <class T>
void bulk_case(pbt::Source& src, int k, unsigned opsel) {
    typedef tlx::Aggregate<T> Agg;
    // selectors first
    int shape = (int)src.weighted({26, 1, 1, 4}); // 0: all sides 65536..200000; 1: side 0 = 1000, side 1 = 5 000 000;
                                                  // 2: side 0 = 3 000 000, side 1 = 2000; 3: 65536 +- 2 exactly
    int pat[3];
    for (int i = 0; i < k; ++i) pat[i] = (int)src.range(0, 2); // 0 pseudo-random, 1 ramp, 2 constant
    uint64_t seed = src.bits(4);
    size_t n[3];
    int64_t base[3];
    unsigned spread[3];
    for (int i = 0; i < k; ++i) {
        if (shape == 0) n[i] = 65536 + (size_t)src.range(0, 200000 - 65536);
        else if (shape == 1) n[i] = i == 0 ? 1000 : i == 1 ? 5000000 : 70000;
        else if (shape == 2) n[i] = i == 0 ? 3000000 : i == 1 ? 2000 : 70000;
        else n[i] = (size_t)(65536 + (int)src.range(0, 4) - 2);
        base[i] = (int64_t)src.range(0, 10000) - 5000 + 700 * i; // + 700 i: exhausted bytes still give different means
        spread[i] = 1 + (unsigned)src.range(0, 999);
    }
    switch (shape) {
    case 0: pbt::label("bulk:65536..200000-per-side"); break;
    case 1: pbt::label("bulk:1000+5000000"); break;
    case 2: pbt::label("bulk:3000000+2000"); break;
    default: pbt::label("bulk:65536+-2"); break;
    }
    std::vector<Agg> parts((size_t)k);
    Agg single;
    XorShift rng(seed);
    LD sum = 0;
    size_t total = 0;
    for (int i = 0; i < k; ++i) total += n[i];
    std::vector<double> all;
    all.reserve(total);
    for (int i = 0; i < k; ++i)
        for (size_t j = 0; j < n[i]; ++j) {
            uint64_t r = pat[i] == 0 ? rng.next() >> 11 : pat[i] == 1 ? (uint64_t)j : 0;
            T v = BulkVal<T>::make(base[i], r, spread[i]);
            parts[(size_t)i].add(v);
            single.add(v);
            all.push_back((double)v);
            sum += (LD)v;
        }
    LD mean = sum / (LD)total, ss = 0;
    double lo = all[0], hi = all[0];
    for (double v : all) ss += ((LD)v - mean) * ((LD)v - mean), lo = std::min(lo, v), hi = std::max(hi, v);
    double var0 = (double)(ss / (LD)total), var1 = (double)(ss / (LD)(total - 1));

    Agg acc = parts[0];
    int ops[3] = {0, 0, 0};
    bool used_pluseq = false, diff = false;
    for (int i = 1; i < k; ++i) {
        unsigned op = (opsel >> (2 * (i - 1))) & 3;
        if (op == 3) op = 0;
        ops[i] = (int)op;
        if (acc.mean() != parts[(size_t)i].mean()) diff = true;
        if (op == 0) acc = acc + parts[(size_t)i];
        else if (op == 1) acc += parts[(size_t)i], used_pluseq = true;
        else acc = parts[(size_t)i] + acc;
    }
    pbt::label(used_pluseq ? "op:+=" : "op:+");
    if (k > 2) pbt::label("chain:3");
    if (diff) pbt::nontrivial(), pbt::label("different-means");
    else pbt::label("equal-means");

    auto describe = [&](std::ostream& os) {
        os.precision(17);
        for (int i = 0; i < k; ++i)
            os << "A" << i << " = " << n[i] << " values, pattern " << (pat[i] == 0 ? "xorshift" : pat[i] == 1 ? "ramp" : "constant")
               << " base=" << base[i] << " spread=" << spread[i] << " (seed " << seed << ")\n  ";
        os << "combined as A0";
        for (int i = 1; i < k; ++i) {
            if (ops[i] == 0) os << " + A" << i;
            else if (ops[i] == 1) os << " += A" << i;
            else os << " (A" << i << " + acc)";
        }
        os << "\n  ";
        show_agg("combined", acc, os);
        os << "\n  ";
        show_agg("single  ", single, os);
        os << "\n  two-pass: mean=" << (double)mean << " var0=" << var0 << " var1=" << var1;
    };
    if (pbt::verbose()) {
        std::ostringstream os;
        describe(os);
        PBT_LOG(os.str() << "\n");
    }
#define AGG_CHECK(cond, lab)                                  \
    do {                                                      \
        if (!(cond)) {                                        \
            std::ostringstream os;                            \
            describe(os);                                     \
            pbt::fail(lab, os.str());                         \
        }                                                     \
    } while (0)
    AGG_CHECK(acc.count() == total && single.count() == total, "C20/aggregate-count");
    AGG_CHECK(acc.min() == single.min() && acc.max() == single.max(), "C20/aggregate-minmax");
    AGG_CHECK((double)acc.min() == lo && (double)acc.max() == hi, "C20/aggregate-minmax");
    // same tolerances as the small target: |v| <= 2^15 and counts <= 5.2e6 keep correct code within ~1e-10 relative
    const double MT = 1e-9, VT = 1e-7, VA = 1e-8;
    double dm = (double)mean;
    AGG_CHECK(std::fabs(acc.mean() - single.mean()) <= MT * std::max(1.0, std::max(std::fabs(acc.mean()), std::fabs(single.mean()))),
              "C20/aggregate-mean");
    AGG_CHECK(std::fabs(acc.mean() - dm) <= MT * std::max(1.0, std::fabs(dm)), "C20/aggregate-mean");
    AGG_CHECK(close_abs_rel(acc.variance(0), single.variance(0), VT, VA), "C20/aggregate-variance");
    AGG_CHECK(close_abs_rel(acc.variance(1), single.variance(1), VT, VA), "C20/aggregate-variance");
    AGG_CHECK(close_abs_rel(acc.variance(0), var0, VT, VA), "C20/aggregate-variance");
    AGG_CHECK(close_abs_rel(acc.variance(1), var1, VT, VA), "C20/aggregate-variance");
    AGG_CHECK(close_abs_rel(acc.variance(), var1, VT, VA), "C20/aggregate-variance");
    AGG_CHECK(close_abs_rel(acc.stdev(0), std::sqrt(var0), VT, 1e-6), "C20/aggregate-stdev");
    AGG_CHECK(close_abs_rel(acc.standard_deviation(1), std::sqrt(var1), VT, 1e-6), "C20/aggregate-stdev");
    AGG_CHECK(close_abs_rel(single.variance(0), var0, VT, VA) && close_abs_rel(single.variance(1), var1, VT, VA),
              "C20/aggregate-add-variance");
    AGG_CHECK(std::fabs(single.mean() - dm) <= MT * std::max(1.0, std::fabs(dm)), "C20/aggregate-add-mean");
#undef AGG_CHECK
}

} // namespace

PBT_PROPERTY(aggregate_scale) {
    int type = (int)src.range(0, 2);
    int k = 2 + (int)src.weighted({6, 2, 2}); // number of aggregates combined: mostly two
    unsigned opsel = src.u8();
    switch (type) {
    case 0: pbt::label("type:int"), scale_case<int>(src, k, opsel); break;
    case 1: pbt::label("type:double"), scale_case<double>(src, k, opsel); break;
    default: pbt::label("type:uint8"), scale_case<uint8_t>(src, k, opsel); break;
    }
}

PBT_PROPERTY(aggregate_bulk) {
    int type = (int)src.range(0, 2);
    int k = 2 + (int)src.weighted({7, 1});
    unsigned opsel = src.u8();
    switch (type) {
    case 0: pbt::label("type:int"), bulk_case<int>(src, k, opsel); break;
    case 1: pbt::label("type:double"), bulk_case<double>(src, k, opsel); break;
    default: pbt::label("type:uint16"), bulk_case<uint16_t>(src, k, opsel); break;
    }
}
