// C06 — the one place where tlx is called (included by the per-type TUs).
// Every public spelling of the sort is reachable from here (selected by Params::entry / nargs / mwmsa_default_spelled /
// cmp_cat / threads_arg; the defaults give the 5-argument call the targets mergesort, mergesort_scale and
// mergesort_iters have always made). All spellings with the same (iterator, comparator) types share one instantiation
// of tlx::parallel_mergesort_base<Stable, It, Cmp>, so the extra forms cost (almost) no compile time.
#pragma once
#include "C06_common.hpp"

#include <tlx/sort/parallel_mergesort.hpp>

#include <thread>
#include <utility>

namespace c06 {

//! hook: is the CALLER's comparator object still what it was after the sort returned? (overloaded for comparators that
//! own state, C06_types_iters.hpp; the sort takes its comparator by value, so the caller's lvalue must be untouched)
template <class C>
inline void comparator_intact_after(const C&) {}

inline size_t threads_argument(const Params& p) { return p.threads_arg ? p.threads_arg : (size_t)p.threads; }

inline void check_form_preconditions(const Params& p) {
    // the generator must have made the case consistent with what the defaulted arguments mean
    if (p.nargs < 5 && p.sampling) pbt::fail("C06/harness", "defaulted mwmsa means MWMSA_DEFAULT == MWMSA_EXACT");
    if (p.nargs < 4 && (p.threads_arg != 0 || p.threads != std::thread::hardware_concurrency() || p.threads == 0))
        pbt::fail("C06/harness", "defaulted num_threads means std::thread::hardware_concurrency()");
    if (p.nargs < 2 || p.nargs > 5 || p.entry > 1 || (p.entry == 1 && p.nargs == 2)) pbt::fail("C06/harness", "no such call form");
    static_assert(tlx::MWMSA_DEFAULT == tlx::MWMSA_EXACT, "documented default splitting is exact");
}

//! one call; the comparator keeps the value category it has at the call site (the tlx parameter is by value:
//! Comparator is deduced as the decayed type for every category)
template <class It, class C>
void call_form(const Params& p, It b, It e, C&& c) {
    check_form_preconditions(p);
    const size_t t = threads_argument(p);
    const tlx::MultiwayMergeSplittingAlgorithm a = p.sampling ? tlx::MWMSA_SAMPLING : p.mwmsa_default_spelled ? tlx::MWMSA_DEFAULT : tlx::MWMSA_EXACT;
    if (p.entry == 0) {
        if (p.stable) {
            if (p.nargs == 5) tlx::stable_parallel_mergesort(b, e, std::forward<C>(c), t, a);
            else if (p.nargs == 4) tlx::stable_parallel_mergesort(b, e, std::forward<C>(c), t);
            else tlx::stable_parallel_mergesort(b, e, std::forward<C>(c));
        } else {
            if (p.nargs == 5) tlx::parallel_mergesort(b, e, std::forward<C>(c), t, a);
            else if (p.nargs == 4) tlx::parallel_mergesort(b, e, std::forward<C>(c), t);
            else tlx::parallel_mergesort(b, e, std::forward<C>(c));
        }
    } else {
        if (p.stable) {
            if (p.nargs == 5) tlx::parallel_mergesort_base<true>(b, e, std::forward<C>(c), t, a);
            else if (p.nargs == 4) tlx::parallel_mergesort_base<true>(b, e, std::forward<C>(c), t);
            else tlx::parallel_mergesort_base<true>(b, e, std::forward<C>(c));
        } else {
            if (p.nargs == 5) tlx::parallel_mergesort_base<false>(b, e, std::forward<C>(c), t, a);
            else if (p.nargs == 4) tlx::parallel_mergesort_base<false>(b, e, std::forward<C>(c), t);
            else tlx::parallel_mergesort_base<false>(b, e, std::forward<C>(c));
        }
    }
}

//! the call on an arbitrary random-access iterator range, comparator passed in the value category Params::cmp_cat asks for
template <class It, class Cmp>
void run_tlx_range(const Params& p, It b, It e, Cmp cmp) {
    switch (p.cmp_cat) {
    case 0: call_form(p, b, e, cmp); break; // non-const lvalue
    case 1: {
        const Cmp& ccmp = cmp; // const lvalue
        call_form(p, b, e, ccmp);
        break;
    }
    case 2: call_form(p, b, e, Cmp(cmp)); break; // prvalue
    default: {
        Cmp tmp(cmp);
        call_form(p, b, e, std::move(tmp)); // xvalue: tlx may move from it, nobody looks at tmp again
        break;
    }
    }
    comparator_intact_after(cmp); // cmp was passed as an lvalue or copied from: must be unchanged
}

template <class Vec, class Cmp>
void run_tlx(const Params& p, Vec& v, Cmp cmp) {
    run_tlx_range(p, v.begin(), v.end(), cmp);
}

//! the 2-argument form (comparator defaulted to std::less<value_type>, hardware_concurrency threads, exact splitting);
//! only (stable_)parallel_mergesort have it
template <class It>
void run_tlx_default_comparator(const Params& p, It b, It e) {
    check_form_preconditions(p);
    if (p.nargs != 2 || p.greater) pbt::fail("C06/harness", "the defaulted comparator is std::less");
    if (p.stable) tlx::stable_parallel_mergesort(b, e);
    else tlx::parallel_mergesort(b, e);
}

} // namespace c06
