// C06 — the one place where tlx is called (included by the per-type TUs).
#pragma once
#include "C06_common.hpp"

#include <tlx/sort/parallel_mergesort.hpp>

namespace c06 {

template <class Vec, class Cmp>
void run_tlx(const Params& p, Vec& v, Cmp cmp) {
    tlx::MultiwayMergeSplittingAlgorithm a = p.sampling ? tlx::MWMSA_SAMPLING : tlx::MWMSA_EXACT;
    if (p.stable) tlx::stable_parallel_mergesort(v.begin(), v.end(), cmp, (size_t)p.threads, a);
    else tlx::parallel_mergesort(v.begin(), v.end(), cmp, (size_t)p.threads, a);
}

//! the same call on an arbitrary random-access iterator range
template <class It, class Cmp>
void run_tlx_range(const Params& p, It b, It e, Cmp cmp) {
    tlx::MultiwayMergeSplittingAlgorithm a = p.sampling ? tlx::MWMSA_SAMPLING : tlx::MWMSA_EXACT;
    if (p.stable) tlx::stable_parallel_mergesort(b, e, cmp, (size_t)p.threads, a);
    else tlx::parallel_mergesort(b, e, cmp, (size_t)p.threads, a);
}

} // namespace c06
