// C03 — cuchar representation, entry points without LCP output
#include "C03_rep_cuchar_impl.hpp"
