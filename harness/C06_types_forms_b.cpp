// C06 — target mergesort_forms, comparator forms lambda (capturing the direction) on a std::vector range and
// std::greater on a std::deque range.
#include "C06_types_forms.hpp"

#include <deque>
#include <functional>

namespace c06 {

namespace {
using forms::KL;
} // namespace

Lifetime sort_vec_kl_lambda(const Params& p, std::vector<Item>& items) {
    const size_t n = items.size();
    std::vector<KL> v;
    v.reserve(n + 2);
    forms::fill_guarded(v, items);
    const bool greater = p.greater;
    auto cmp = [greater](const KL& a, const KL& b) { return greater ? b.key < a.key : a.key < b.key; };
    run_tlx_range(p, v.begin() + 1, v.begin() + 1 + (std::ptrdiff_t)n, cmp);
    forms::read_back_guarded(v, items, "vector");
    return Lifetime();
}

Lifetime sort_deque_kl_greater(const Params& p, std::vector<Item>& items) {
    const size_t n = items.size();
    if (!p.greater) pbt::fail("C06/harness", "std::greater is descending");
    std::deque<KL> d;
    forms::fill_guarded(d, items);
    run_tlx_range(p, d.begin() + 1, d.begin() + 1 + (std::ptrdiff_t)n, std::greater<KL>());
    forms::read_back_guarded(d, items, "deque");
    return Lifetime();
}

} // namespace c06
