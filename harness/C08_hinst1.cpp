// C08 huge-size oracle instantiation: 1-byte element / greater
#include "C08_huge.hpp"
namespace c08h {
void run_hcfg1(const HugeShape& sh, const Model& mo, const std::vector<uint64_t>& ranks, bool dp, bool ds, HStats& st, int rsel) {
    disp_huge<CfgGreater>(sh, mo, ranks, dp, ds, st, rsel);
}
} // namespace c08h
