// C13 (part 1, scale classes) — tlx::DAryHeap with LARGE heaps: up to 12000 elements for every arity 1..8, sizes
// k*arity + {-1,0,1} and complete levels +-1 (last internal node with 1..arity children, deep sift paths), key type
// int or the narrow uint8_t (more elements than the key type has values), bursts of pushes / pops / pop+push that
// sweep the size through consecutive values, build_heap (3 overloads) and update_all on large contents.
// A case = selectors + operation list from the choice bytes; keys and priorities of a burst come from a local PRNG
// seeded by the case.  Oracle as in C13_dary.cpp (size, empty, top is a stored minimal element, sanity_check(), drain
// sorted and a permutation) with a counting model (O(log n) per step); sanity_check() (O(n)) runs after every
// elementary operation while the heap has <= 600 elements, every 8th up to 6000, every 64th above, and always after
// build_heap / update_all / clear / copy and before the drain.
#include "../engine/pbt.hpp"

#include <algorithm>
#include <climits>
#include <cstdint>
#include <map>
#include <memory>
#include <vector>

#include "C13_dary_scale_impl.hpp"

namespace {

using c13::IDary;

struct Rng {
    uint64_t s;
    uint64_t next() {
        uint64_t z = (s += 0x9E3779B97F4A7C15ull);
        z = (z ^ (z >> 30)) * 0xBF58476D1CE4E5B9ull;
        z = (z ^ (z >> 27)) * 0x94D049BB133111EBull;
        return z ^ (z >> 31);
    }
    uint64_t below(uint64_t n) { return n ? next() % n : 0; }
};

} // namespace

PBT_PROPERTY(dary_scale) {
    // ---- selectors ----
    const unsigned kt = (unsigned)src.weighted({3, 1}); // int keys, uint8_t keys
    const unsigned A = 1 + (unsigned)src.range(0, 7);
    static const unsigned CKMAP[] = {2, 0, 1};
    const unsigned ck = CKMAP[src.weighted({3, 2, 1})]; // external priority table, less, greater
    static const size_t NMAXV[] = {600, 64, 4000, 12000};
    const unsigned mag = (unsigned)src.weighted({3, 2, 2, 1});
    const size_t NMAX = A == 1 ? std::min<size_t>(NMAXV[mag], 3000) : NMAXV[mag]; // arity 1 is a sorted list: O(n) per operation
    const unsigned fc0 = (unsigned)src.weighted({4, 3, 2, 1});
    const unsigned fm = (unsigned)src.range(0, 3);
    const unsigned ord = (unsigned)src.range(0, 2);
    const unsigned kd = (unsigned)src.range(0, 2);
    const unsigned pr = (unsigned)src.weighted({2, 2, 2});
    Rng rng{src.bits(4) * 0x9E3779B97F4A7C15ull + 1};
    const bool table = ck == 2;
    const size_t U = table ? 1 + (size_t)src.range(0, kt ? 255 : 4095) : 0; // table: keys are indices 0..U-1

    static const char* const KL[] = {"key=int", "key=uint8"};
    static const char* const AL[] = {"", "arity=1", "arity=2", "arity=3", "arity=4", "arity=5", "arity=6", "arity=7", "arity=8"};
    static const char* const CL[] = {"cmp=less", "cmp=greater", "cmp=table"};
    static const char* const MAGL[] = {"nmax=600", "nmax=64", "nmax=4000", "nmax=12000"};
    pbt::label(KL[kt]);
    pbt::label(AL[A]);
    pbt::label(CL[ck]);
    pbt::label(MAGL[mag]);

    int clock = 1000000;
    auto gen_prio = [&]() -> int {
        switch (pr) {
        case 0: return (int)rng.below(6);
        case 1: return (int)rng.below(1001);
        default: {
            static const int EX[] = {INT_MIN, INT_MAX, INT_MIN + 1, INT_MAX - 1, 0, -1};
            return rng.below(16) < 1 ? EX[rng.below(6)] : (int)rng.below(1000000);
        }
        }
    };
    std::vector<int> prio(U, 0);
    for (size_t i = 0; i < U; ++i) prio[i] = gen_prio();
    auto pv = [&](int k) -> int64_t { return ck == 0 ? (int64_t)k : ck == 1 ? -(int64_t)k : (int64_t)prio[(size_t)k]; };
    auto gen_key = [&]() -> int {
        if (table) return (int)rng.below(U);
        if (kd == 0) return (int)rng.below(8); // few distinct keys: many duplicates
        if (kt) return (int)rng.below(256);
        static const int EX[] = {INT_MIN, INT_MAX, INT_MIN + 1, INT_MAX - 1, 0, -1, 1};
        if (kd == 2 && rng.below(4) == 0) return EX[rng.below(7)];
        return (int)(uint32_t)rng.next();
    };

    std::unique_ptr<IDary> hp(kt ? c13::make_dary_u8(A, ck, &prio) : A <= 4 ? c13::make_dary_lo(A, ck, &prio) : c13::make_dary_hi(A, ck, &prio));
    IDary& h = *hp;
    PBT_LOG("DAryHeap<" << (KL[kt] + 4) << ", " << A << ", " << (CL[ck] + 4) << "> nmax " << NMAX << (table ? " table universe " : " key class ")
                        << (table ? U : (size_t)kd) << " prio class " << pr << " seed state " << rng.s << "\n");

    // ---- counting model ----
    std::map<int, size_t> cnt;
    std::map<int64_t, size_t> pvc;
    size_t msize = 0;
    auto pvc_sub = [&](int64_t v, size_t c) {
        auto it = pvc.find(v);
        if ((it->second -= c) == 0) pvc.erase(it);
    };
    auto m_add = [&](int k) { ++cnt[k], ++pvc[pv(k)], ++msize; };
    auto m_del = [&](int k) {
        auto it = cnt.find(k);
        if (--it->second == 0) cnt.erase(it);
        pvc_sub(pv(k), 1), --msize;
    };
    auto m_clear = [&]() { cnt.clear(), pvc.clear(), msize = 0; };
    auto stored = [&](int k) -> size_t {
        auto it = cnt.find(k);
        return it == cnt.end() ? 0 : it->second;
    };
    auto set_prio = [&](int k, int p) {
        size_t c = stored(k);
        if (c) pvc_sub(pv(k), c);
        prio[(size_t)k] = p;
        if (c) pvc[pv(k)] += c;
    };
    auto is_min = [&](int k) { return pv(k) == pvc.begin()->first; };

    unsigned nchecks = 0;
    auto check = [&](const char* after, bool force_heavy) {
        const size_t n = msize;
        PBT_CHECK(h.size() == n, "C13/dary-size", "after " << after << ": size() " << h.size() << " but model has " << n);
        PBT_CHECK(h.empty() == (n == 0), "C13/dary-empty", "after " << after << ": empty() " << h.empty() << ", model size " << n);
        if (n) {
            int t = h.top();
            PBT_CHECK(stored(t) > 0, "C13/dary-top-member", "after " << after << ": top() = " << t << " is not stored (model size " << n << ")");
            PBT_CHECK(is_min(t), "C13/dary-top-min",
                      "after " << after << ": top() = " << t << " (priority value " << pv(t) << ") is not minimal: the minimum is " << pvc.begin()->first
                               << "; size " << n);
        }
        const unsigned every = n <= 600 ? 1 : n <= 6000 ? 8 : 64;
        if (force_heavy || (++nchecks % every) == 0)
            PBT_CHECK(h.sanity_check(), "C13/dary-sanity", "after " << after << ": sanity_check() false; size " << n);
        if (n >= 250) pbt::label("size>=250");
        if (n >= 1000) pbt::label("size>=1000");
        if (n >= 5000) pbt::label("size>=5000");
        if (kt && n > 256) pbt::label("size>range_of_key_type");
        if (n >= 2 && (n - 1) % A != 0) pbt::label("last_internal_node_partial");
        if (n >= 2 && (n - 1) % A == 1 % A && A > 1) pbt::label("last_internal_node_one_child");
    };

    auto gen_size = [&](unsigned fc) -> size_t {
        switch (fc) {
        case 0: { // k*arity + {-1,0,1}
            size_t k = (size_t)src.range(0, (int64_t)(NMAX / A));
            long n = (long)(k * A) + (long)src.range(0, 2) - 1;
            return (size_t)std::max<long>(0, std::min<long>(n, (long)NMAX));
        }
        case 1: { // complete levels +-1
            std::vector<size_t> ls;
            for (size_t s = 0, w = 1; ls.size() < 24;) {
                s += w;
                if (s > NMAX) break;
                ls.push_back(s);
                if (A > 1) w *= A;
            }
            size_t s = ls[(size_t)src.range(0, 23) % ls.size()];
            long n = (long)s + (long)src.range(0, 2) - 1;
            return (size_t)std::max<long>(0, std::min<long>(n, (long)NMAX));
        }
        case 2: return (size_t)src.range(0, (int64_t)NMAX);
        default: return (size_t)src.range(0, 8);
        }
    };
    auto gen_keys = [&](size_t n, unsigned order) {
        std::vector<int> v(n);
        for (size_t i = 0; i < n; ++i) v[i] = gen_key();
        if (order) {
            std::stable_sort(v.begin(), v.end(), [&](int a, int b) { return pv(a) < pv(b); });
            if (order == 2) std::reverse(v.begin(), v.end());
        }
        return v;
    };
    //! n elements arranged as a valid heap array whose layout the harness knows (generation aid only, never used by the
    //! oracle): sorted by the heap's order level by level, siblings shuffled, and the smallest child of every node on
    //! the path root -> last internal node lies on that path: the next pop sifts down to exactly the last internal
    //! node (which has 1..arity children depending on n).
    auto steered_layout = [&](size_t n) {
        std::vector<int> v = gen_keys(n, 1);
        for (size_t g = 1; g < n; g += A) {
            size_t e = std::min(n, g + A);
            for (size_t i = g; i + 1 < e; ++i) std::swap(v[i], v[i + rng.below(e - i)]);
        }
        if (n >= 2)
            for (size_t c = (n - 2) / A; c > 0; c = (c - 1) / A) {
                size_t g = ((c - 1) / A) * A + 1, e = std::min(n, g + A), mi = g;
                for (size_t i = g + 1; i < e; ++i)
                    if (pv(v[i]) < pv(v[mi])) mi = i;
                std::swap(v[c], v[mi]);
            }
        return v;
    };
    auto log_keys = [&](const std::vector<int>& v) {
        std::ostringstream os;
        os << v.size() << " keys";
        if (v.size() <= 300) {
            os << " {";
            for (size_t i = 0; i < v.size(); ++i) os << (i ? "," : "") << v[i];
            os << "}";
        }
        return os.str();
    };
    bool nt = false;
    auto do_build = [&](unsigned how, std::vector<int> v) {
        static const char* const HL[] = {"build_iter", "build_copy", "build_move"};
        PBT_LOG("build_heap[" << HL[how] << "] " << log_keys(v) << (msize ? " on non-empty" : "") << "\n");
        if (msize) pbt::label("build_nonempty"), nt = true;
        m_clear();
        for (int k : v) m_add(k);
        if (how == 0) h.build_iter(v);
        else if (how == 1) {
            const std::vector<int>& cv = v;
            h.build_copy(cv);
        } else h.build_move(std::move(v));
        pbt::label(HL[how]);
    };
    auto do_push = [&](int k, bool mv) {
        PBT_LOG((mv ? "push(move " : "push(") << k << ")\n");
        if (mv) {
            int kk = k;
            h.push_move(std::move(kk));
        } else h.push(k);
        m_add(k);
    };
    auto do_pop = [&](bool extract) {
        int t;
        if (extract) {
            t = h.extract_top();
            PBT_LOG("extract_top() -> " << t << "\n");
            PBT_CHECK(stored(t) > 0, "C13/dary-extract-member", "extract_top() returned " << t << " which is not stored; size " << msize);
            PBT_CHECK(is_min(t), "C13/dary-extract-min", "extract_top() returned " << t << " which is not minimal; size " << msize);
        } else {
            t = h.top();
            PBT_LOG("pop() [top " << t << "]\n");
            PBT_CHECK(stored(t) > 0, "C13/dary-top-member", "top() = " << t << " is not stored; size " << msize);
            h.pop();
        }
        m_del(t);
        if (msize >= 3) nt = true;
    };

    check("construction", true);
    {
        static const char* const FL[] = {"fill=k*arity+-1", "fill=level+-1", "fill=random_size", "fill=small"};
        pbt::label(FL[fc0]);
        size_t n0 = gen_size(fc0);
        std::vector<int> v = gen_keys(n0, ord);
        if (fm < 3) do_build(fm, v);
        else {
            PBT_LOG("initial fill by " << n0 << " pushes\n");
            pbt::label("fill_by_push");
            for (size_t i = 0; i < v.size(); ++i) do_push(v[i], i & 1);
        }
        check("initial fill", true);
    }

    unsigned nops = 0, nsub = 0;
    const unsigned max_sub = NMAX <= 4000 ? 1500 : 600;
    while (src.more() && nops < 60 && nsub < max_sub) {
        ++nops;
        unsigned op = (unsigned)src.weighted({5, 5, 5, 2, 2, 1, 1, 1, 5});
        unsigned m = 1 + (unsigned)src.range(0, 63);
        switch (op) {
        case 0: // steady state: pop + push
            pbt::label("burst_pop_push");
            for (unsigned j = 0; j < m && msize; ++j, ++nsub) {
                do_pop(j & 1);
                check("pop", false);
                int k = gen_key();
                if (table && pr == 2 && rng.below(2) && !stored(k)) set_prio(k, ++clock);
                do_push(k, j & 2);
                check("push", false);
            }
            break;
        case 1:
            pbt::label("burst_pop");
            for (unsigned j = 0; j < m && msize; ++j, ++nsub) {
                do_pop(j & 1);
                check("pop", false);
            }
            break;
        case 2:
            pbt::label("burst_push");
            for (unsigned j = 0; j < m && msize < NMAX + 200; ++j, ++nsub) {
                do_push(gen_key(), j & 1);
                check("push", false);
            }
            break;
        case 3: {
            unsigned fc = (unsigned)src.weighted({4, 3, 2, 1});
            do_build(m % 3, gen_keys(gen_size(fc), (unsigned)src.range(0, 2)));
            nsub += 8;
            check("build_heap", true);
            break;
        }
        case 4: { // arbitrary priority changes, then update_all()
            if (table) {
                size_t c = (size_t)src.range(0, 255);
                for (size_t j = 0; j < c; ++j) {
                    int k = (int)rng.below(U), p = gen_prio();
                    PBT_LOG("prio[" << k << "] = " << p << "\n");
                    if (stored(k) && p != prio[(size_t)k]) pbt::label("update_all_changed"), nt = true;
                    set_prio(k, p);
                }
            }
            PBT_LOG("update_all()\n");
            h.update_all();
            pbt::label("update_all");
            nsub += 8;
            check("update_all", true);
            break;
        }
        case 5:
            PBT_LOG("clear()\n");
            h.clear();
            m_clear();
            pbt::label("clear");
            check("clear", true);
            break;
        case 6: {
            unsigned how = m & 3;
            PBT_LOG("copy/move variant " << how << "\n");
            h.copy_move(how, gen_key());
            pbt::label("copy_move");
            nsub += 8;
            check("copy/move", true);
            break;
        }
        case 8: { // known layout steered towards the last internal node, then a few pops
            pbt::label("steered_pops");
            unsigned fc = (unsigned)src.weighted({4, 3, 2, 1});
            std::vector<int> lay = steered_layout(gen_size(fc));
            const size_t n = lay.size();
            if ((m & 3) == 3 && n <= 6000) {
                if (msize) {
                    PBT_LOG("clear()\n");
                    h.clear();
                    m_clear();
                }
                PBT_LOG("known layout by " << n << " pushes in array order\n");
                pbt::label("fill_by_push");
                for (size_t i = 0; i < n; ++i) do_push(lay[i], i & 1);
            } else do_build(m % 3, lay);
            nsub += 8;
            check("steered build", true);
            unsigned c = 1 + (unsigned)src.range(0, 3);
            for (unsigned j = 0; j < c && msize; ++j, nsub += 2) {
                do_pop(j & 1);
                check("steered pop", true);
            }
            break;
        }
        default: {
            size_t n = (size_t)rng.below(2 * NMAX);
            PBT_LOG("reserve(" << n << ")\n");
            h.reserve(n);
            PBT_CHECK(h.capacity() >= n, "C13/dary-reserve", "capacity() " << h.capacity() << " after reserve(" << n << ")");
            pbt::label("reserve");
            check("reserve", true);
            break;
        }
        }
    }
    check("history", true);

    PBT_LOG("drain of " << msize << " elements\n");
    bool have_prev = false;
    int64_t prev = 0;
    while (msize) {
        PBT_CHECK(!h.empty(), "C13/dary-size", "heap empty during drain but model still has " << msize << " elements");
        int t = h.extract_top();
        PBT_CHECK(stored(t) > 0, "C13/dary-drain-perm", "drain produced " << t << " which is not (any more) in the model; " << msize << " left");
        PBT_CHECK(!have_prev || pv(t) >= prev, "C13/dary-drain-order", "drain produced " << t << " (priority value " << pv(t) << ") after priority value " << prev);
        PBT_CHECK(is_min(t), "C13/dary-drain-order",
                  "drain produced " << t << " (priority value " << pv(t) << ") but an element with " << pvc.begin()->first << " is still stored; " << msize << " left");
        prev = pv(t), have_prev = true;
        m_del(t);
        PBT_CHECK(h.size() == msize, "C13/dary-size", "drain: size() " << h.size() << " but model has " << msize);
    }
    PBT_CHECK(h.empty() && h.size() == 0, "C13/dary-size", "heap not empty after draining the model: size " << h.size());
    if (nt) pbt::nontrivial();
}
