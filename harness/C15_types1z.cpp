// C15 (types) — family 1, zero-one sweeps per comparator kind (see C15_types_impl.hpp)
#include "C15_types_impl.hpp"
void c15_zero_one_cmp_fam1(int kind, int mode, int n, uint32_t first, uint32_t last) { c15t::zero_one_cmp_family<1>(kind, mode, n, first, last); }
