// C05 — 8-byte (key,seq,pos) records compared by key only (copy-based loser trees), raw pointers, unstable entry points
#include "C05_merge.hpp"

namespace c05 {
void run_rec8_u(pbt::Source& src, const Cfg& cfg) { run_case<Rec8, true, false>(src, cfg, DirCmp<Rec8>(cfg.desc)); }
} // namespace c05
