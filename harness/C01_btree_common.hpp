// C01 / C02 — shared history runner for the tlx B+ tree containers.
//
//   C01 (Mode::model):      every operation is mirrored on std::set / multiset / map /
//                           multimap and every returned value, iterator position and the
//                           whole contents are compared after every step.
//   C02 (Mode::invariants): same generator, no std model; after every mutating call the
//                           independent BTreeInspector walk, BTree::verify() (die -> exception),
//                           the allocator ledger and the element ledger are checked.
//
// The runner itself (C01_btree_history.cpp) is not a template: it talks to the container under
// test through the type-erased ITree interface and to the std container through IModel
// (C01_btree_models.cpp). One thin TreeAdapter<Cfg> per (leaf_slots, inner_slots,
// binsearch_threshold, container kind, comparator, element type, allocator) configuration does the
// actual public-API calls; the configurations are spread over several small TUs
// (C01_btree_cfg_*.cpp, C02_btree_cfg_*.cpp) that register themselves in a table; the first choice
// byte of a case selects the table entry.
#pragma once

namespace verif {
struct BTreeInspector;
}
// documented customisation point of btree.hpp: lets the harness walk nodes independently of verify()
#define TLX_BTREE_FRIENDS friend struct ::verif::BTreeInspector

#include "../engine/pbt.hpp"
#include "../engine/tracked.hpp"

#include <tlx/container/btree_map.hpp>
#include <tlx/container/btree_multimap.hpp>
#include <tlx/container/btree_multiset.hpp>
#include <tlx/container/btree_set.hpp>
#include <tlx/die/core.hpp>

#include <algorithm>
#include <climits>
#include <cstdio>
#include <deque>
#include <functional>
#include <iterator>
#include <list>
#include <map>
#include <memory>
#include <set>
#include <sstream>
#include <string>
#include <type_traits>
#include <utility>
#include <vector>

namespace verif {

typedef std::pair<int, int> KD; // (key, datum) as plain ints; datum 0 for sets

inline int key_int(int k) { return k; }
inline int key_int(const Tracked& t) { return t.value(); }

// ---------------------------------------------------------------------------------------------
// element types with a DESTRUCTIVE move (alias targets): std::string keys / data, verif::Tracked.
// The history runner and the std model keep talking in plain ints; an int k is stored in the tlx container as
//   Tracked(k)            (moved-from value: the poison Tracked::kMovedFrom)
//   std::string enc(k)    10 decimal digits of k + 2^31 (so the lexicographic order of the strings IS the numeric order
//                         of the ints: std::less<std::string> / std::greater<std::string> correspond to std::less<int> /
//                         std::greater<int> of the model) followed by a tail that keeps the string off the small-string
//                         buffer: the characters live on the heap, a move really empties the source, and ASan sees
//                         reads of a destroyed element.
// Decoding anything that is not such a string (in particular the empty string a move leaves behind) gives the same
// poison value, which no generator produces: a moved-from element that became part of the container's contents shows up
// as wrong contents (label C01/moved-from-element). C++ lets a moved-from value be observed only in the SOURCE of a
// move, never in what a container holds.
// ---------------------------------------------------------------------------------------------
static const int kPoison = Tracked::kMovedFrom;
static const char kStrTail[] = "-btree-element-kept-on-the-heap";
inline std::string enc_str(int k) {
    char buf[64];
    snprintf(buf, sizeof(buf), "%010u%s", (unsigned)k ^ 0x80000000u, kStrTail);
    return std::string(buf);
}
inline int key_int(const std::string& s) {
    if (s.size() != 10 + sizeof(kStrTail) - 1 || s.compare(10, std::string::npos, kStrTail) != 0) return kPoison;
    unsigned long v = 0;
    for (int i = 0; i < 10; ++i) {
        if (s[i] < '0' || s[i] > '9') return kPoison;
        v = v * 10 + (unsigned long)(s[i] - '0');
    }
    if (v > 0xFFFFFFFFul) return kPoison;
    return (int)((unsigned)v ^ 0x80000000u);
}
template <class E>
struct Elem {
    static E make(int k) { return E(k); }
};
template <>
struct Elem<std::string> {
    static std::string make(int k) { return enc_str(k); }
};

// ---------------------------------------------------------------------------------------------
// structure walk (friend of BTree, its iterators and the four facades)
// ---------------------------------------------------------------------------------------------
struct Walk {
    struct NI {
        const void* id;
        const void* parent;
        int level;
        int slotuse;
    };
    int height = 0; // number of levels, 0 = empty tree
    size_t leaves = 0, inners = 0, size = 0;
    std::vector<NI> nodes;             // DFS pre-order (left to right inside a level)
    std::vector<int> seps;             // every separator key in DFS order
    std::vector<const void*> leaf_ids; // leaves, left to right
    std::vector<int> leaf_fill;
    bool dup_spans = false;    // some run of equivalent keys continues in the next leaf
    const char* bad = nullptr; // first violated invariant (label) ...
    std::string msg;           // ... and its description
    void viol(const char* lab, const std::string& m) {
        if (!bad) {
            bad = lab;
            msg = m;
        }
    }
    void reset() {
        height = 0;
        leaves = inners = size = 0;
        nodes.clear();
        seps.clear();
        leaf_ids.clear();
        leaf_fill.clear();
        dup_spans = false;
        bad = nullptr;
        msg.clear();
    }
};

struct BTreeInspector {
    template <class It>
    static const void* leaf_of(const It& it) {
        return it.curr_leaf;
    }
    template <class It>
    static unsigned slot_of(const It& it) {
        return it.curr_slot;
    }

    //! the BTree behind a facade (or the BTree itself when the base class is used directly)
    template <class K, class V, class KoV, class Cmp, class Tr, bool D, class A>
    static const tlx::BTree<K, V, KoV, Cmp, Tr, D, A>& impl(const tlx::BTree<K, V, KoV, Cmp, Tr, D, A>& t) {
        return t;
    }
    template <class Facade>
    static const typename Facade::btree_impl& impl(const Facade& f) {
        return f.tree_;
    }

    //! independent walk over the node graph; never follows a pointer it has not validated
    template <class Facade>
    static void walk(const Facade& f, Walk& w) {
        typedef typename std::decay<decltype(impl(f))>::type Impl;
        typedef typename Impl::key_type key_type;
        const Impl& t = impl(f);
        w.reset();
        if (!t.root_) {
            if (t.head_leaf_ || t.tail_leaf_) w.viol("C02/inspect-empty", "root_ is null but head_leaf_/tail_leaf_ is not");
            if (t.stats_.size || t.stats_.leaves || t.stats_.inner_nodes) {
                std::ostringstream os;
                os << "empty tree reports size=" << t.stats_.size << " leaves=" << t.stats_.leaves
                   << " inner_nodes=" << t.stats_.inner_nodes;
                w.viol("C02/inspect-stats", os.str());
            }
            return;
        }
        w.height = t.root_->level + 1;
        if (w.height > 40) {
            w.viol("C02/inspect-level", "root level is absurd");
            return;
        }
        const key_type *mn = nullptr, *mx = nullptr;
        if (!node(t, t.root_, nullptr, t.root_->level, w, &mn, &mx)) return;

        // leaf chain: must enumerate exactly the tree's leaves, left to right, and mirror backwards
        const typename Impl::LeafNode* l = t.head_leaf_;
        const typename Impl::LeafNode* prev = nullptr;
        size_t idx = 0;
        bool chain_ok = true;
        if (!l) w.viol("C02/inspect-chain", "head_leaf_ is null in a non-empty tree"), chain_ok = false;
        while (l) {
            if (idx >= w.leaf_ids.size() || w.leaf_ids[idx] != (const void*)l) {
                std::ostringstream os;
                os << "forward leaf chain differs from the leaves of the tree at chain position " << idx;
                w.viol("C02/inspect-chain", os.str());
                chain_ok = false;
                break;
            }
            if (l->prev_leaf != prev) {
                std::ostringstream os;
                os << "prev_leaf of chain leaf " << idx << " is not the preceding leaf (backward chain is not the mirror)";
                w.viol("C02/inspect-chain", os.str());
            }
            if (prev) {
                const key_type& a = prev->key(prev->slotuse - 1);
                const key_type& b = l->key(0);
                if (t.key_less_(b, a)) {
                    std::ostringstream os;
                    os << "first key " << key_int(b) << " of leaf " << idx << " is smaller than last key " << key_int(a)
                       << " of the preceding leaf";
                    w.viol("C02/inspect-order", os.str());
                }
                else if (!t.key_less_(a, b)) {
                    if (!Impl::allow_duplicates) {
                        std::ostringstream os;
                        os << "duplicate key " << key_int(b) << " across leaves in a unique-key tree";
                        w.viol("C02/inspect-order", os.str());
                    }
                    w.dup_spans = true;
                }
            }
            prev = l;
            l = l->next_leaf;
            ++idx;
        }
        if (chain_ok) {
            if (idx != w.leaf_ids.size()) w.viol("C02/inspect-chain", "forward leaf chain ends before the last leaf");
            if ((const void*)t.tail_leaf_ != (const void*)prev) w.viol("C02/inspect-chain", "tail_leaf_ is not the last leaf");
        }
        if (t.stats_.size != w.size || t.stats_.leaves != w.leaves || t.stats_.inner_nodes != w.inners) {
            std::ostringstream os;
            os << "get_stats() says size=" << t.stats_.size << " leaves=" << t.stats_.leaves << " inner_nodes=" << t.stats_.inner_nodes
               << " but the structure has size=" << w.size << " leaves=" << w.leaves << " inner_nodes=" << w.inners;
            w.viol("C02/inspect-stats", os.str());
        }
    }

private:
    template <class Impl>
    static bool node(const Impl& t, const typename Impl::node* n, const void* parent, int level, Walk& w,
                     const typename Impl::key_type** mn, const typename Impl::key_type** mx) {
        typedef typename Impl::key_type key_type;
        if (!n) {
            w.viol("C02/inspect-level", "null child pointer");
            return false;
        }
        if (w.nodes.size() > 500000) {
            w.viol("C02/inspect-level", "node graph is cyclic or absurdly large");
            return false;
        }
        if (n->level != level) {
            std::ostringstream os;
            os << "node at depth for level " << level << " has level " << n->level << " (leaves not all at the same depth)";
            w.viol("C02/inspect-level", os.str());
            return false;
        }
        w.nodes.push_back(Walk::NI{n, parent, level, n->slotuse});
        const bool isroot = (n == t.root_);
        if (level == 0) {
            const typename Impl::LeafNode* l = static_cast<const typename Impl::LeafNode*>(n);
            if (l->slotuse > Impl::leaf_slotmax || l->slotuse == 0) {
                std::ostringstream os;
                os << "leaf with slotuse=" << l->slotuse << " (capacity " << Impl::leaf_slotmax << ")";
                w.viol("C02/inspect-fill", os.str());
                return false;
            }
            if (!isroot && l->slotuse < Impl::leaf_slotmin) {
                std::ostringstream os;
                os << "non-root leaf with slotuse=" << l->slotuse << " < " << Impl::leaf_slotmin << " (less than half full)";
                w.viol("C02/inspect-fill", os.str());
            }
            for (unsigned s = 0; s + 1 < l->slotuse; ++s) {
                const key_type &a = l->key(s), &b = l->key(s + 1);
                if (t.key_less_(b, a) || (!Impl::allow_duplicates && !t.key_less_(a, b))) {
                    std::ostringstream os;
                    os << "keys " << key_int(a) << "," << key_int(b) << " out of order inside a leaf";
                    w.viol("C02/inspect-order", os.str());
                }
            }
            ++w.leaves;
            w.size += l->slotuse;
            w.leaf_ids.push_back(l);
            w.leaf_fill.push_back(l->slotuse);
            *mn = &l->key(0);
            *mx = &l->key(l->slotuse - 1);
            return true;
        }
        const typename Impl::InnerNode* in = static_cast<const typename Impl::InnerNode*>(n);
        if (in->slotuse > Impl::inner_slotmax) {
            std::ostringstream os;
            os << "inner node with slotuse=" << in->slotuse << " (capacity " << Impl::inner_slotmax << ")";
            w.viol("C02/inspect-fill", os.str());
            return false;
        }
        if (in->slotuse == 0) w.viol("C02/inspect-fill", "inner node without any key");
        else if (!isroot && in->slotuse < Impl::inner_slotmin) {
            std::ostringstream os;
            os << "non-root inner node with slotuse=" << in->slotuse << " < " << Impl::inner_slotmin << " (less than half full)";
            w.viol("C02/inspect-fill", os.str());
        }
        ++w.inners;
        for (unsigned s = 0; s < in->slotuse; ++s) {
            w.seps.push_back(key_int(in->slotkey[s]));
            if (s + 1 < in->slotuse) {
                const key_type &a = in->slotkey[s], &b = in->slotkey[s + 1];
                if (t.key_less_(b, a) || (!Impl::allow_duplicates && !t.key_less_(a, b))) {
                    std::ostringstream os;
                    os << "separators " << key_int(a) << "," << key_int(b) << " out of order inside an inner node";
                    w.viol("C02/inspect-order", os.str());
                }
            }
        }
        for (unsigned s = 0; s <= in->slotuse; ++s) {
            const key_type *cmn = nullptr, *cmx = nullptr;
            if (!node(t, in->childid[s], in, level - 1, w, &cmn, &cmx)) return false;
            if (s == 0) *mn = cmn;
            else if (t.key_less_(*cmn, in->slotkey[s - 1])) {
                std::ostringstream os;
                os << "subtree right of separator " << key_int(in->slotkey[s - 1]) << " (level " << level << ") starts with the smaller key "
                   << key_int(*cmn);
                w.viol("C02/inspect-separator", os.str());
            }
            if (s == in->slotuse) *mx = cmx;
            else if (t.key_less_(in->slotkey[s], *cmx) || t.key_less_(*cmx, in->slotkey[s])) {
                std::ostringstream os;
                os << "separator " << key_int(in->slotkey[s]) << " (level " << level << ", slot " << s
                   << ") is not the largest key " << key_int(*cmx) << " of the subtree left of it";
                w.viol("C02/inspect-separator", os.str());
            }
        }
        return true;
    }
};

namespace bt {

// ---------------------------------------------------------------------------------------------
// configuration space
// ---------------------------------------------------------------------------------------------
enum Kind { SET = 0, MSET = 1, MAP = 2, MMAP = 3,
            RAWSET = 4, RAWMSET = 5 }; // tlx::BTree used directly (set-like, unique / duplicate keys) -- C02 only
enum CmpId { CMP_LESS = 0, CMP_GREATER = 1, CMP_STATE = 2 };

template <int Leaf, int Inner, size_t Bin>
struct Traits {
    static const bool self_verify = false;
    static const bool debug = false;
    static const int leaf_slots = Leaf;
    static const int inner_slots = Inner;
    static const size_t binsearch_threshold = Bin; // 0: always binary search, SIZE_MAX: always linear
};
static const size_t BINARY = 0;
static const size_t LINEAR = SIZE_MAX;

//! comparator object with state: the order is a runtime property of the *object* (descending and/or
//! coarse: keys with equal k>>shift are equivalent), so a container that loses or default-constructs
//! its comparator behaves observably differently.
template <class T>
struct VCmp {
    unsigned shift = 0;
    bool desc = false;
    VCmp() {}
    VCmp(unsigned s, bool d) : shift(s), desc(d) {}
    bool operator()(const T& a, const T& b) const {
        int x = key_int(a) >> shift, y = key_int(b) >> shift;
        return desc ? y < x : x < y;
    }
};
//! the same order, but the state is OWNED by the object through members with a non-trivial copy / destructive move
//! (a std::vector table and a heap-allocated std::string): a container that keeps using a comparator it has moved
//! from, copies it member-wise from released storage or forgets to copy it throws / orders differently.
template <class T>
struct VCmpOwn {
    std::vector<unsigned> st; // {shift, desc}
    std::string note;
    VCmpOwn() : st{0u, 0u}, note("default-constructed comparator state, long enough for the heap") {}
    VCmpOwn(unsigned s, bool d) : st{s, d ? 1u : 0u}, note("comparator state given by the caller, long enough for the heap") {}
    unsigned shift() const { return st.at(0); } // (a moved-from table is empty: std::out_of_range)
    bool desc() const { return st.at(1) != 0; }
    bool operator()(const T& a, const T& b) const {
        int x = key_int(a) >> shift(), y = key_int(b) >> shift();
        return desc() ? y < x : x < y;
    }
};
// ---------------------------------------------------------------------------------------------
// runaway-operation bound: the comparator handed to the tlx container counts its calls; the history
// runner arms a generous per-operation budget (far above what any correct B+ tree operation needs for
// the current tree: see History::arm_keys / arm_bulk in C01_btree_history.cpp). An operation that
// exceeds it (a search loop that never terminates) is reported as the labelled failure
// "<prefix>/runaway-operation" instead of a hang (which the framework can only count as inconclusive).
// The std model is instantiated with the plain comparator, so only calls made by tlx are counted.
// ---------------------------------------------------------------------------------------------
struct CmpBudget {
    unsigned long long calls = 0;
    unsigned long long limit = ~0ull; // ~0: not armed
    unsigned long long worst_permille = 0; // largest calls*1000/limit seen over the armed operations of this case
    // same idea for node allocations (BudgetAlloc): a copy / split / bulk-load loop that never ends allocates for ever
    unsigned long long allocs = 0;
    unsigned long long alloc_limit = ~0ull;
};
inline CmpBudget& cmp_budget() {
    static CmpBudget b;
    return b;
}
[[noreturn]] void cmp_runaway();   // C01_btree_history.cpp: pbt::fatal(".../runaway-operation", ...)
[[noreturn]] void alloc_runaway(); // ditto

//! stateless allocator (all instances equal, memory from operator new) that counts node allocations against the
//! per-operation budget
template <class T>
struct BudgetAlloc {
    typedef T value_type;
    typedef T* pointer;
    typedef const T* const_pointer;
    typedef T& reference;
    typedef const T& const_reference;
    typedef std::size_t size_type;
    typedef std::ptrdiff_t difference_type;
    template <class U>
    struct rebind {
        typedef BudgetAlloc<U> other;
    };
    BudgetAlloc() noexcept {}
    template <class U>
    BudgetAlloc(const BudgetAlloc<U>&) noexcept {}
    T* allocate(std::size_t n, const void* = nullptr) {
        CmpBudget& g = cmp_budget();
        if (++g.allocs > g.alloc_limit) alloc_runaway();
        return static_cast<T*>(::operator new(n * sizeof(T)));
    }
    void deallocate(T* p, std::size_t) noexcept { ::operator delete(p); }
    template <class U>
    bool operator==(const BudgetAlloc<U>&) const noexcept { return true; }
    template <class U>
    bool operator!=(const BudgetAlloc<U>&) const noexcept { return false; }
};

template <class Base>
struct Counted : Base {
    Counted() {}
    Counted(const Base& b) : Base(b) {} // implicit on purpose
    template <class T>
    bool operator()(const T& a, const T& b) const {
        CmpBudget& g = cmp_budget();
        if (++g.calls > g.limit) cmp_runaway();
        return Base::operator()(a, b);
    }
};

struct LessTag {
    template <class T>
    using of = std::less<T>;
    template <class T>
    static of<T> make(unsigned, bool) { return of<T>(); }
    template <class X>
    static void state(const X&, unsigned& s, bool& d) { s = 0, d = false; }
    static const CmpId id = CMP_LESS;
};
struct GreaterTag {
    template <class T>
    using of = std::greater<T>;
    template <class T>
    static of<T> make(unsigned, bool) { return of<T>(); }
    template <class X>
    static void state(const X&, unsigned& s, bool& d) { s = 0, d = true; }
    static const CmpId id = CMP_GREATER;
};
struct StateTag {
    template <class T>
    using of = VCmp<T>;
    template <class T>
    static of<T> make(unsigned s, bool d) { return of<T>(s, d); }
    template <class X>
    static void state(const X& c, unsigned& s, bool& d) { s = c.shift, d = c.desc; }
    static const CmpId id = CMP_STATE;
};

struct OwnTag { // same orders as StateTag (the std model uses VCmp<int> with the same state)
    template <class T>
    using of = VCmpOwn<T>;
    template <class T>
    static of<T> make(unsigned s, bool d) { return of<T>(s, d); }
    template <class X>
    static void state(const X& c, unsigned& s, bool& d) { s = c.shift(), d = c.desc(); }
    static const CmpId id = CMP_STATE;
};

//! static description of one configuration (what the non-template history runner needs to know)
struct CfgInfo {
    int id;
    const char* name;
    Kind kind;
    CmpId cmp;
    int leaf, inner;
    bool binary;
    bool counting; // CountingAllocator
    bool tracked;  // Tracked elements
    bool raw;      // tlx::BTree itself instead of one of the four facades
    const char* elem; // key (and data) type: "int", "Tracked", "string", "int/string", ... (labels)
    bool is_map() const { return kind == MAP || kind == MMAP; }
    bool multi() const { return kind == MSET || kind == MMAP; }
    bool stateful() const { return cmp == CMP_STATE; }
};

//! a position handed out by the container, decoded by the adapter with the container's own operators
struct Pos {
    size_t rank = 0;       // number of ++ from begin() until operator== says "same position"
    bool reachable = true; // false: never met between begin() and end() (non-canonical or foreign position)
    bool is_end = false;   // == end()
    KD value = KD(0, 0);   // *it (only if !is_end)
    const void* leaf = nullptr;
};
struct WalkState {
    bool eq_last = false, ne_last = false, eq_first = false;
    KD value = KD(0, 0), arrow = KD(0, 0);
    int key = 0;
};

//! type-erased view of one tlx container object: every call below is one call of the public API of
//! the concrete btree_set/multiset/map/multimap instantiation (plus decoding of the result)
struct ITree {
    virtual ~ITree() {}
    // construction: 0 T() 1 T(cmp) 2 T(alloc) 3 T(first,last) 4 T(first,last,cmp) 5 T(first,last,alloc)
    virtual ITree* make(unsigned variant, const std::vector<KD>& range, unsigned shift, bool desc) const = 0;
    virtual ITree* clone() const = 0;           // copy constructor
    virtual void assign(const ITree& from) = 0; // operator=
    virtual void swap(ITree& other) = 0;
    virtual void clear() = 0;
    virtual void relops(const ITree& other, bool out[6]) const = 0; // == != < > <= >=
    virtual size_t size() const = 0;
    virtual bool empty() const = 0;
    // variant bit0: insert2(key,data) (maps only), bit1: with hint iterator at hint_rank (of n)
    virtual void insert(int k, int d, unsigned variant, size_t hint_rank, size_t n, Pos& pos, bool& ok, bool& have_ok, bool want_rank) = 0;
    virtual void insert_range(const std::vector<KD>& v) = 0;
    virtual void bulk_load(const std::vector<KD>& v) = 0;
    virtual bool erase_one(int k) = 0;
    virtual size_t erase_key(int k) = 0;
    // ----- ALIASING calls: every argument is a reference to (a part of) an element stored in THIS container -----
    // The element at rank ra (of n) supplies the value / the key, the element at rank rb the data of insert2.
    // variant bit0: insert2(it_a->first, it_b->second) (maps only) instead of insert(*it_a); bit1: with hint at hint_rank
    virtual void insert_alias(size_t ra, size_t rb, unsigned variant, size_t hint_rank, size_t n, Pos& pos, bool& ok, bool& have_ok, bool want_rank) = 0;
    virtual bool erase_one_alias(size_t ra, size_t n) = 0;   // erase_one(key of *it_a)
    virtual size_t erase_key_alias(size_t ra, size_t n) = 0; // erase(key of *it_a)  -- the referenced element is among the erased ones
    // which: 0 exists 1 count 2 find 3 lower_bound 4 upper_bound 5 equal_range, argument = key of *it_a (by reference)
    virtual void query_alias(size_t ra, size_t n, unsigned which, bool constant, size_t& cnt, Pos& a, Pos& b, bool want_rank) = 0;
    virtual void swap_self() = 0; // c.swap(c)
    // cursor: 0 begin()+rank, 1 end()-(n-rank), 2 find(k), 3 lower_bound(k); (insert() also sets the cursor)
    virtual void locate(unsigned how, size_t rank, size_t n, int k, Pos& pos, bool want_rank) = 0;
    virtual void erase_cursor() = 0; // erase(iterator)
    virtual bool exists(int k) const = 0;
    virtual size_t count(int k) const = 0;
    virtual void find(int k, bool constant, Pos& pos, bool want_rank, size_t n) = 0;
    // which: 0 lower_bound 1 upper_bound 2 equal_range (a = first, b = second)
    virtual void bound(int k, unsigned which, bool constant, Pos& a, Pos& b, bool want_rank, size_t n) = 0;
    // kind: 0 iterator 1 const_iterator 2 reverse_iterator 3 const_reverse_iterator; backward: from the end with --
    virtual bool collect(unsigned kind, bool backward, size_t bound, std::vector<KD>& out) const = 0;
    virtual void walk_start(unsigned kind, size_t pos, size_t n) = 0;
    // mv: 0 ++i 1 i++ 2 --i 3 i--; for the postfix forms `old` describes the returned iterator
    virtual void walk_move(unsigned mv, bool deref_old, WalkState& old) = 0;
    virtual void walk_state(bool deref, WalkState& st) = 0;
    virtual size_t walk_rank(size_t n, bool& reachable) = 0;
    virtual const void* leaf_at(size_t rank, size_t n) = 0;
    virtual void inspect(Walk& w) const = 0;
    virtual void verify() const = 0; // throws when the self-check fails
    virtual bool less(int a, int b) const = 0;
    virtual void cmp_state(unsigned& shift, bool& desc) const = 0;

    // ===== public members found by the API audit (round 7). The observers are called without any draw by every target;
    // the operations are driven by the targets btree_api (C01) / btree_api_invariants (C02) only. =====
    struct Stats { // get_stats() through the PUBLIC accessor of the facade (the inspector reads the private member)
        size_t size = 0, leaves = 0, inner_nodes = 0, nodes = 0;
        double avgfill = 0; // avgfill_leaves(), only evaluated when leaves > 0
        unsigned leaf_slots = 0, inner_slots = 0;
    };
    virtual void stats(Stats& s) const = 0;
    virtual size_t max_size() const = 0;
    virtual long alloc_arena() const = 0;                                         // get_allocator(): arena of an ArenaAllocator, -1 for a stateless one
    virtual bool alloc_equal(const ITree& other) const = 0;                       // get_allocator() == other.get_allocator()
    virtual bool value_less(const KD& a, const KD& b, bool& available) const = 0; // value_comp()(a, b)
    virtual int default_datum() const = 0;                                        // key_int(data_type()) (maps), 0 otherwise
    // btree_map::operator[]: r = t[k]; before = r; if (write) r = d; after = t[k]; same = (&t[k] == &r). false: the kind has no operator[]
    virtual bool subscript(int k, bool write, int d, int& before, int& after, bool& same) = 0;
    virtual bool write_cursor(int d, bool arrow) = 0; // (*cur).second = d / cur->second = d (maps and multimaps; cur from locate())
    // insert(first,last) with iterator kind itk: 0 vector::iterator 1 single-pass input iterator 2 const value_type* 3 std::list::const_iterator
    //   4 iterators over std::pair<const Key, Data> (maps; sets: std::deque::const_iterator)
    virtual void insert_range_it(const std::vector<KD>& v, unsigned itk) = 0;
    // bulk_load(first,last) with iterator kind itk: 0 vector::iterator 1 const value_type* 2 std::deque::const_iterator 3 vector::const_iterator
    virtual void bulk_load_it(const std::vector<KD>& v, unsigned itk) = 0;
    virtual ITree* move_clone() = 0;           // Tree(std::move(*this))
    virtual void move_assign(ITree& from) = 0; // *this = std::move(from)
    virtual void std_swap(ITree& other) = 0;   // using std::swap; swap(a, b)  (no overload in tlx: the generic std::swap)
    // conversions between the four iterator flavours and use of the iterators with the std iterator algorithms, at
    // position pos of n; every comparison is made with the container's own operators; returns the first discrepancy ("" = none).
    // flags: bit0 the shape was skipped (the converted (leaf,slot) pair is not canonical in the target flavour)
    virtual std::string convert(unsigned which, size_t pos, size_t n, unsigned& flags) = 0;
};

//! a genuine INPUT iterator over a vector: single pass (a position another copy has moved past may not be read again)
template <class V>
struct SinglePassIt {
    typedef std::input_iterator_tag iterator_category;
    typedef V value_type;
    typedef std::ptrdiff_t difference_type;
    typedef const V* pointer;
    typedef const V& reference;
    const std::vector<V>* v = nullptr;
    size_t i = 0;
    size_t* high = nullptr; // positions < *high have been passed by some copy
    SinglePassIt() {}
    SinglePassIt(const std::vector<V>* vv, size_t ii, size_t* h) : v(vv), i(ii), high(h) {}
    reference operator*() const {
        if (i < *high) pbt::fatal("harness/input-iterator-reread", "the container read a position of a single-pass input range again after moving past it");
        return (*v)[i];
    }
    pointer operator->() const { return &**this; }
    SinglePassIt& operator++() {
        ++i;
        if (i > *high) *high = i;
        return *this;
    }
    SinglePassIt operator++(int) {
        SinglePassIt tmp = *this;
        ++*this;
        return tmp;
    }
    bool operator==(const SinglePassIt& o) const { return i == o.i; }
    bool operator!=(const SinglePassIt& o) const { return i != o.i; }
};

//! type-erased std::set / multiset / map / multimap (C01 only)
struct IModel {
    virtual ~IModel() {}
    virtual IModel* make(bool with_cmp, const std::vector<KD>& range, unsigned shift, bool desc) const = 0;
    virtual IModel* clone() const = 0;
    virtual void assign(const IModel& from) = 0;
    virtual void swap(IModel& other) = 0;
    virtual void clear() = 0;
    virtual void relops(const IModel& other, bool out[6]) const = 0;
    virtual size_t size() const = 0;
    virtual bool empty() const = 0;
    virtual void insert(int k, int d, size_t& rank, bool& ok, KD& at) = 0; // insert(value_type)
    virtual void insert_range(const std::vector<KD>& v) = 0;
    virtual void append(const std::vector<KD>& v) = 0; // insert(end(), x) for a sequence sorted by this comparator
    virtual size_t erase_key(int k) = 0;
    virtual void erase_rank(size_t r) = 0;
    virtual bool erase_entry(int k, const KD& e) = 0; // erase one entry equal to e from the run of k
    virtual size_t count(int k) const = 0;
    virtual size_t lower_rank(int k) const = 0;
    virtual size_t upper_rank(int k) const = 0;
    virtual void seq(std::vector<KD>& out) const = 0;
    virtual bool less(int a, int b) const = 0;
    virtual void cmp_state(unsigned& shift, bool& desc) const = 0;
    // API audit additions
    virtual bool value_less(const KD& a, const KD& b) const = 0;                // value_comp()(a, b)
    virtual bool subscript(int k, bool write, int d, int& before, int& after) = 0; // std::map::operator[]; false: not a map
    virtual void write_rank(size_t r, int d) = 0;                               // (begin()+r)->second = d (map / multimap)
};
typedef IModel* (*ModelFactory)(Kind, CmpId, unsigned shift, bool desc);
ModelFactory& model_factory(); // defined in C01_btree_history.cpp; set by C01_btree_models.cpp

// ---------------------------------------------------------------------------------------------
// concrete configuration = tlx container type + adapter
// ---------------------------------------------------------------------------------------------
template <Kind K, class Key, class Dat, class Cmp, class Tr, template <class> class Alloc>
struct TreeOf;
template <class Key, class Dat, class Cmp, class Tr, template <class> class Alloc>
struct TreeOf<SET, Key, Dat, Cmp, Tr, Alloc> {
    typedef tlx::btree_set<Key, Cmp, Tr, Alloc<Key> > type;
};
template <class Key, class Dat, class Cmp, class Tr, template <class> class Alloc>
struct TreeOf<MSET, Key, Dat, Cmp, Tr, Alloc> {
    typedef tlx::btree_multiset<Key, Cmp, Tr, Alloc<Key> > type;
};
template <class Key, class Dat, class Cmp, class Tr, template <class> class Alloc>
struct TreeOf<MAP, Key, Dat, Cmp, Tr, Alloc> {
    typedef tlx::btree_map<Key, Dat, Cmp, Tr, Alloc<std::pair<Key, Dat> > > type;
};
template <class Key, class Dat, class Cmp, class Tr, template <class> class Alloc>
struct TreeOf<MMAP, Key, Dat, Cmp, Tr, Alloc> {
    typedef tlx::btree_multimap<Key, Dat, Cmp, Tr, Alloc<std::pair<Key, Dat> > > type;
};

template <class Key>
struct IdentityKey {
    static const Key& get(const Key& v) { return v; }
};
template <class Key, class Dat, class Cmp, class Tr, template <class> class Alloc>
struct TreeOf<RAWSET, Key, Dat, Cmp, Tr, Alloc> {
    typedef tlx::BTree<Key, Key, IdentityKey<Key>, Cmp, Tr, false, Alloc<Key> > type;
};
template <class Key, class Dat, class Cmp, class Tr, template <class> class Alloc>
struct TreeOf<RAWMSET, Key, Dat, Cmp, Tr, Alloc> {
    typedef tlx::BTree<Key, Key, IdentityKey<Key>, Cmp, Tr, true, Alloc<Key> > type;
};

template <class T>
struct ElemName {
    static const char* get() { return "int"; }
};
template <>
struct ElemName<Tracked> {
    static const char* get() { return "Tracked"; }
};
template <>
struct ElemName<std::string> {
    static const char* get() { return "string"; }
};

template <int ID, Kind K, int L, int I, size_t B, class CT, class KeyT, bool Counting, bool CountCmp = false, class DatT = KeyT>
struct Cfg {
    static const int id = ID;
    static const bool raw = (K == RAWSET || K == RAWMSET);
    static const Kind kind = (K == RAWSET ? SET : K == RAWMSET ? MSET : K); // which std container it corresponds to
    static const int leaf = L, inner = I;
    static const bool is_map = (K == MAP || K == MMAP);
    static const bool multi = (K == MSET || K == MMAP || K == RAWMSET);
    static const bool counting = Counting;
    static const bool binary = (B == 0);
    typedef CT cmp_tag;
    typedef KeyT Key;
    typedef DatT Dat;
    static const bool tracked = std::is_same<Key, Tracked>::value || (is_map && std::is_same<Dat, Tracked>::value);
    static Key key(int k) { return Elem<Key>::make(k); }
    static Dat dat(int d) { return Elem<Dat>::make(d); }
    static const char* elem_name() {
        static const std::string n = (is_map && !std::is_same<Key, Dat>::value) ? std::string(ElemName<Key>::get()) + "/" + ElemName<Dat>::get()
                                                                                : std::string(ElemName<Key>::get());
        return n.c_str();
    }
    typedef typename CT::template of<Key> BaseCmp;
    typedef typename std::conditional<CountCmp, Counted<BaseCmp>, BaseCmp>::type TCmp; // C01: call-counting wrapper (runaway bound)
    template <class T>
    using Alloc = typename std::conditional<Counting, ArenaAllocator<T>, // stateful: one arena per container
                                            typename std::conditional<CountCmp, BudgetAlloc<T>, std::allocator<T> >::type>::type;
    typedef typename TreeOf<K, Key, Dat, TCmp, Traits<L, I, B>, Alloc>::type Tree;
    typedef typename Tree::value_type value_type;

    static value_type make(int k, int d) {
        if constexpr (is_map) return value_type(key(k), dat(d));
        else return key(k);
    }
    static KD val(const value_type& v) {
        if constexpr (is_map) return KD(key_int(v.first), key_int(v.second));
        else return KD(key_int(v), 0);
    }
};

template <class C>
class TreeAdapter final : public ITree {
    typedef typename C::Tree Tree;
    typedef typename C::Key Key;
    typedef typename C::value_type value_type;
    typedef typename C::TCmp TCmp;
    typedef typename Tree::allocator_type TAlloc;
    typedef typename Tree::iterator iterator;
    typedef typename Tree::const_iterator const_iterator;
    typedef typename Tree::reverse_iterator reverse_iterator;
    typedef typename Tree::const_reverse_iterator const_reverse_iterator;

    Tree t;
    iterator cur; // cursor for erase(iterator)
    unsigned wkind = 0;
    iterator wi;
    const_iterator wci;
    reverse_iterator wri;
    const_reverse_iterator wcri;

    static const TreeAdapter& down(const ITree& x) { return static_cast<const TreeAdapter&>(x); }
    static TreeAdapter& down(ITree& x) { return static_cast<TreeAdapter&>(x); }
    const Tree& ct() const { return t; }

    static void to_vals(const std::vector<KD>& in, std::vector<value_type>& out) {
        out.reserve(in.size());
        for (const KD& e : in) out.push_back(C::make(e.first, e.second));
    }
    template <class It>
    static It advance_to(It first, It last, size_t r, size_t n) {
        if (r <= n / 2) {
            for (size_t i = 0; i < r; ++i) ++first;
            return first;
        }
        for (size_t i = n; i > r; --i) --last;
        return last;
    }
    //! rank by walking from first with the container's own operator==
    template <class It>
    static size_t rank_of(It first, It last, const It& it, size_t n, bool& reachable) {
        size_t r = 0;
        reachable = true;
        for (It i = first;; ++i, ++r) {
            if (i == it) return r;
            if (i == last || r > n + 2) break;
        }
        reachable = false;
        return r;
    }
    template <class It>
    void decode(const It& it, const It& first, const It& last, Pos& p, bool want_rank, size_t n) const {
        p = Pos();
        p.is_end = (it == last);
        p.leaf = BTreeInspector::leaf_of(it);
        if (want_rank) p.rank = rank_of(first, last, it, n, p.reachable);
        if (!p.is_end && p.reachable) p.value = C::val(*it);
    }

public:
    struct Build {};
    template <class... A>
    explicit TreeAdapter(Build, A&&... a) : t(std::forward<A>(a)...) {}

private:
    // ----- construction -----
    //! get_allocator() of a container constructed with an explicit allocator instance must be that instance
    static ITree* checked_alloc(TreeAdapter* r, const TAlloc& al) {
        const bool same = (r->t.get_allocator() == al) && !(r->t.get_allocator() != al);
        if (!same) {
            delete r;
            pbt::fail(C::counting ? "C02/get-allocator" : "C01/get-allocator", "get_allocator() of a container constructed with an explicit allocator is not equal to that allocator");
        }
        return r;
    }
    //! calls f(first, last) with the values of v presented through iterators of kind itk (see ITree::insert_range_it)
    //! (All = false: only the kinds 0..2 are compiled -- used for the constructors, four forms each, to bound the compile time)
    template <bool All, class F>
    static void with_range(const std::vector<value_type>& v, unsigned itk, F&& f) {
        if (!All && itk > 2) itk = 1 + (itk & 1);
        switch (itk) {
        case 1: {
            size_t high = 0;
            f(SinglePassIt<value_type>(&v, 0, &high), SinglePassIt<value_type>(&v, v.size(), &high));
            break;
        }
        case 2: {
            const value_type* p = v.data();
            f(p, p + v.size());
            break;
        }
        case 3: {
            if constexpr (All) {
                std::list<value_type> l(v.begin(), v.end());
                f(l.cbegin(), l.cend());
            }
            break;
        }
        case 4: {
            if constexpr (!All) break;
            else if constexpr (C::is_map) { // element type convertible to value_type (what iterating a std::map gives)
                std::vector<std::pair<const Key, typename C::Dat> > w(v.begin(), v.end());
                f(w.begin(), w.end());
            }
            else {
                std::deque<value_type> d(v.begin(), v.end());
                f(d.cbegin(), d.cend());
            }
            break;
        }
        default: {
            std::vector<value_type> w(v);
            f(w.begin(), w.end());
            break;
        }
        }
    }
    template <class It>
    static ITree* make_range(unsigned form, It f, It l, const TCmp& cmp) {
        switch (form) {
        case 3: return new TreeAdapter(Build(), f, l);
        case 4: return new TreeAdapter(Build(), f, l, cmp);
        case 5: {
            TAlloc al;
            return checked_alloc(new TreeAdapter(Build(), f, l, al), al);
        }
        default: {
            TAlloc al;
            return checked_alloc(new TreeAdapter(Build(), f, l, cmp, al), al);
        }
        }
    }

public:
    // variant & 15: 0 T() 1 T(cmp) 2 T(alloc) 3 T(first,last) 4 T(first,last,cmp) 5 T(first,last,alloc) 6 T(cmp,alloc) 7 T(first,last,cmp,alloc)
    // variant >> 4: iterator kind of the range: 0 vector::iterator 1 single-pass input iterator 2 const value_type*
    ITree* make(unsigned variant, const std::vector<KD>& range, unsigned shift, bool desc) const override {
        TCmp cmp = C::cmp_tag::template make<Key>(shift, desc);
        const unsigned form = variant & 15, itk = variant >> 4;
        switch (form) {
        case 0: return new TreeAdapter(Build());
        case 1: return new TreeAdapter(Build(), cmp);
        case 2: {
            TAlloc al;
            return checked_alloc(new TreeAdapter(Build(), al), al);
        }
        case 6: {
            TAlloc al;
            return checked_alloc(new TreeAdapter(Build(), cmp, al), al);
        }
        default: break;
        }
        std::vector<value_type> v;
        to_vals(range, v);
        if (itk == 0) return make_range(form, v.begin(), v.end(), cmp);
        ITree* r = nullptr;
        with_range<false>(v, itk, [&](auto f, auto l) { r = make_range(form, f, l, cmp); });
        return r;
    }
    ITree* clone() const override { return new TreeAdapter(Build(), t); }
    void assign(const ITree& from) override {
        const Tree& o = down(from).t;
        Tree& r = (t = o);
        if (&r != &t) pbt::fail(C::counting ? "C02/assign-result" : "C01/assign-result", "operator= did not return a reference to *this");
    }
    void swap(ITree& other) override { t.swap(down(other).t); }
    void clear() override { t.clear(); }
    void relops(const ITree& other, bool out[6]) const override {
        const Tree &a = t, &b = down(other).t;
        out[0] = (a == b), out[1] = (a != b), out[2] = (a < b), out[3] = (a > b), out[4] = (a <= b), out[5] = (a >= b);
    }
    size_t size() const override { return t.size(); }
    bool empty() const override { return t.empty(); }

    void insert(int k, int d, unsigned variant, size_t hint_rank, size_t n, Pos& pos, bool& ok, bool& have_ok, bool want_rank) override {
        value_type v = C::make(k, d);
        const bool two = (variant & 1) != 0, hint = (variant & 2) != 0;
        ok = true;
        have_ok = false;
        iterator it;
        if (hint) {
            iterator h = advance_to(t.begin(), t.end(), hint_rank, n);
            if constexpr (C::is_map) it = two ? t.insert2(h, v.first, v.second) : t.insert(h, v);
            else it = t.insert(h, v);
        }
        else if constexpr (C::multi && !C::raw) {
            if constexpr (C::is_map) it = two ? t.insert2(v.first, v.second) : t.insert(v);
            else it = t.insert(v);
        }
        else if constexpr (C::multi) it = t.insert(v).first; // BTree::insert always returns (iterator, bool)
        else {
            std::pair<iterator, bool> r;
            if constexpr (C::is_map) r = two ? t.insert2(v.first, v.second) : t.insert(v);
            else r = t.insert(v);
            it = r.first;
            ok = r.second;
            have_ok = true;
        }
        cur = it;
        decode(it, t.begin(), t.end(), pos, want_rank, n + 1);
    }
    void insert_range(const std::vector<KD>& in) override {
        std::vector<value_type> v;
        to_vals(in, v);
        t.insert(v.begin(), v.end());
    }
    void bulk_load(const std::vector<KD>& in) override {
        std::vector<value_type> v;
        to_vals(in, v);
        t.bulk_load(v.begin(), v.end());
    }
    bool erase_one(int k) override { return t.erase_one(C::key(k)); }
    size_t erase_key(int k) override { return t.erase(C::key(k)); }
    // ----- aliasing calls -----
    static const Key& key_of(const value_type& v) {
        if constexpr (C::is_map) return v.first;
        else return v;
    }
    void insert_alias(size_t ra, size_t rb, unsigned variant, size_t hint_rank, size_t n, Pos& pos, bool& ok, bool& have_ok, bool want_rank) override {
        const bool two = (variant & 1) != 0, hint = (variant & 2) != 0;
        ok = true;
        have_ok = false;
        iterator ia = advance_to(t.begin(), t.end(), ra, n);
        iterator ib = (rb == ra) ? ia : advance_to(t.begin(), t.end(), rb, n);
        const value_type& v = *ia; // lives inside the container that is about to be modified
        (void)ib;
        iterator it;
        if (hint) {
            iterator h = (hint_rank == ra) ? ia : advance_to(t.begin(), t.end(), hint_rank, n);
            if constexpr (C::is_map) it = two ? t.insert2(h, v.first, (*ib).second) : t.insert(h, v);
            else it = t.insert(h, v);
        }
        else if constexpr (C::multi && !C::raw) {
            if constexpr (C::is_map) it = two ? t.insert2(v.first, (*ib).second) : t.insert(v);
            else it = t.insert(v);
        }
        else if constexpr (C::multi) it = t.insert(v).first;
        else {
            std::pair<iterator, bool> r;
            if constexpr (C::is_map) r = two ? t.insert2(v.first, (*ib).second) : t.insert(v);
            else r = t.insert(v);
            it = r.first;
            ok = r.second;
            have_ok = true;
        }
        cur = it;
        decode(it, t.begin(), t.end(), pos, want_rank, n + 1);
    }
    bool erase_one_alias(size_t ra, size_t n) override {
        iterator ia = advance_to(t.begin(), t.end(), ra, n);
        return t.erase_one(key_of(*ia));
    }
    size_t erase_key_alias(size_t ra, size_t n) override {
        iterator ia = advance_to(t.begin(), t.end(), ra, n);
        return t.erase(key_of(*ia));
    }
    void query_alias(size_t ra, size_t n, unsigned which, bool constant, size_t& cnt, Pos& a, Pos& b, bool want_rank) override {
        const_iterator ia = advance_to(ct().begin(), ct().end(), ra, n);
        const Key& key = key_of(*ia);
        cnt = 0;
        switch (which) {
        case 0: cnt = t.exists(key) ? 1 : 0; break;
        case 1: cnt = t.count(key); break;
        case 2:
            if (constant) decode(ct().find(key), ct().begin(), ct().end(), a, want_rank, n);
            else decode(t.find(key), t.begin(), t.end(), a, want_rank, n);
            break;
        case 3:
            if (constant) decode(ct().lower_bound(key), ct().begin(), ct().end(), a, want_rank, n);
            else decode(t.lower_bound(key), t.begin(), t.end(), a, want_rank, n);
            break;
        case 4:
            if (constant) decode(ct().upper_bound(key), ct().begin(), ct().end(), a, want_rank, n);
            else decode(t.upper_bound(key), t.begin(), t.end(), a, want_rank, n);
            break;
        default:
            if (constant) {
                std::pair<const_iterator, const_iterator> r = ct().equal_range(key);
                decode(r.first, ct().begin(), ct().end(), a, want_rank, n);
                decode(r.second, ct().begin(), ct().end(), b, want_rank, n);
            }
            else {
                std::pair<iterator, iterator> r = t.equal_range(key);
                decode(r.first, t.begin(), t.end(), a, want_rank, n);
                decode(r.second, t.begin(), t.end(), b, want_rank, n);
            }
            break;
        }
    }
    void swap_self() override { t.swap(t); }

    void locate(unsigned how, size_t rank, size_t n, int k, Pos& pos, bool want_rank) override {
        switch (how) {
        case 0: {
            cur = t.begin();
            for (size_t i = 0; i < rank; ++i) ++cur;
            break;
        }
        case 1: {
            cur = t.end();
            for (size_t i = n; i > rank; --i) --cur;
            break;
        }
        case 2: cur = t.find(C::key(k)); break;
        default: cur = t.lower_bound(C::key(k)); break;
        }
        decode(cur, t.begin(), t.end(), pos, want_rank, n);
    }
    void erase_cursor() override { t.erase(cur); }
    bool exists(int k) const override { return t.exists(C::key(k)); }
    size_t count(int k) const override { return t.count(C::key(k)); }
    void find(int k, bool constant, Pos& pos, bool want_rank, size_t n) override {
        if (constant) decode(ct().find(C::key(k)), ct().begin(), ct().end(), pos, want_rank, n);
        else decode(t.find(C::key(k)), t.begin(), t.end(), pos, want_rank, n);
    }
    void bound(int k, unsigned which, bool constant, Pos& a, Pos& b, bool want_rank, size_t n) override {
        Key key(C::key(k));
        if (constant) {
            const_iterator f = ct().begin(), l = ct().end();
            if (which == 0) decode(ct().lower_bound(key), f, l, a, want_rank, n);
            else if (which == 1) decode(ct().upper_bound(key), f, l, a, want_rank, n);
            else {
                std::pair<const_iterator, const_iterator> r = ct().equal_range(key);
                decode(r.first, f, l, a, want_rank, n);
                decode(r.second, f, l, b, want_rank, n);
            }
        }
        else {
            iterator f = t.begin(), l = t.end();
            if (which == 0) decode(t.lower_bound(key), f, l, a, want_rank, n);
            else if (which == 1) decode(t.upper_bound(key), f, l, a, want_rank, n);
            else {
                std::pair<iterator, iterator> r = t.equal_range(key);
                decode(r.first, f, l, a, want_rank, n);
                decode(r.second, f, l, b, want_rank, n);
            }
        }
    }

private:
    template <class It>
    static bool collect_impl(It first, It last, bool backward, size_t bound, std::vector<KD>& out) {
        out.clear();
        if (!backward) {
            for (It it = first; it != last; ++it) {
                if (out.size() > bound) return false;
                out.push_back(C::val(*it));
            }
        }
        else {
            for (It it = last; it != first;) {
                if (out.size() > bound) return false;
                --it;
                out.push_back(C::val(*it));
            }
            std::reverse(out.begin(), out.end());
        }
        return true;
    }
    template <class It>
    static void state_impl(const It& x, const It& first, const It& last, bool deref, WalkState& st) {
        st = WalkState();
        st.eq_last = (x == last);
        st.ne_last = (x != last);
        st.eq_first = (x == first);
        if (deref) {
            st.value = C::val(*x);
            st.arrow = C::val(*(x.operator->()));
            st.key = key_int(x.key());
        }
    }
    template <class It>
    static void move_impl(It& it, const It& first, const It& last, unsigned mv, bool deref_old, WalkState& old) {
        switch (mv) {
        case 0: ++it; break;
        case 1: {
            It prev = it++;
            state_impl(prev, first, last, deref_old, old);
            break;
        }
        case 2: --it; break;
        default: {
            It prev = it--;
            state_impl(prev, first, last, deref_old, old);
            break;
        }
        }
    }

public:
    bool collect(unsigned kind, bool backward, size_t bound, std::vector<KD>& out) const override {
        Tree& mt = const_cast<Tree&>(t); // the non-const overloads of begin()/end() are part of the API under test
        switch (kind) {
        case 0: return collect_impl(mt.begin(), mt.end(), backward, bound, out);
        case 1: return collect_impl(ct().begin(), ct().end(), backward, bound, out);
        case 2: return collect_impl(mt.rbegin(), mt.rend(), backward, bound, out);
        default: return collect_impl(ct().rbegin(), ct().rend(), backward, bound, out);
        }
    }
    void walk_start(unsigned kind, size_t pos, size_t n) override {
        wkind = kind;
        switch (kind) {
        case 0: wi = advance_to(t.begin(), t.end(), pos, n); break;
        case 1: wci = advance_to(ct().begin(), ct().end(), pos, n); break;
        case 2: wri = advance_to(t.rbegin(), t.rend(), pos, n); break;
        default: wcri = advance_to(ct().rbegin(), ct().rend(), pos, n); break;
        }
    }
    void walk_move(unsigned mv, bool deref_old, WalkState& old) override {
        switch (wkind) {
        case 0: move_impl(wi, t.begin(), t.end(), mv, deref_old, old); break;
        case 1: move_impl(wci, ct().begin(), ct().end(), mv, deref_old, old); break;
        case 2: move_impl(wri, t.rbegin(), t.rend(), mv, deref_old, old); break;
        default: move_impl(wcri, ct().rbegin(), ct().rend(), mv, deref_old, old); break;
        }
    }
    void walk_state(bool deref, WalkState& st) override {
        switch (wkind) {
        case 0: state_impl(wi, t.begin(), t.end(), deref, st); break;
        case 1: state_impl(wci, ct().begin(), ct().end(), deref, st); break;
        case 2: state_impl(wri, t.rbegin(), t.rend(), deref, st); break;
        default: state_impl(wcri, ct().rbegin(), ct().rend(), deref, st); break;
        }
    }
    size_t walk_rank(size_t n, bool& reachable) override {
        switch (wkind) {
        case 0: return rank_of(t.begin(), t.end(), wi, n, reachable);
        case 1: return rank_of(ct().begin(), ct().end(), wci, n, reachable);
        case 2: return rank_of(t.rbegin(), t.rend(), wri, n, reachable);
        default: return rank_of(ct().rbegin(), ct().rend(), wcri, n, reachable);
        }
    }
    const void* leaf_at(size_t rank, size_t n) override { return BTreeInspector::leaf_of(advance_to(t.begin(), t.end(), rank, n)); }
    void inspect(Walk& w) const override { BTreeInspector::walk(t, w); }
    void verify() const override { t.verify(); }
    bool less(int a, int b) const override { return t.key_comp()(C::key(a), C::key(b)); }
    void cmp_state(unsigned& shift, bool& desc) const override { C::cmp_tag::state(t.key_comp(), shift, desc); }

    // ===== API audit additions =====
private:
    template <class A>
    static long arena_of(const A&) { return -1; }
    template <class T>
    static long arena_of(const ArenaAllocator<T>& a) { return a.arena; }

public:
    void stats(Stats& s) const override {
        const typename Tree::tree_stats& st = ct().get_stats();
        s.size = st.size, s.leaves = st.leaves, s.inner_nodes = st.inner_nodes, s.nodes = st.nodes();
        s.avgfill = st.leaves ? st.avgfill_leaves() : 0.0;
        s.leaf_slots = st.leaf_slots, s.inner_slots = st.inner_slots;
    }
    size_t max_size() const override { return ct().max_size(); }
    long alloc_arena() const override { return arena_of(ct().get_allocator()); }
    bool alloc_equal(const ITree& other) const override {
        return (ct().get_allocator() == down(other).ct().get_allocator()) && !(ct().get_allocator() != down(other).ct().get_allocator());
    }
    bool value_less(const KD& a, const KD& b, bool& available) const override {
        typename Tree::value_compare vc = ct().value_comp(); // (constructing the object is possible for every kind)
        available = true;
        if constexpr (C::is_map) return vc(C::make(a.first, a.second), C::make(b.first, b.second));
        else {
#ifdef VERIF_BTREE_API_FIXES // value_compare::operator() does not compile for the set kinds (fixes/C01/new-set-value-comp.txt)
            return vc(C::make(a.first, a.second), C::make(b.first, b.second));
#else
            (void)vc;
            available = false;
            return false;
#endif
        }
    }
    int default_datum() const override {
        if constexpr (C::is_map) return key_int(typename C::Dat());
        else return 0;
    }
    bool subscript(int k, bool write, int d, int& before, int& after, bool& same) override {
        if constexpr (C::kind == MAP && !C::raw) {
            typedef typename C::Dat Dat;
            const Key key(C::key(k));
            Dat& r = t[key];
            before = key_int(r);
            if (write) r = C::dat(d);
            Dat& r2 = t[key]; // must find the element created / found by the first call
            after = key_int(r2);
            same = (&r2 == &r);
            cur = t.find(key);
            return true;
        }
        else {
            (void)k, (void)write, (void)d, (void)before, (void)after, (void)same;
            return false;
        }
    }
    bool write_cursor(int d, bool arrow) override {
        if constexpr (C::is_map) {
            if (arrow) cur->second = C::dat(d);
            else (*cur).second = C::dat(d);
            return true;
        }
        else {
            (void)d, (void)arrow;
            return false;
        }
    }
    void insert_range_it(const std::vector<KD>& in, unsigned itk) override {
        std::vector<value_type> v;
        to_vals(in, v);
        with_range<true>(v, itk, [&](auto f, auto l) { t.insert(f, l); });
    }
    void bulk_load_it(const std::vector<KD>& in, unsigned itk) override {
        std::vector<value_type> v;
        to_vals(in, v);
        switch (itk) {
        case 1: {
            const value_type* p = v.data();
            t.bulk_load(p, p + v.size());
            break;
        }
        case 2: {
            std::deque<value_type> dq(v.begin(), v.end());
            t.bulk_load(dq.cbegin(), dq.cend());
            break;
        }
        case 3: t.bulk_load(v.cbegin(), v.cend()); break;
        default: t.bulk_load(v.begin(), v.end()); break;
        }
    }
    ITree* move_clone() override { return new TreeAdapter(Build(), std::move(t)); }
    void move_assign(ITree& from) override {
        Tree& r = (t = std::move(down(from).t));
        if (&r != &t) pbt::fail(C::counting ? "C02/assign-result" : "C01/assign-result", "operator= (rvalue argument) did not return a reference to *this");
    }
    void std_swap(ITree& other) override {
        using std::swap;
        swap(t, down(other).t);
    }

    std::string convert(unsigned which, size_t pos, size_t n, unsigned& flags) override {
        flags = 0;
        std::ostringstream os;
        iterator it = advance_to(t.begin(), t.end(), pos, n);
        const_iterator cit = advance_to(ct().begin(), ct().end(), pos, n);
        reverse_iterator rit = advance_to(t.rbegin(), t.rend(), pos, n); // refers to the element at rank n-1-pos
        const_reverse_iterator crit = advance_to(ct().rbegin(), ct().rend(), pos, n);
        switch (which) {
        case 0: { // iterator -> const_iterator (std: implicit conversion)
            const_iterator c(it);
            const_iterator c2;
            c2 = it;
            if (!(c == cit) || (c != cit)) os << "const_iterator(iterator at rank " << pos << ") is not begin() const + " << pos;
            else if (!(c2 == cit) || (c2 != cit)) os << "const_iterator assigned from the iterator at rank " << pos << " is not begin() const + " << pos;
            else if (!(cit == it) || (cit != it)) os << "const_iterator == iterator (converted operand) is false for the same rank " << pos;
            else if (pos < n && &*c != &*it) os << "const_iterator(iterator at rank " << pos << ") refers to another element";
            else if (pos < n && key_int(c.key()) != key_int(it.key())) os << "const_iterator(iterator).key() differs at rank " << pos;
            break;
        }
        case 1: { // reverse_iterator -> const_reverse_iterator (std: converting constructor of std::reverse_iterator)
            const_reverse_iterator c(rit);
            const_reverse_iterator c2;
            c2 = rit;
            if (!(c == crit) || (c != crit)) os << "const_reverse_iterator(reverse_iterator at reverse rank " << pos << ") is not rbegin() const + " << pos;
            else if (!(c2 == crit)) os << "const_reverse_iterator assigned from the reverse_iterator at reverse rank " << pos << " is not rbegin() const + " << pos;
            else if (!(crit == rit) || (crit != rit)) os << "const_reverse_iterator == reverse_iterator (converted operand) is false for the same reverse rank " << pos;
            else if (pos < n && &*c != &*rit) os << "const_reverse_iterator(reverse_iterator at reverse rank " << pos << ") refers to another element";
            break;
        }
        case 2:   // iterator -> reverse_iterator            (std: explicit reverse_iterator(it), refers to the element before it)
        case 3: { // iterator / const_iterator -> const_reverse_iterator
            reverse_iterator e = advance_to(t.rbegin(), t.rend(), n - pos, n);
            const_reverse_iterator ce = advance_to(ct().rbegin(), ct().rend(), n - pos, n);
            if (BTreeInspector::leaf_of(e) != BTreeInspector::leaf_of(it)) { // (leaf, slot 0) of a non-first leaf: not a canonical reverse position
                flags |= 1;
                break;
            }
            if (which == 2) {
                reverse_iterator r(it);
                if (!(r == e) || (r != e)) os << "reverse_iterator(iterator at rank " << pos << ") is not rbegin() + " << (n - pos);
                else if (pos > 0) {
                    iterator p = it;
                    --p;
                    if (&*r != &*p) os << "reverse_iterator(iterator at rank " << pos << ") does not refer to the element before it";
                }
            }
            else {
                const_reverse_iterator a(it), b(cit);
                if (!(a == ce) || (a != ce)) os << "const_reverse_iterator(iterator at rank " << pos << ") is not rbegin() const + " << (n - pos);
                else if (!(b == ce) || (b != ce)) os << "const_reverse_iterator(const_iterator at rank " << pos << ") is not rbegin() const + " << (n - pos);
                else if (pos > 0) {
                    const_iterator p = cit;
                    --p;
                    if (&*a != &*p || &*b != &*p) os << "const_reverse_iterator(iterator at rank " << pos << ") does not refer to the element before it";
                }
            }
            break;
        }
        case 4:   // reverse_iterator -> iterator            (std: rit.base(), refers to the element after *rit)
        case 5: { // reverse_iterator / const_reverse_iterator -> const_iterator
            iterator e = advance_to(t.begin(), t.end(), n - pos, n);
            const_iterator ce = advance_to(ct().begin(), ct().end(), n - pos, n);
            if (BTreeInspector::leaf_of(e) != BTreeInspector::leaf_of(rit)) { // (leaf, slotuse) of a non-last leaf: not a canonical forward position
                flags |= 1;
                break;
            }
            if (which == 4) {
                iterator i(rit);
                if (!(i == e) || (i != e)) os << "iterator(reverse_iterator at reverse rank " << pos << ") is not begin() + " << (n - pos);
                else if (pos > 0 && &*i != &*e) os << "iterator(reverse_iterator at reverse rank " << pos << ") refers to another element than begin() + " << (n - pos);
                else if (pos < n) {
                    iterator p = i;
                    --p;
                    if (&*p != &*rit) os << "the element before iterator(reverse_iterator) is not the one the reverse_iterator refers to (reverse rank " << pos << ")";
                }
            }
            else {
                const_iterator a(rit);
#ifdef VERIF_BTREE_API_FIXES // const_iterator(const const_reverse_iterator&) reads private members of a class that does not befriend it:
                const_iterator b(crit); // it does not compile (fixes/C01/new-const-iterator-from-const-reverse.txt)
#else
                const_iterator b(a);
                (void)crit;
#endif
                if (!(a == ce) || (a != ce)) os << "const_iterator(reverse_iterator at reverse rank " << pos << ") is not begin() const + " << (n - pos);
                else if (!(b == ce) || (b != ce)) os << "const_iterator(const_reverse_iterator at reverse rank " << pos << ") is not begin() const + " << (n - pos);
                else if (pos > 0 && (&*a != &*ce || &*b != &*ce)) os << "const_iterator(reverse iterator at reverse rank " << pos << ") refers to another element";
            }
            break;
        }
        case 6: { // the iterators under the std iterator algorithms (iterator_category, difference_type, ... typedefs)
            if ((size_t)std::distance(t.begin(), t.end()) != n) os << "std::distance(begin(), end()) = " << std::distance(t.begin(), t.end()) << ", size is " << n;
            else if ((size_t)std::distance(ct().begin(), ct().end()) != n) os << "std::distance(begin() const, end() const) != size " << n;
            else if ((size_t)std::distance(t.rbegin(), t.rend()) != n) os << "std::distance(rbegin(), rend()) != size " << n;
            else if ((size_t)std::distance(ct().rbegin(), ct().rend()) != n) os << "std::distance(rbegin() const, rend() const) != size " << n;
            else if (!(std::next(t.begin(), (std::ptrdiff_t)pos) == it)) os << "std::next(begin(), " << pos << ") is not the iterator reached with " << pos << " increments";
            else if (!(std::prev(t.end(), (std::ptrdiff_t)(n - pos)) == it)) os << "std::prev(end(), " << (n - pos) << ") is not the iterator at rank " << pos;
            else if (!(std::next(ct().rbegin(), (std::ptrdiff_t)pos) == crit)) os << "std::next(rbegin() const, " << pos << ") is not the reverse iterator at reverse rank " << pos;
            else {
                iterator x = t.end();
                std::advance(x, -(std::ptrdiff_t)(n - pos));
                if (!(x == it)) os << "std::advance(end(), -" << (n - pos) << ") is not the iterator at rank " << pos;
                std::reverse_iterator<iterator> sr(it); // the generic adaptor of the standard library over the tlx iterator
                if (!(sr.base() == it)) os << "std::reverse_iterator<iterator>(it).base() != it";
                else if (pos > 0 && &*sr != &*std::prev(it)) os << "std::reverse_iterator<iterator>(it at rank " << pos << ") does not refer to the element before it";
                else if ((size_t)std::distance(std::reverse_iterator<const_iterator>(ct().end()), std::reverse_iterator<const_iterator>(ct().begin())) != n)
                    os << "std::reverse_iterator<const_iterator> traversal does not visit " << n << " elements";
            }
            break;
        }
        default: { // value-initialised iterators compare equal; copies and assignments keep the position
            iterator a, b;
            const_iterator ca, cb;
            reverse_iterator ra, rb;
            const_reverse_iterator cra, crb;
            if (!(a == b) || (a != b) || !(ca == cb) || (ca != cb) || !(ra == rb) || (ra != rb) || !(cra == crb) || (cra != crb))
                os << "two default-constructed iterators of the same flavour do not compare equal";
            iterator x(it), y;
            y = it;
            const_iterator cx(cit), cy;
            cy = cit;
            reverse_iterator rx(rit), ry;
            ry = rit;
            const_reverse_iterator crx(crit), cry;
            cry = crit;
            if (!(x == it) || !(y == it) || (x != y) || !(cx == cit) || !(cy == cit) || !(rx == rit) || !(ry == rit) || !(crx == crit) || !(cry == crit))
                os << "a copied / assigned iterator does not compare equal to its source (position " << pos << " of " << n << ")";
            break;
        }
        }
        return os.str();
    }
};

// ---------------------------------------------------------------------------------------------
// configuration table (filled by the cfg TUs at static-initialisation time)
// ---------------------------------------------------------------------------------------------
struct ConfigEntry {
    CfgInfo info;
    ITree* (*create)(unsigned shift, bool desc); // T(cmp)
};
std::vector<ConfigEntry>& config_table(); // C01_btree_history.cpp

template <class C>
ITree* create_tree(unsigned shift, bool desc) {
    return new TreeAdapter<C>(typename TreeAdapter<C>::Build(), typename C::TCmp(C::cmp_tag::template make<typename C::Key>(shift, desc)));
}
template <class C>
struct Register {
    explicit Register(const char* name) {
        ConfigEntry e = {{C::id, name, C::kind, C::cmp_tag::id, C::leaf, C::inner, C::binary, C::counting,
                          C::tracked, C::raw, C::elem_name()},
                         &create_tree<C>};
        config_table().push_back(e);
    }
};

//! property body shared by C01 (model = true) and C02 (model = false, invariants): the first choice
//! selects a configuration among those linked into this binary
void run_property(pbt::Source& src, bool model);

//! C01 scale classes: configurations with node capacities far beyond the main table (255 ... 65535 slots; the
//! slot counters of the implementation are 16-bit, so 65535 is the largest capacity the template admits). They live
//! in a table of their own and are driven by a target of their own (btree_scale), so the choice-byte -> case
//! mapping of btree_model / btree_invariants is untouched. Same oracle (std model compared after every mutating
//! step), but the history starts by FILLING such nodes and then runs a modest, cost-bounded number of operations.
std::vector<ConfigEntry>& scale_table(); // C01_btree_history.cpp
template <class C>
struct RegisterScale {
    explicit RegisterScale(const char* name) {
        ConfigEntry e = {{C::id, name, C::kind, C::cmp_tag::id, C::leaf, C::inner, C::binary, C::counting,
                          C::tracked, C::raw, C::elem_name()},
                         &create_tree<C>};
        scale_table().push_back(e);
    }
};
void run_scale_property(pbt::Source& src);

//! ALIAS / DESTRUCTIVE-MOVE classes (targets btree_alias [C01] and btree_alias_invariants [C02]): configurations whose
//! key / data types have a destructive move (std::string, verif::Tracked, mixed) and comparators that own their state,
//! driven by the same history generator extended by the ALIASING operations (arguments that are references into the
//! container being modified, c = c, c.swap(c)). Own table and own targets: the choice-byte -> case mapping of
//! btree_model / btree_invariants / btree_scale is untouched.
std::vector<ConfigEntry>& alias_table(); // C01_btree_history.cpp
template <class C>
struct RegisterAlias {
    explicit RegisterAlias(const char* name) {
        ConfigEntry e = {{C::id, name, C::kind, C::cmp_tag::id, C::leaf, C::inner, C::binary, C::counting, C::tracked, C::raw, C::elem_name()}, &create_tree<C>};
        alias_table().push_back(e);
    }
};
void run_alias_property(pbt::Source& src, bool model);

//! API-AUDIT classes (targets btree_api [C01] and btree_api_invariants [C02]): the public members and overloads no other
//! target calls -- btree_map::operator[] and writes through iterators, conversions between the four iterator flavours and
//! the iterators under the std iterator algorithms, key_comp() / value_comp() / max_size() / get_allocator() / get_stats() as
//! observers, insert(first,last) / bulk_load / the range constructors with single-pass input iterators, pointers, list / deque
//! iterators and ranges of a convertible element type, empty ranges, the (comparator, allocator) constructor forms, rvalue
//! arguments of the copy operations and the generic std::swap -- interleaved with every operation of the other targets, over
//! the main table followed by the alias table. Own targets: no existing choice-byte -> case mapping changes.
void run_api_property(pbt::Source& src, bool model);

} // namespace bt
} // namespace verif

// id, kind, leaf_slots, inner_slots, BINARY|LINEAR, LessTag|GreaterTag|StateTag
#define BT_CONFIG_C01(ID, KIND, L, I, BIN, CMP)                                                                                         \
    static ::verif::bt::Register< ::verif::bt::Cfg<ID, ::verif::bt::KIND, L, I, ::verif::bt::BIN, ::verif::bt::CMP, int, false, true> > \
        bt_reg_##ID(#KIND " leaf=" #L " inner=" #I " " #BIN " " #CMP);
// scale classes (target btree_scale): same, registered in scale_table()
#define BT_CONFIG_C01S(ID, KIND, L, I, BIN, CMP)                                                                                             \
    static ::verif::bt::RegisterScale< ::verif::bt::Cfg<ID, ::verif::bt::KIND, L, I, ::verif::bt::BIN, ::verif::bt::CMP, int, false, true> > \
        bt_sreg_##ID(#KIND " leaf=" #L " inner=" #I " " #BIN " " #CMP);
// ... plus element type (int | ::verif::Tracked); always with CountingAllocator
#define BT_CONFIG_C02(ID, KIND, L, I, BIN, CMP, ELEM)                                                                             \
    static ::verif::bt::Register< ::verif::bt::Cfg<ID, ::verif::bt::KIND, L, I, ::verif::bt::BIN, ::verif::bt::CMP, ELEM, true> > \
        bt_reg_##ID(#KIND " leaf=" #L " inner=" #I " " #BIN " " #CMP " " #ELEM " CountingAllocator");
// alias targets: key type, data type (ignored for sets); C01: counting comparator + budget allocator, C02: arena allocator
#define BT_CONFIG_C01A(ID, KIND, L, I, BIN, CMP, KEYT, DATT)                                                                    \
    static ::verif::bt::RegisterAlias< ::verif::bt::Cfg<ID, ::verif::bt::KIND, L, I, ::verif::bt::BIN, ::verif::bt::CMP, KEYT, false, true, DATT> > \
        bt_areg_##ID(#KIND " leaf=" #L " inner=" #I " " #BIN " " #CMP " key=" #KEYT " data=" #DATT);
#define BT_CONFIG_C02A(ID, KIND, L, I, BIN, CMP, KEYT, DATT)                                                                     \
    static ::verif::bt::RegisterAlias< ::verif::bt::Cfg<ID, ::verif::bt::KIND, L, I, ::verif::bt::BIN, ::verif::bt::CMP, KEYT, true, false, DATT> > \
        bt_areg_##ID(#KIND " leaf=" #L " inner=" #I " " #BIN " " #CMP " key=" #KEYT " data=" #DATT " CountingAllocator");
