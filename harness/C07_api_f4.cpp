// C07 — target pmerge_api, form 4: the comparator is a std::function (an empty / moved-from copy throws
// std::bad_function_call); inputs through std::deque<Rec>::const_iterator (or ::iterator, see API_CONST_IN); pairs read through std::reverse_iterator
// over a vector holding them back to front; output through std::deque<Rec>::iterator.
#include "C07_api.hpp"

namespace c07 {
struct ApiForm4 {
    using El = ElRec;
    using InK = InDequeItMaybeConst<Rec>;
    using PairsK = PairsRev<InK::In>;
    using OutK = OutDequeIt<Rec>;
    using Cmp = std::function<bool(const Rec&, const Rec&)>;
    static constexpr bool has_default = false;
    static Cmp make_cmp(bool desc) {
        std::string canary = "C07-api-std-function-canary-longer-than-sso";
        return [desc, canary](const Rec& a, const Rec& b) {
            if (canary.size() != 43) pbt::fatal("C07/comparator-lost", "merge used a std::function target that is not a live copy of the one passed");
            return desc ? b.key < a.key : a.key < b.key;
        };
    }
    static bool cmp_intact(const Cmp& c, bool desc) {
        if (!c) return false; // the caller's object was moved from
        const Rec lo = Tr<Rec>::make(1, 0, 0), hi = Tr<Rec>::make(2, 0, 0);
        return desc ? c(hi, lo) && !c(lo, hi) : c(lo, hi) && !c(hi, lo);
    }
};
ApiResult run_api_f4(const ApiCase& c) { return run_form_both<ApiForm4>(c); }
} // namespace c07
