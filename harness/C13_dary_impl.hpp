// C13 (part 1) — type-erased wrapper around tlx::DAryHeap<int, Arity, Compare>: the history in C13_dary.cpp is
// compiled once, the 8 x 3 instantiations are thin forwarders compiled in C13_dary_a.cpp / C13_dary_b.cpp.
#pragma once
#include <cstddef>
#include <functional>
#include <vector>

#include <tlx/container/d_ary_heap.hpp>

namespace c13 {

//! comparator reading priorities from an external table (keys are indices)
struct PrioCmp {
    const std::vector<int>* prio;
    bool operator()(int a, int b) const { return (*prio)[(size_t)a] < (*prio)[(size_t)b]; }
};

//! type-erased heap: the history below is compiled once, the 8 x 3 instantiations are thin forwarders
struct IDary {
    virtual ~IDary() {}
    virtual void push(const int& k) = 0;
    virtual void push_move(int&& k) = 0;
    virtual int top() = 0;
    virtual void pop() = 0;
    virtual int extract_top() = 0;
    virtual void clear() = 0;
    virtual size_t size() = 0;
    virtual bool empty() = 0;
    virtual size_t capacity() = 0;
    virtual void reserve(size_t n) = 0;
    virtual void build_iter(std::vector<int>& v) = 0;
    virtual void build_copy(const std::vector<int>& v) = 0;
    virtual void build_move(std::vector<int>&& v) = 0;
    virtual void update_all() = 0;
    virtual bool sanity_check() = 0;
    virtual void copy_move(unsigned how, int extra) = 0;
};

template <unsigned A, class Cmp>
struct DaryImpl : IDary {
    typedef tlx::DAryHeap<int, A, Cmp> Heap;
    Cmp cmp;
    Heap h;
    explicit DaryImpl(Cmp c) : cmp(c), h(c) {}
    void push(const int& k) override { h.push(k); }
    void push_move(int&& k) override { h.push(std::move(k)); }
    int top() override { return h.top(); }
    void pop() override { h.pop(); }
    int extract_top() override { return h.extract_top(); }
    void clear() override { h.clear(); }
    size_t size() override { return h.size(); }
    bool empty() override { return h.empty(); }
    size_t capacity() override { return h.capacity(); }
    void reserve(size_t n) override { h.reserve(n); }
    void build_iter(std::vector<int>& v) override { h.build_heap(v.begin(), v.end()); }
    void build_copy(const std::vector<int>& v) override { h.build_heap(v); }
    void build_move(std::vector<int>&& v) override { h.build_heap(std::move(v)); }
    void update_all() override { h.update_all(); }
    bool sanity_check() override { return h.sanity_check(); }
    void copy_move(unsigned how, int extra) override {
        if (how == 0) {
            Heap c(h); // copy-construct, continue with the copy
            h.clear();
            h = std::move(c);
        } else if (how == 1) {
            Heap m(std::move(h)); // move-construct, copy-assign back into the moved-from heap
            h = m;
        } else if (how == 2) {
            Heap c(cmp);
            c.push(extra);
            c = h; // copy-assign over a non-empty heap
            h = c;
        } else {
            Heap& self = h;
            h = self; // self copy-assignment
        }
    }
};

template <unsigned A>
IDary* make_dary_a(unsigned ck, const std::vector<int>* prio) {
    switch (ck) {
    case 0: return new DaryImpl<A, std::less<int>>(std::less<int>());
    case 1: return new DaryImpl<A, std::greater<int>>(std::greater<int>());
    default: return new DaryImpl<A, PrioCmp>(PrioCmp{prio});
    }
}
IDary* make_dary_lo(unsigned arity, unsigned ck, const std::vector<int>* prio); // arity 1..4
IDary* make_dary_hi(unsigned arity, unsigned ck, const std::vector<int>* prio); // arity 5..8

} // namespace c13
