// C10 — ThreadPool: each job exactly once; loop_until_empty means quiescence;
// no deadlock / lost wake-up under any interleaving.
// The scenario program and the schedule are both drawn from the Source; the
// pool (tlx/thread_pool.cpp) is compiled against the deterministic scheduler.
#include "../engine/pbt.hpp"
#ifdef C10_REAL_THREADS
// real-thread tier (ThreadSanitizer / ASan): same scenario programs, the OS schedules. The harness'
// own cross-thread bookkeeping is atomic; the jobs' EFFECTS stay plain memory so that TSan checks the
// visibility promise of loop_until_empty().
#include <atomic>
#include <string>
namespace vsched {
inline void obs(const char* = "") {}
inline void note(const char*, long = 0, long = 0) {}
template <class T>
using Atomic = ::std::atomic<T>;
struct NoSched {
    ::std::string describe() const { return " (real threads)"; }
};
inline NoSched& S() {
    static NoSched s;
    return s;
}
} // namespace vsched
typedef ::std::atomic<int> HInt;
#else
#include "../engine/sched/vsched.hpp"
typedef int HInt;
#endif

#include <tlx/thread_pool.hpp>

#include <vector>

namespace {

using Thread = tlx::std::thread; // = vsched::Thread through the shim (std::thread subclass in the real-thread tier)
const int SMALLJOBS = 24;
const int MAXJOBS = 512; // the small targets use <= 24, thread_pool_scale up to ~450

struct JobSpec {
    std::vector<int> children;
    bool terminates = false;
    int extra_points = 0;
    bool rendezvous = false; // wait (spinning) until `rendezvous_target` jobs run at the same time
};

struct State {
    tlx::ThreadPool* pool = nullptr;
    std::vector<JobSpec> jobs;
    HInt started[MAXJOBS], finished[MAXJOBS];
    int effect[MAXJOBS]; // plain on purpose
    HInt enq_called[MAXJOBS], enq_returned[MAXJOBS];
    HInt terminate_called{0};
    vsched::Atomic<int> dummy{0};
    vsched::Atomic<int> arrived{0};
    int rendezvous_target = 0;
    HInt init_calls{0};
    void reset() {
        jobs.clear();
        for (int i = 0; i < MAXJOBS; ++i) started[i] = 0, finished[i] = 0, effect[i] = 0, enq_called[i] = 0, enq_returned[i] = 0;
        terminate_called = 0;
        init_calls = 0;
        arrived.store(0);
        rendezvous_target = 0;
        pool = nullptr;
    }
};
State st;

#define SCHED_CHECK(cond, lab, msgexpr)                \
    do {                                               \
        if (!(cond)) {                                 \
            ::std::ostringstream os_;                  \
            os_ << msgexpr << " | threads:" << vsched::S().describe(); \
            ::pbt::fatal(lab, os_.str());              \
        }                                              \
    } while (0)

void enqueue_job(int id);

void job_body(int id) {
    vsched::obs("job-start");
    SCHED_CHECK(st.started[id] == 0, "C10/executed-twice", "job " << id << " started a second time");
    st.started[id]++;
    const JobSpec& js = st.jobs[(size_t)id];
    for (int i = 0; i < js.extra_points; ++i) (void)st.dummy.load();
    if (js.rendezvous) { // all workers of a huge pool busy at the same time
        st.arrived.fetch_add(1);
        while (st.arrived.load() < st.rendezvous_target) {}
    }
    for (int c : js.children) enqueue_job(c);
    if (js.terminates) {
        st.terminate_called = true;
        st.pool->terminate();
    }
    vsched::obs("job-end");
    st.effect[id] = id + 1; // plain write: must be visible to a waiter after loop_until_empty
    st.finished[id]++;
}

void enqueue_job(int id) {
    st.enq_called[id] = true;
    st.pool->enqueue([id]() { job_body(id); });
    vsched::obs("enqueue-returned");
    st.enq_returned[id] = true;
}

//! build a job tree below `root`; returns number of jobs created
void gen_tree(pbt::Source& src, int id, int depth, bool allow_terminate, bool& used_terminate, bool& nested) {
    JobSpec& js = st.jobs[(size_t)id];
    js.extra_points = (int)src.range(0, 2);
    if (allow_terminate && !used_terminate && src.chance(64)) js.terminates = used_terminate = true;
    if (depth >= 3) return;
    int nc = (int)src.weighted({5, 3, 1, 1});
    for (int i = 0; i < nc && st.jobs.size() < (size_t)SMALLJOBS; ++i) {
        int c = (int)st.jobs.size();
        st.jobs.emplace_back();
        st.jobs[(size_t)id].children.push_back(c);
        nested = true;
        gen_tree(src, c, depth + 1, allow_terminate, used_terminate, nested);
    }
}

//! roots of `n` fresh trees
std::vector<int> gen_forest(pbt::Source& src, int n, bool allow_terminate, bool& used_terminate, bool& nested) {
    std::vector<int> roots;
    for (int i = 0; i < n && st.jobs.size() < (size_t)SMALLJOBS; ++i) {
        int r = (int)st.jobs.size();
        st.jobs.emplace_back();
        roots.push_back(r);
        gen_tree(src, r, 0, allow_terminate, used_terminate, nested);
    }
    return roots;
}

void mark_closure(int id, std::vector<char>& must) {
    if (must[(size_t)id]) return;
    must[(size_t)id] = 1;
    for (int c : st.jobs[(size_t)id].children) mark_closure(c, must);
}

//! loop_until_empty with the quiescence oracle. closed = nobody but this thread and jobs can enqueue now.
void wait_empty_checked(bool closed, const char* who) {
    vsched::obs("wait-begin");
    std::vector<char> must(st.jobs.size(), 0);
    for (size_t j = 0; j < st.jobs.size(); ++j)
        if (st.enq_returned[j]) mark_closure((int)j, must);
    vsched::note("loop_until_empty");
    st.pool->loop_until_empty();
    vsched::note("");
    vsched::obs("wait-returned");
    if (st.terminate_called) return; // terminated pools may leave jobs unexecuted
    size_t done_now = st.pool->done();
    int finished_total = 0;
    for (size_t j = 0; j < st.jobs.size(); ++j) finished_total += (int)st.finished[j];
    for (size_t j = 0; j < st.jobs.size(); ++j) {
        bool need = must[j] || (closed && st.enq_called[j]);
        if (!need) continue;
        SCHED_CHECK(st.started[j] == 1 && st.finished[j] == 1, "C10/empty-but-job-not-done",
                    who << ": loop_until_empty returned but job " << j << " started=" << st.started[j] << " finished=" << st.finished[j]);
        SCHED_CHECK(st.effect[j] == (int)j + 1, "C10/effect-not-visible", "job " << j << " effect missing");
    }
    if (closed) {
        for (size_t j = 0; j < st.jobs.size(); ++j)
            SCHED_CHECK(st.started[j] == st.finished[j], "C10/empty-but-job-running",
                        who << ": loop_until_empty returned while job " << j << " is running");
        SCHED_CHECK(done_now == (size_t)finished_total, "C10/done-count",
                    who << ": done()=" << done_now << " but " << finished_total << " jobs have run");
    }
}

void wait_terminate_checked(const char* who) {
    vsched::note("loop_until_terminate");
    st.pool->loop_until_terminate();
    vsched::note("");
    vsched::obs("wait-returned");
    SCHED_CHECK(st.terminate_called, "C10/terminate-wait-returned-early", who << ": loop_until_terminate returned without terminate()");
}

void final_checks(bool all_must_have_run) {
    for (size_t j = 0; j < st.jobs.size(); ++j) {
        SCHED_CHECK(st.started[j] <= 1 && st.finished[j] <= 1, "C10/executed-twice", "job " << j << " ran " << st.started[j] << " times");
        SCHED_CHECK(st.started[j] == st.finished[j], "C10/job-cut-short",
                    "pool destroyed/terminated while job " << j << " was still running (started but not finished)");
        if (all_must_have_run && st.enq_called[j])
            SCHED_CHECK(st.started[j] == 1, "C10/job-lost", "job " << j << " was enqueued on a never-terminated pool but did not run");
    }
}

struct Program {
    int tmpl = 0, P = 1;
    bool use_init = false, spurious = false, nested = false;
    std::vector<std::vector<int>> rounds; // template 0: roots per round
    std::vector<int> main_roots, ext1_roots, ext2_roots;
    int n_ext = 0;
    bool main_waits_concurrently = false, partial_wait = false, terminate_early = false;
};
static const char* tnames[] = {"closed-rounds", "ext-enqueuers", "terminate-from-job", "two-waiters", "destroy-while-busy", "terminate-outside"};

//! draw the scenario program (fills st.jobs)
Program gen_program(pbt::Source& src) {
    Program g;
    g.tmpl = (int)src.range(0, 5);
    g.P = (int)src.range(1, 4);
    g.use_init = src.chance(64);
    g.spurious = src.chance(40);
    bool used_terminate = false;
    switch (g.tmpl) {
    case 0: { // closed: rounds of fill / wait-empty / check (reuse)
        int nr = (int)src.range(1, 3);
        for (int r = 0; r < nr; ++r) g.rounds.push_back(gen_forest(src, (int)src.range(1, 4), false, used_terminate, g.nested));
        break;
    }
    case 1: // external enqueuers, main waits concurrently, then joins and waits again
        g.n_ext = (int)src.range(1, 2);
        g.main_roots = gen_forest(src, (int)src.range(0, 3), false, used_terminate, g.nested);
        g.ext1_roots = gen_forest(src, (int)src.range(1, 3), false, used_terminate, g.nested);
        if (g.n_ext == 2) g.ext2_roots = gen_forest(src, (int)src.range(1, 3), false, used_terminate, g.nested);
        g.main_waits_concurrently = src.boolean();
        break;
    case 2: // a job terminates the pool; main waits for termination
        g.main_roots = gen_forest(src, (int)src.range(1, 4), true, used_terminate, g.nested);
        if (!used_terminate) st.jobs[(size_t)g.main_roots.back()].terminates = used_terminate = true;
        break;
    case 3: // two waiters: helper drains then terminates; main waits for termination
        g.main_roots = gen_forest(src, (int)src.range(0, 2), false, used_terminate, g.nested);
        g.ext1_roots = gen_forest(src, (int)src.range(1, 3), false, used_terminate, g.nested);
        g.n_ext = 1;
        if (src.chance(80)) {
            g.ext2_roots = gen_forest(src, (int)src.range(1, 2), false, used_terminate, g.nested);
            g.n_ext = 2;
        }
        break;
    case 4: // destruction while jobs are queued or running
        g.main_roots = gen_forest(src, (int)src.range(1, 5), false, used_terminate, g.nested);
        g.partial_wait = src.chance(64);
        break;
    default: // terminate() from outside, then wait for termination
        g.main_roots = gen_forest(src, (int)src.range(1, 4), false, used_terminate, g.nested);
        g.terminate_early = src.boolean();
        break;
    }
    return g;
}

void describe(const Program& g) {
    if (!pbt::verbose()) return;
    PBT_LOG("template=" << tnames[g.tmpl] << " workers=" << g.P << " init_thread=" << g.use_init << " spurious=" << g.spurious << " jobs=" << st.jobs.size() << "\n");
    for (size_t j = 0; j < st.jobs.size(); ++j) {
        PBT_LOG(" job" << j << ": children=[");
        for (int c : st.jobs[j].children) PBT_LOG(c << " ");
        PBT_LOG("] terminates=" << st.jobs[j].terminates << " extra_points=" << st.jobs[j].extra_points << "\n");
    }
}

//! run the program once; the caller has started the scheduler run. st.jobs must be filled, counters reset.
void execute(const Program& g) {
    const int tmpl = g.tmpl, P = g.P;
    {
        tlx::ThreadPool pool((size_t)P, g.use_init ? tlx::ThreadPool::InitThread([](size_t) { st.init_calls++; }) : tlx::ThreadPool::InitThread());
        st.pool = &pool;
        SCHED_CHECK(pool.size() == (size_t)P, "C10/size", "size()=" << pool.size());
        switch (tmpl) {
        case 0:
            for (auto& roots : g.rounds) {
                for (int r : roots) enqueue_job(r);
                wait_empty_checked(true, "main");
                SCHED_CHECK(pool.idle() <= (size_t)P, "C10/idle-range", "idle()=" << pool.idle());
            }
            break;
        case 1: {
            Thread e1([&]() { for (int r : g.ext1_roots) enqueue_job(r); });
            Thread e2;
            if (g.n_ext == 2) e2 = Thread([&]() { for (int r : g.ext2_roots) enqueue_job(r); });
            for (int r : g.main_roots) enqueue_job(r);
            if (g.main_waits_concurrently) wait_empty_checked(false, "main(concurrent)");
            e1.join();
            if (g.n_ext == 2) e2.join();
            wait_empty_checked(true, "main(final)");
            break;
        }
        case 2:
            for (int r : g.main_roots) enqueue_job(r);
            wait_terminate_checked("main");
            break;
        case 3: {
            Thread helper([&]() {
                for (int r : g.ext1_roots) enqueue_job(r);
                wait_empty_checked(false, "helper");
                st.terminate_called = true;
                st.pool->terminate();
            });
            Thread e2;
            if (g.n_ext == 2) e2 = Thread([&]() { for (int r : g.ext2_roots) enqueue_job(r); });
            for (int r : g.main_roots) enqueue_job(r);
            wait_terminate_checked("main");
            helper.join();
            if (g.n_ext == 2) e2.join();
            break;
        }
        case 4:
            for (int r : g.main_roots) enqueue_job(r);
            if (g.partial_wait) wait_empty_checked(true, "main");
            break;
        default:
            if (g.terminate_early) {
                st.terminate_called = true;
                pool.terminate();
                for (int r : g.main_roots) enqueue_job(r); // stays unexecuted or runs: both allowed
            } else {
                for (int r : g.main_roots) enqueue_job(r);
                st.terminate_called = true;
                pool.terminate();
            }
            wait_terminate_checked("main");
            break;
        }
        // after a wait-for-termination returned, no job may be mid-flight
        if (tmpl == 2 || tmpl == 3 || tmpl == 5)
            for (size_t j = 0; j < st.jobs.size(); ++j)
                SCHED_CHECK(st.started[j] == st.finished[j], "C10/terminated-but-job-running",
                            "loop_until_terminate returned while job " << j << " is running");
        vsched::note("~ThreadPool");
    } // ~ThreadPool: must return once running jobs finish
    vsched::note("");
    st.pool = nullptr;
    final_checks(/*all_must_have_run=*/!st.terminate_called && (tmpl == 0 || tmpl == 1 || (tmpl == 4 && g.partial_wait)));
    if (g.use_init) SCHED_CHECK(st.init_calls == P, "C10/init-thread", "init_thread ran " << st.init_calls << " times for " << P << " workers");
}

} // namespace

// ---------------------------------------------------------------------------------------------
// Free-form WAITER programs (own targets thread_pool_waiters / thread_pool_waiters_real): the six templates above
// have at most one thread in each kind of wait. Here 2..4 client threads (main included) each enqueue their own job
// trees and then wait, so that SEVERAL threads sit in loop_until_terminate() or in loop_until_empty() at the same
// time while jobs run, are queued, enqueue further jobs and the pool is terminated by a job or by one of the
// clients. Every waiter must return (the scheduler reports the others as deadlock) and checks its post-condition.
struct WThread {
    std::vector<int> roots;
    int wait_kind = 0;           // 0 none, 1 loop_until_empty (not closed), 2 loop_until_terminate
    bool terminator = false;     // mode 1: calls terminate() after its enqueues (and optional drain)
    bool drain_first = false;    // mode 1: the terminator calls loop_until_empty() before terminate()
    int delay = 0;               // scheduling points before the wait
};
struct WProgram {
    int P = 1, mode = 0; // 0 = a job terminates, 1 = a client terminates, 2 = nobody terminates: concurrent loop_until_empty
    bool use_init = false, spurious = false, nested = false;
    std::vector<WThread> th; // th[0] = main
    int term_waiters = 0, empty_waiters = 0;
};
static const char* wmodes[] = {"job-terminates", "client-terminates", "concurrent-empty-waiters"};

WProgram gen_wprogram(pbt::Source& src) {
    WProgram g;
    g.mode = (int)src.weighted({3, 3, 2});
    g.P = (int)src.range(1, 4);
    g.use_init = src.chance(48);
    g.spurious = src.chance(40);
    int nt = (int)src.range(2, 4);
    g.th.resize((size_t)nt);
    bool used_terminate = false;
    int terminator = g.mode == 1 ? (int)src.range(0, nt - 1) : -1;
    for (int t = 0; t < nt; ++t) {
        WThread& w = g.th[(size_t)t];
        int lo = (t == 0 || t == terminator) ? 1 : 0;
        w.roots = gen_forest(src, (int)src.range(lo, 3), g.mode == 0, used_terminate, g.nested);
        w.delay = (int)src.range(0, 2);
        if (g.mode == 2) w.wait_kind = (t == 0 || src.chance(200)) ? 1 : 0;
        else w.wait_kind = (t == 0 || src.chance(200)) ? 2 : 0;
        if (t == terminator) {
            w.terminator = true;
            w.drain_first = src.chance(96);
            if (t != 0 && src.chance(128)) w.wait_kind = 0; // a terminator that does not wait itself
        }
        if (w.wait_kind == 2) g.term_waiters++;
        if (w.wait_kind == 1) g.empty_waiters++;
    }
    if (g.mode == 0 && !used_terminate) { // some job must terminate the pool: the last root of the last non-empty forest
        for (int t = nt - 1; t >= 0; --t)
            if (!g.th[(size_t)t].roots.empty()) {
                st.jobs[(size_t)g.th[(size_t)t].roots.back()].terminates = true;
                break;
            }
    }
    return g;
}

void describe(const WProgram& g) {
    if (!pbt::verbose()) return;
    PBT_LOG("waiters program: mode=" << wmodes[g.mode] << " workers=" << g.P << " init_thread=" << g.use_init << " spurious=" << g.spurious << " jobs=" << st.jobs.size() << "\n");
    for (size_t t = 0; t < g.th.size(); ++t) {
        const WThread& w = g.th[t];
        PBT_LOG(" client" << t << (t == 0 ? "(main)" : "") << ": enqueue roots [");
        for (int r : w.roots) PBT_LOG(r << " ");
        PBT_LOG("]" << (w.terminator ? (w.drain_first ? "; loop_until_empty; terminate()" : "; terminate()") : "")
                    << (w.wait_kind == 1 ? "; loop_until_empty" : w.wait_kind == 2 ? "; loop_until_terminate" : "") << "\n");
    }
    for (size_t j = 0; j < st.jobs.size(); ++j) {
        PBT_LOG(" job" << j << ": children=[");
        for (int c : st.jobs[j].children) PBT_LOG(c << " ");
        PBT_LOG("] terminates=" << st.jobs[j].terminates << "\n");
    }
}

void wexecute(const WProgram& g) {
    {
        tlx::ThreadPool pool((size_t)g.P, g.use_init ? tlx::ThreadPool::InitThread([](size_t) { st.init_calls++; }) : tlx::ThreadPool::InitThread());
        st.pool = &pool;
        auto client = [&g](size_t t) {
            const WThread& w = g.th[t];
            const std::string who = "client" + std::to_string(t);
            for (int r : w.roots) enqueue_job(r);
            if (w.terminator) {
                if (w.drain_first) wait_empty_checked(false, who.c_str());
                st.terminate_called = true;
                st.pool->terminate();
            }
            for (int i = 0; i < w.delay; ++i) (void)st.dummy.load();
            if (w.wait_kind == 1) wait_empty_checked(false, who.c_str());
            else if (w.wait_kind == 2) {
                wait_terminate_checked(who.c_str());
                // terminated and no job running: nothing can be mid-flight now or later
                for (size_t j = 0; j < st.jobs.size(); ++j)
                    SCHED_CHECK(st.started[j] == st.finished[j], "C10/terminated-but-job-running",
                                who << ": loop_until_terminate returned while job " << j << " is running");
            }
        };
        std::vector<Thread> helpers;
        for (size_t t = 1; t < g.th.size(); ++t) helpers.emplace_back([&client, t]() { client(t); });
        client(0);
        for (auto& h : helpers) h.join();
        if (g.mode == 2) wait_empty_checked(true, "main(final)");
        vsched::note("~ThreadPool");
    }
    vsched::note("");
    st.pool = nullptr;
    final_checks(/*all_must_have_run=*/g.mode == 2);
    if (g.use_init) SCHED_CHECK(st.init_calls == g.P, "C10/init-thread", "init_thread ran " << st.init_calls << " times for " << g.P << " workers");
}

#ifdef C10_REAL_THREADS
PBT_PROPERTY(thread_pool_real) {
    st.reset();
    Program g = gen_program(src);
    pbt::label(tnames[g.tmpl]);
    if (g.nested) pbt::label("nested");
    describe(g);
    execute(g);
    if (g.P >= 2 && g.nested) pbt::nontrivial();
}
PBT_PROPERTY(thread_pool_waiters_real) {
    st.reset();
    WProgram g = gen_wprogram(src);
    pbt::label(wmodes[g.mode]);
    if (g.term_waiters >= 2) pbt::label("loop_until_terminate_waiters>=2");
    if (g.empty_waiters >= 2) pbt::label("loop_until_empty_waiters>=2");
    describe(g);
    wexecute(g);
    if (g.term_waiters >= 2 || g.empty_waiters >= 2) pbt::nontrivial();
}
#else
PBT_PROPERTY(thread_pool_waiters) {
    st.reset();
    WProgram g = gen_wprogram(src);
    pbt::label(wmodes[g.mode]);
    if (g.term_waiters >= 2) pbt::label("loop_until_terminate_waiters>=2");
    if (g.empty_waiters >= 2) pbt::label("loop_until_empty_waiters>=2");
    if (g.nested) pbt::label("nested");
    if (g.spurious) pbt::label("spurious_wakeups");
    describe(g);
    vsched::Options opt;
    opt.spurious_wakeups = g.spurious;
    vsched::Run run(src, opt);
    wexecute(g);
    auto& S = vsched::S();
    if ((g.term_waiters >= 2 || g.empty_waiters >= 2) && S.preemptions >= 2) pbt::nontrivial();
    PBT_LOG("steps=" << S.steps << " switches=" << S.switches << " preemptions=" << S.preemptions << "\n");
}

PBT_PROPERTY(thread_pool) {
    st.reset();
    Program g = gen_program(src);
    pbt::label(tnames[g.tmpl]);
    if (g.nested) pbt::label("nested");
    if (g.use_init) pbt::label("init_thread");
    if (g.spurious) pbt::label("spurious_wakeups");
    if (g.tmpl == 0 && g.rounds.size() > 1) pbt::label("reuse_after_empty");
    describe(g);
    vsched::Options opt;
    opt.spurious_wakeups = g.spurious;
    vsched::Run run(src, opt);
    execute(g);
    auto& S = vsched::S();
    if (g.P >= 2 && g.nested && S.preemptions >= 2) pbt::nontrivial();
    if (S.preemptions >= 4) pbt::label("preemptions>=4");
    PBT_LOG("steps=" << S.steps << " switches=" << S.switches << " preemptions=" << S.preemptions << "\n");
}


// ---------------------------------------------------------------------------------------------
// Scale classes (own target, so the mapping of thread_pool stays valid): many workers, many queued
// jobs (longer than any fixed batch a pool might use), long chains and wide fan-outs of nested jobs.
PBT_PROPERTY(thread_pool_scale) {
    st.reset();
    Program g;
    int shape = (int)src.range(0, 4);
    // workers: 1..4 | 5..16 | (1 case in 24) 250..330: more workers than any 8-bit counter can count
    {
        size_t pc = src.weighted({6, 17, 1});
        g.P = pc == 0 ? (int)src.range(1, 4) : pc == 1 ? (int)src.range(5, 16) : (int)src.range(250, 330);
    }
    const bool huge_pool = g.P >= 250;
    if (huge_pool) shape = 0, g.tmpl = 0;
    g.tmpl = huge_pool ? 0 : (int)src.weighted({5, 2, 2, 1}); // closed rounds, ext enqueuers, terminate-from-job, two waiters
    if (g.tmpl == 3) g.n_ext = 1;
    if (g.tmpl == 1) g.n_ext = 1, g.main_waits_concurrently = src.boolean();
    auto new_job = [&]() {
        st.jobs.emplace_back();
        return (int)st.jobs.size() - 1;
    };
    std::vector<int> roots;
    static const char* snames[] = {"many_independent", "long_chain", "wide_fanout", "chains_and_fans", "two_level_bursts"};
    switch (shape) {
    case 0: { // many independent jobs: the queue is far longer than the number of workers
        int n = huge_pool ? g.P + (src.boolean() ? 0 : (int)src.range(1, 100)) : (int)src.range(30, 400);
        for (int i = 0; i < n; ++i) {
            int j = new_job();
            roots.push_back(j);
            // huge pool: the first P jobs meet at a rendezvous, so that all P workers are busy at once
            if (huge_pool && i < g.P) st.jobs[(size_t)j].rendezvous = true;
        }
        if (huge_pool) st.rendezvous_target = g.P;
        break;
    }
    case 1: { // long chains: job enqueues one job enqueues one job ...
        int chains = (int)src.range(1, 4), len = (int)src.range(10, 100);
        for (int c = 0; c < chains; ++c) {
            int prev = new_job();
            roots.push_back(prev);
            for (int i = 1; i < len && st.jobs.size() < 440; ++i) {
                int j = new_job();
                st.jobs[(size_t)prev].children.push_back(j);
                prev = j;
            }
        }
        g.nested = true;
        break;
    }
    case 2: { // wide fan-out: one job enqueues many
        int r = new_job();
        roots.push_back(r);
        int n = (int)src.range(20, 300);
        for (int i = 0; i < n; ++i) {
            int j = new_job();
            st.jobs[(size_t)r].children.push_back(j);
        }
        g.nested = true;
        break;
    }
    case 3: { // mixture
        int nroots = (int)src.range(3, 20);
        for (int i = 0; i < nroots; ++i) {
            int r = new_job();
            roots.push_back(r);
            int kids = (int)src.range(0, 12);
            for (int k = 0; k < kids && st.jobs.size() < 440; ++k) {
                int j = new_job();
                st.jobs[(size_t)r].children.push_back(j);
                if (src.chance(64) && st.jobs.size() < 440) {
                    int jj = new_job();
                    st.jobs[(size_t)j].children.push_back(jj);
                }
            }
        }
        g.nested = true;
        break;
    }
    default: { // bursts: every root enqueues a burst
        int nroots = (int)src.range(2, 8), burst = (int)src.range(10, 50);
        for (int i = 0; i < nroots; ++i) {
            int r = new_job();
            roots.push_back(r);
            for (int k = 0; k < burst && st.jobs.size() < 440; ++k) {
                int j = new_job();
                st.jobs[(size_t)r].children.push_back(j);
            }
        }
        g.nested = true;
    }
    }
    switch (g.tmpl) {
    case 0: {
        // split the roots over 1..3 rounds (reuse after loop_until_empty)
        int nr = huge_pool ? 1 : (int)src.range(1, 3); // the rendezvous needs all jobs in one round
        g.rounds.assign((size_t)nr, std::vector<int>());
        for (size_t i = 0; i < roots.size(); ++i) g.rounds[i * (size_t)nr / roots.size()].push_back(roots[i]);
        break;
    }
    case 1:
        for (size_t i = 0; i < roots.size(); ++i) (i % 2 ? g.ext1_roots : g.main_roots).push_back(roots[i]);
        if (g.ext1_roots.empty()) g.ext1_roots.push_back(new_job());
        break;
    case 2: { // the LAST job created terminates the pool
        g.main_roots = roots;
        st.jobs.back().terminates = true;
        break;
    }
    default:
        g.ext1_roots = roots;
        break;
    }
    pbt::label(tnames[g.tmpl]);
    pbt::label(snames[shape]);
    pbt::label(g.P >= 250 ? "workers>=250" : g.P >= 9 ? "workers>=9" : g.P >= 5 ? "workers=5..8" : "workers<=4");
    pbt::label(st.jobs.size() >= 256 ? "jobs>=256" : st.jobs.size() >= 64 ? "jobs=64..255" : "jobs<64");
    PBT_LOG("scale shape=" << snames[shape] << " template=" << tnames[g.tmpl] << " workers=" << g.P << " jobs=" << st.jobs.size() << "\n");
    vsched::Options opt;
    opt.max_steps = 2000000;
    vsched::Run run(src, opt);
    execute(g);
    if (g.P >= 5 && st.jobs.size() >= 64) pbt::nontrivial();
    PBT_LOG("steps=" << vsched::S().steps << " preemptions=" << vsched::S().preemptions << "\n");
}

// ---------------------------------------------------------------------------------------------
// Bounded-exhaustive exploration: ALL schedules with at most `bound` preemptions of small fixed
// scenario templates (enumerate step: one chunk = one template).
#include "../engine/sched/explore.hpp"

namespace {
struct Template {
    const char* name;
    unsigned bound;
    void (*build)(Program&);
};
int add_job(std::initializer_list<int> children = {}, bool terminates = false) {
    st.jobs.emplace_back();
    st.jobs.back().children.assign(children.begin(), children.end());
    st.jobs.back().terminates = terminates;
    return (int)st.jobs.size() - 1;
}
const Template TEMPLATES[] = {
    {"1 worker, 2 independent jobs, wait-empty, reuse with 1 more job", 3, [](Program& g) {
         g.tmpl = 0, g.P = 1;
         int a = add_job(), b = add_job(), c = add_job();
         g.rounds = {{a, b}, {c}};
     }},
    {"2 workers, a job that enqueues a job, wait-empty", 2, [](Program& g) {
         g.tmpl = 0, g.P = 2, g.nested = true;
         int child = add_job();
         int parent = add_job({child});
         g.rounds = {{parent}};
     }},
    {"1 worker, job terminates the pool, main waits for termination", 3, [](Program& g) {
         g.tmpl = 2, g.P = 1;
         int a = add_job();
         int t = add_job({}, true);
         g.main_roots = {a, t};
     }},
    {"two waiters: helper enqueues, drains and terminates; main waits for termination (1 worker)", 3, [](Program& g) {
         g.tmpl = 3, g.P = 1, g.n_ext = 1;
         int a = add_job();
         g.ext1_roots = {a};
     }},
    {"destroy while busy: 2 workers, 2 jobs, no wait", 2, [](Program& g) {
         g.tmpl = 4, g.P = 2;
         int a = add_job(), b = add_job();
         g.main_roots = {a, b};
     }},
    {"external enqueuer + concurrent wait-empty (1 worker)", 2, [](Program& g) {
         g.tmpl = 1, g.P = 1, g.n_ext = 1, g.main_waits_concurrently = true;
         int a = add_job(), b = add_job();
         g.main_roots = {a};
         g.ext1_roots = {b};
     }},
};
const size_t NTEMPLATES = sizeof(TEMPLATES) / sizeof(TEMPLATES[0]);

//! waiter-program templates (several threads in the same kind of wait)
struct WTemplate {
    const char* name;
    unsigned bound;
    void (*build)(WProgram&);
};
const WTemplate WTEMPLATES[] = {
    {"two loop_until_terminate waiters, a job terminates while another job is queued (1 worker)", 3, [](WProgram& g) {
         g.P = 1, g.mode = 0;
         st.jobs.resize(2);
         st.jobs[0].terminates = true;
         g.th.resize(2);
         g.th[0].roots = {0, 1}, g.th[0].wait_kind = 2;
         g.th[1].wait_kind = 2;
         g.term_waiters = 2;
     }},
    {"two loop_until_terminate waiters, one of them enqueues a job and terminates first (1 worker)", 2, [](WProgram& g) {
         g.P = 1, g.mode = 1;
         st.jobs.resize(1);
         g.th.resize(2);
         g.th[0].roots = {0}, g.th[0].terminator = true, g.th[0].wait_kind = 2;
         g.th[1].wait_kind = 2;
         g.term_waiters = 2;
     }},
    {"two concurrent loop_until_empty waiters, nested job (1 worker)", 3, [](WProgram& g) {
         g.P = 1, g.mode = 2;
         st.jobs.resize(2);
         st.jobs[0].children = {1};
         g.nested = true;
         g.th.resize(2);
         g.th[0].roots = {0}, g.th[0].wait_kind = 1;
         g.th[1].wait_kind = 1;
         g.empty_waiters = 2;
     }},
};
const size_t NWTEMPLATES = sizeof(WTEMPLATES) / sizeof(WTEMPLATES[0]);
} // namespace

PBT_PROPERTY(thread_pool_exhaustive) {
    uint64_t idx = src.bits(8), total = src.bits(8);
    if (total == 0) total = NTEMPLATES + NWTEMPLATES, idx = 0;
    uint8_t none = 0;
    for (uint64_t t = idx; t < NTEMPLATES + NWTEMPLATES; t += total) {
        if (t >= NTEMPLATES) { // waiter-program templates
            const WTemplate& T = WTEMPLATES[t - NTEMPLATES];
            vsched::Explorer ex(T.bound, 30000000);
            bool was_verbose = pbt::ctx().verbose;
            pbt::ctx().verbose = false;
            uint64_t n = ex.explore([&](vsched::Explorer& e) {
                st.reset();
                WProgram g;
                T.build(g);
                pbt::Source dummy(&none, 0);
                vsched::Options opt;
                vsched::Run run(dummy, opt);
                e.install();
                wexecute(g);
            });
            pbt::ctx().verbose = was_verbose;
            pbt::count(n);
            PBT_LOG("template " << t << " (" << T.name << "): " << n << " schedules with <= " << T.bound << " preemptions, complete=" << ex.complete << "\n");
            if (!ex.complete) pbt::inconclusive();
            continue;
        }
        const Template& T = TEMPLATES[t];
        vsched::Explorer ex(T.bound, 30000000);
        bool was_verbose = pbt::ctx().verbose;
        pbt::ctx().verbose = false; // no per-switch trace for hundreds of thousands of runs
        uint64_t n = ex.explore([&](vsched::Explorer& e) {
            st.reset();
            Program g;
            T.build(g);
            pbt::Source dummy(&none, 0);
            vsched::Options opt;
            vsched::Run run(dummy, opt);
            e.install();
            execute(g);
        });
        pbt::ctx().verbose = was_verbose;
        pbt::count(n);
        PBT_LOG("template " << t << " (" << T.name << "): " << n << " schedules with <= " << T.bound << " preemptions, complete=" << ex.complete << "\n");
        if (!ex.complete) pbt::inconclusive();
    }
    pbt::label("template");
    pbt::nontrivial();
}
#endif // C10_REAL_THREADS
